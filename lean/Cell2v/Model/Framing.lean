/-
C05 — model of TCP framing: pomelonet/server/acceptor/tcp_acceptor.go
`tcpPlayerConn.GetNextMessage` over a byte stream that arrives in arbitrary
pieces (TCP segments), and the read loop's view of it (message after message
until the connection ends or a framing error).

A stream is the list of its unread segments (`List (List Nat)`, bytes as `Nat`s);
one `conn.Read(buf)` returns at most the first segment (`read1`); after the last
segment the peer has half-closed (EOF).  `readAllLimit n` is
`ioutil.ReadAll(io.LimitReader(conn, n))`: Reads until `n` bytes were gathered or
EOF.  `readOnce n` is a single `conn.Read` into an `n`-byte buffer (what the code
must NOT do; kept as a definition for the defect witness).
-/
namespace Cell2v.Framing

/-- `codec.HeadLength` -/
def headLen : Nat := 4

/-- `codec.MaxPacketSize` -/
def maxPacket : Nat := 16777216

/-- one `conn.Read` into a buffer of `k` bytes: the bytes, the rest of the stream; `none` = EOF -/
def read1 (k : Nat) : List (List Nat) → Option (List Nat × List (List Nat))
  | [] => none
  | c :: cs => if c.length ≤ k then some (c, cs) else some (c.take k, c.drop k :: cs)

/-- `ioutil.ReadAll(io.LimitReader(conn, n))`: what was read (fewer than `n` bytes only at EOF), the rest of the stream -/
def readAllLimit : Nat → List (List Nat) → List Nat × List (List Nat)
  | _, [] => ([], [])
  | n, c :: cs =>
    if n = 0 then ([], c :: cs)
    else if c.length ≤ n then
      let r := readAllLimit (n - c.length) cs
      (c ++ r.1, r.2)
    else (c.take n, c.drop n :: cs)

/-- a single `conn.Read` into an `n`-byte buffer -/
def readOnce (n : Nat) (cs : List (List Nat)) : List Nat × List (List Nat) :=
  if n = 0 then ([], cs) else
  match read1 n cs with
  | none => ([], [])
  | some r => r

/-- `codec.BytesToInt` (big endian) -/
def bytesToInt (b : List Nat) : Nat := b.foldl (fun r v => r * 256 + v) 0

/-- `codec.ParseHeader`: the body size, `none` = error (wrong length, packet type outside 1..5, size above the maximum) -/
def parseHeader (h : List Nat) : Option Nat :=
  if h.length ≠ headLen then none
  else
    let typ := h.headD 0
    if typ < 1 ∨ typ > 5 then none
    else
      let size := bytesToInt (h.drop 1)
      if size > maxPacket then none else some size

/-- result of one `GetNextMessage` -/
inductive Next
  | msg (bytes : List Nat)   -- header ++ body
  | closed                   -- no header byte: `ErrConnectionClosed`
  | err                      -- header error, short body
  deriving DecidableEq, Repr

/-- `tcpPlayerConn.GetNextMessage`, parameterised by how the body is read -/
def getNextWith (readBody : Nat → List (List Nat) → List Nat × List (List Nat)) (cs : List (List Nat)) :
    Next × List (List Nat) :=
  let h := readAllLimit headLen cs
  if h.1 = [] then (.closed, h.2)
  else match parseHeader h.1 with
    | none => (.err, h.2)
    | some size =>
      let b := readBody size h.2
      if b.1.length < size then (.err, b.2) else (.msg (h.1 ++ b.1), b.2)

/-- the code as it is -/
def getNext : List (List Nat) → Next × List (List Nat) := getNextWith readAllLimit

/-- the read loop's view: the messages it gets, then what ended the stream (`closed` or `err`; every error ends the
session, nothing is read after it).  `fuel`: at most that many messages. -/
def framesOf : Nat → List (List Nat) → List (List Nat) × Next
  | 0, _ => ([], .err)
  | k + 1, cs =>
    match getNext cs with
    | (.msg b, rest) => let r := framesOf k rest; (b :: r.1, r.2)
    | (e, _) => ([], e)

/-! ### a client that keeps its side of the connection open

The stream is the segments that have arrived so far and no EOF will follow: a `ReadAll(LimitReader(conn, n))` that
has gathered fewer than `n` bytes stays blocked in `conn.Read` (until somebody closes the conn under it). -/

/-- `ioutil.ReadAll(io.LimitReader(conn, n))` on an open stream; `none` = still blocked -/
def readAllLimitOpen (n : Nat) (cs : List (List Nat)) : Option (List Nat × List (List Nat)) :=
  let r := readAllLimit n cs
  if r.1.length < n then none else some r

/-- result of one `GetNextMessage` on an open stream -/
inductive NextO
  | msg (bytes : List Nat)
  | err                      -- header error (a complete header that does not parse)
  | pending                  -- blocked in Read: header or body incomplete
  deriving DecidableEq, Repr

/-- `tcpPlayerConn.GetNextMessage` on an open stream -/
def getNextOpen (cs : List (List Nat)) : NextO × List (List Nat) :=
  match readAllLimitOpen headLen cs with
  | none => (.pending, [])
  | some h =>
    match parseHeader h.1 with
    | none => (.err, h.2)
    | some size =>
      match readAllLimitOpen size h.2 with
      | none => (.pending, [])
      | some b => (.msg (h.1 ++ b.1), b.2)

/-- the read loop's view of an open stream: the messages it gets, then `err` (the reader ends the session) or
`pending` (the reader is parked in Read: only the server's side can end the session now) -/
def framesOpen : Nat → List (List Nat) → List (List Nat) × NextO
  | 0, _ => ([], .err)
  | k + 1, cs =>
    match getNextOpen cs with
    | (.msg b, rest) => let r := framesOpen k rest; (b :: r.1, r.2)
    | (e, _) => ([], e)

/-- `WSConn.GetNextMessage` (ws_acceptor.go) on one websocket message (the websocket layer has reassembled its fragments):
exactly one packet per message — shorter than a header, a header error, a body shorter or LONGER than announced are errors -/
def wsNext (m : List Nat) : Next :=
  if m.length < headLen then .err
  else match parseHeader (m.take headLen) with
    | none => .err
    | some size =>
      if m.length - headLen < size then .err
      else if m.length - headLen > size then .err
      else .msg m

/-- a packet as the encoder writes it: type byte, 3-byte big-endian length, body -/
def encode (typ : Nat) (body : List Nat) : List Nat :=
  [typ, body.length / 65536 % 256, body.length / 256 % 256, body.length % 256] ++ body

/-- cut a byte stream at the given (increasing) offsets -/
def cutAt (bytes : List Nat) : Nat → List Nat → List (List Nat)
  | _, [] => [bytes]
  | at0, o :: os => if o ≤ at0 ∨ o - at0 ≥ bytes.length then cutAt bytes at0 os
                    else bytes.take (o - at0) :: cutAt (bytes.drop (o - at0)) o os

end Cell2v.Framing
