/-
C02 — model of how a front-end serves one client message
  node/client/impls/handler.go     (HandlerComponent.Process, tryCallCol, isNotifyMethod, ProcessForwardMsg)
  node/client/impls/forwarder.go   (ForwarderComponent.Forward and its reply callback)
  node/client/impls/sessions.go    (ClientSessions.ProcessMessage → handler.Process)
  node/client/impls/pomelo/sessionsimpl.go (message.Message → msgs.ClientMsg, posted to the service)
  node/builtin/system.go           (sys.call / sys.notify → ProcessForwardMsg)
  apimapper/apientry/{caller,collection,container}.go (CallWithSerialize, Call, CallMethod, SafeCall)
  actorex/service/service.go       (RequestEx pending entry, 30 s expiry scan, late reply = "miss response")
  pomelonet/server/session/session.go (ResponseMID refuses id 0; an error response carries no payload)
  node/app/utils.go                (SplitClientRoute, RoutePID)

Own namespace; nothing is shared with the C07 / C13 / C01 models (those are other
builders' files); the three aspects are re-stated here at the granularity this
property needs.

What is mirrored, statement by statement:
* `Process`: split the route; `serviceType != own type` → `Forward`, else `tryCallCol`
  on the front's own collection with a completion that writes
  `ResponseMID(id, data | err)`; `ResponseMID` refuses id 0.
* `tryCallCol` (shared by the front-local and the forwarded path): no such method →
  completion(error); request (id ≠ 0) to a notify-shaped method → completion(error)
  [fix b007ad3, `Fixes.d4b`]; id 0 → `CallWithSerialize(… nil)`: undecodable payload →
  nothing, else the handler body runs and nobody is told; id ≠ 0 →
  `CallWithSerialize(… cb)`: undecodable payload → completion(error), else the handler
  body runs and completes once (a panic is turned into completion(error) by `SafeCall`; a
  panic AFTER a completion that went through is not — `CallMethod`'s `completed` flag, fix 7b326e6;
  section "the synchronous frame": `callMethod`, tied to `behResult` by `behResult_is_callMethod`).
* `Forward`: `RoutePID(type, session)` = route function outcome looked up in the
  directory ("" or unknown name → nil); nil → error response for a request
  [fix d38d6e3, `Fixes.d4a`], nothing for a notify; id 0 → `sys.notify`; else `sys.call`
  with a callback: request failure/timeout → error response; a reply whose
  `SessionId`/`ClientReqId` do not match is dropped; else `Error`/`Data` relayed.
* `ProcessForwardMsg` at the selected instance: wrong service type → log and return
  (no completion: the requester's entry expires after 30 s); else `tryCallCol` with a
  completion that wraps the result in `msgs.Response{SessionId, ClientReqId, …}`.
* `SessionsImpl.ProcessMessage`: the envelope's `SessionId` is read inside the task posted to the
  owner, i.e. after the `AddSession` posted by `OnSessionCreate` [fix d1d6afb, `Fixes.d20`; before it
  a message read while the owner had not yet run `AddSession` carried `SessionId` 0, and a forwarded
  request's reply then failed the "missmatch res" check and was dropped].
* `ClientSession.processPacket` (reader goroutine): a Data packet reaches the front only while the
  session is in StatusWorking; a Handshake packet — also on a working session — sets StatusHandshake
  until the next HandshakeAck, data packets read meanwhile are ignored, while `ResponseMID` keeps
  writing (it refuses only StatusClosed).  A `req` of a history is therefore a request the reader
  DELIVERED; the driver drops the ones sent between a re-handshake and its ack.
* `Service.doRequestEx`: when `remote.Serialize` of the envelope fails (route not valid UTF-8) nothing
  is sent, the pending entry is deleted and the callback completed once with the error.
* request expiry: an entry older than 30 s is completed with `ErrTimeout` by the 1 s
  scan, i.e. in (30 s, 31 s]; a reply arriving later finds no entry and is dropped.

Modelled, not verified (parameters): the handler table (shape + behaviour of each
method; behaviours call their completion function at most once and complete or panic — `ok`, `fail`, `panic`,
`okboom` (complete, then panic), `mboom` (the completion function panics on the result), `slow`/`late`
= `ok` after 2 s / 42 s through the service's timer, `near`/`over` = `ok` after 29 s / 33 s (just inside /
just outside the 30 s request timeout), `unser` = completes with a value the client
serializer cannot marshal), the route function outcome
(`Cfg.route`), the directory (`Cfg.dir`: name ↦ type and whether an actor lives
behind the PID), JSON decoding (`Payload.valid v | undecodable`), result
serialisation (`Result.data origin group method v` stands for the bytes of
`{"s":origin,"m":method,"v":v}`).
Delays are nominal milliseconds: the timeout is placed at 31000 (any instant in
(30000, 31000] gives the same observations at the 5 s granularity of the harness);
no delay is a multiple of 5 s, so nothing is due exactly when the harness observes.
-/
namespace Cell2v.ClientServe

/-! ## configuration -/

inductive Shape | request | notify
  deriving DecidableEq, Repr

/-- what a handler body does.  `okboom`: completes, then panics in the same frame; `mboom`: completes
with a value on which the completion function itself panics (the serializer's `Marshal` panics) —
for both `CallMethod`/`SafeCall` (section "the synchronous frame" below) make the outcome exactly one
completion.  No member never completes or calls its completion function twice. -/
inductive Beh | ok | fail | panic | slow | late | unser | near | over | okboom | mboom
  deriving DecidableEq, Repr

structure Handler where
  shape : Shape
  beh : Beh
  deriving DecidableEq, Repr

inductive Payload
  | valid (v : Nat)
  | undecodable
  deriving DecidableEq, Repr

/-- `msgs.ClientMsg` as built by `SessionsImpl.ProcessMessage` -/
structure ClientMsg where
  id : Nat
  route : String
  pay : Payload
  deriving DecidableEq, Repr

/-- the front session: connection id (`_NetId`), the routing key stored in it, and whether the owning
service had already run `AddSession` (which assigns the id) when the session's reader goroutine read
the message — `false` for a message pipelined right behind the handshake while the owner is busy -/
structure Sess where
  sid : Nat
  key : Option String
  added : Bool
  deriving DecidableEq, Repr

/-- a directory entry: the instance's service type; `alive` = an actor processes what is sent to its PID -/
structure Inst where
  type : String
  alive : Bool
  deriving DecidableEq, Repr

structure Cfg where
  frontName : String
  frontType : String
  /-- `<type>.handler` collections: type → group → method → handler -/
  handlers : String → String → String → Option Handler
  /-- `Cluster.GetService(name)` -/
  dir : String → Option Inst
  /-- `route.GetRouteService().Route(type, frontSession)`: an instance name, a sentinel, or "" -/
  route : String → Sess → String

/-- which of the repairs are present (`serve` = all) -/
structure Fixes where
  d4a : Bool
  d4b : Bool
  /-- d1d6afb: `SessionsImpl.ProcessMessage` reads `session.GetId()` inside the posted task (after the
  posted `AddSession`), not on the reader goroutine -/
  d20 : Bool

def fixed : Fixes := ⟨true, true, true⟩

/-- the `SessionId` stamped on the envelope: before d1d6afb it was read on the reader goroutine and
was still 0 when `AddSession` had not run yet -/
def stamp (fx : Fixes) (s : Sess) : Nat :=
  if s.added = false ∧ fx.d20 = false then 0 else s.sid

@[simp] theorem stamp_fixed (s : Sess) : stamp fixed s = s.sid := by simp [stamp, fixed]

/-! ## results and effects -/

inductive Result
  | data (origin group method : String) (v : Nat)
  | error
  /-- a success response with an empty body -/
  | blank
  /-- (handler level only, never on the wire) completed with a value `serializer.Marshal` refuses,
  or failed with an error whose text is empty -/
  | unser
  deriving DecidableEq, Repr

/-- the front's own completion in `Process`: `Marshal` error → `ResponseMID(id, nil, serializeErr)` and return -/
def wireLocal : Result → Result
  | .unser => .error
  | r => r

/-- `ProcessForwardMsg`: `data, err := serializer.Marshal(ret)` — the error is ignored and the reply
carries nil `Data` and no `Error`: the front relays a success with an empty body -/
def wireBack : Result → Result
  | .unser => .blank
  | r => r

inductive Effect
  /-- the body of handler `group.method` ran at service `svc` with decoded argument `v` -/
  | invoke (svc group method : String) (v : Nat)
  /-- a Response message with this id is written on connection `conn`, `delay` ms after the request was read -/
  | respond (delay conn id : Nat) (res : Result)
  deriving DecidableEq, Repr

def slowMs : Nat := 2000
/-- just inside / just outside the request timeout (30 s; the expiry scan fires within the next second) -/
def nearMs : Nat := 29000
def overMs : Nat := 33000
def lateMs : Nat := 42000
/-- `RequestTimeout` -/
def requestTimeout : Nat := 30000
/-- nominal instant of the expiry scan that completes a silent request -/
def timeoutMs : Nat := 31000

/-! ## route splitting (`strings.Split(route, ".")`, three parts or nothing) -/

def splitChars : List Char → List (List Char)
  | [] => [[]]
  | c :: cs =>
    match splitChars cs with
    | [] => [[]]
    | w :: ws => if c = '.' then [] :: w :: ws else (c :: w) :: ws

def splitDots (s : String) : List String := (splitChars s.toList).map String.ofList

def splitClientRoute (r : String) : String × String × String :=
  match splitDots r with
  | [a, b, c] => (a, b, c)
  | _ => ("", "", "")

/-! ## `tryCallCol` -/

/-- outcome of `tryCallCol`: did the handler body run (with which argument), and with what was the
completion `cb` called (at most once; `none` = never) -/
structure CallRes where
  invoked : Option Nat
  done : Option (Nat × Result)
  deriving DecidableEq, Repr

def behResult (svc g m : String) (v : Nat) : Beh → Nat × Result
  | .ok => (0, .data svc g m v)
  | .fail => (0, .error)
  | .panic => (0, .error)
  | .slow => (slowMs, .data svc g m v)
  | .late => (lateMs, .data svc g m v)
  | .unser => (0, .unser)
  | .near => (nearMs, .data svc g m v)
  | .over => (overMs, .data svc g m v)
  | .okboom => (0, .data svc g m v)     -- the completion went through; SafeCall does not complete again (7b326e6)
  | .mboom => (0, .error)               -- the completion panicked before writing: SafeCall completes with "panic in rpc"

/-! ## the synchronous frame of a request handler: `APIContainer.CallMethod` + `SafeCall`

    completed := false
    handlerCB = func(e, result) { cbFunc(e, result); completed = true }     -- handed to the handler
    panicCB   = func(e, result) { if !completed { cbFunc(e, result) } }     -- handed to SafeCall
    SafeCall:  defer func() { if recover() != nil { CheckInvokeCBFunc(panicCB, "panic in rpc", nil) } }()
               handler.Method.Func.Call(args)

A handler body's frame is a list of acts.  `complete r thru`: the body calls its completion function
with `r`; `thru = false` means the completion function `cbFunc` itself panics on `r` before it has
written anything (front: `serializer.Marshal(ret)` in the closure of `Process`; back: the same call in
the closure of `ProcessForwardMsg`) — the panic unwinds through the handler, `completed` stays false.
`panic`: the body panics.  `guard = false` is the code before 7b326e6 (defect D23): the handler got
`cbFunc` itself and `SafeCall` completed with `cbFunc` whenever the frame panicked. -/

inductive Act
  | complete (r : Result) (thru : Bool)
  | panic
  deriving DecidableEq, Repr

structure Frame where
  /-- the `completed` flag -/
  completed : Bool := false
  /-- the calls of `cbFunc` that went through, oldest first -/
  calls : List Result := []
  deriving DecidableEq, Repr

/-- runs the body until it returns or panics; the `Bool` says that it panicked -/
def runFrame : List Act → Frame → Frame × Bool
  | [], f => (f, false)
  | .panic :: _, f => (f, true)
  | .complete r thru :: rest, f =>
    if thru then runFrame rest ⟨true, f.calls ++ [r]⟩       -- cbFunc(e, result); completed = true
    else (f, true)                                            -- cbFunc panicked: `completed = true` is not reached

/-- every completion `cbFunc` receives for one `CallMethod` whose body's synchronous frame is `body` -/
def callMethod (guard : Bool) (body : List Act) : List Result :=
  let out := runFrame body {}
  if out.2 = true ∧ ¬ (guard = true ∧ out.1.completed = true) then out.1.calls ++ [.error]   -- recover → panicCB
  else out.1.calls

/-- the synchronous frame of each behaviour of the zoo (`slow`, `late`, `near`, `over` return at once
and complete later from the service's timer: an empty frame) -/
def bodyOf (svc g m : String) (v : Nat) : Beh → List Act
  | .ok => [.complete (.data svc g m v) true]
  | .fail => [.complete .error true]
  | .panic => [.panic]
  | .unser => [.complete .unser true]
  | .okboom => [.complete (.data svc g m v) true, .panic]
  | .mboom => [.complete (.data svc g m v) false]
  | .slow | .late | .near | .over => []

def Beh.sync : Beh → Bool
  | .slow | .late | .near | .over => false
  | _ => true

def tryCallCol (fx : Fixes) (c : Cfg) (svc type g m : String) (id : Nat) (pay : Payload) : CallRes :=
  match c.handlers type g m with
  | none => ⟨none, some (0, .error)⟩                     -- !col.HasMethod(route): cb(errors.New("no method"))
  | some h =>
    if fx.d4b = true ∧ id ≠ 0 ∧ h.shape = .notify then
      ⟨none, some (0, .error)⟩                           -- request to a notify method: cb(error)
    else if id = 0 then
      match pay with                                      -- CallWithSerialize(col, ctx, route, data, nil, …)
      | .undecodable => ⟨none, none⟩
      | .valid v => ⟨some v, none⟩
    else
      match pay with                                      -- CallWithSerialize(col, ctx, route, data, cb, …)
      | .undecodable => ⟨none, some (0, .error)⟩
      | .valid v =>
        match h.shape with
        | .notify => ⟨none, none⟩                         -- CallMethod: "call notify with cb" → return (pre-b007ad3 only)
        | .request => ⟨some v, some (behResult svc g m v h.beh)⟩

def invokeEff (svc g m : String) : Option Nat → List Effect
  | none => []
  | some v => [.invoke svc g m v]

/-! ## front-local path -/

def serveLocal (fx : Fixes) (c : Cfg) (s : Sess) (msg : ClientMsg) (g m : String) : List Effect :=
  let r := tryCallCol fx c c.frontName c.frontType g m msg.id msg.pay
  invokeEff c.frontName g m r.invoked ++
    match r.done with
    | none => []
    | some (d, res) => if msg.id = 0 then [] else [.respond d s.sid msg.id (wireLocal res)]   -- ResponseMID refuses id 0

/-! ## forwarded path -/

/-- `msgs.ClientMsg` as stamped by `Forward` and received by `sys.call` / `sys.notify` -/
structure FwdMsg where
  sessionId : Nat
  clientReqId : Nat
  route : String
  pay : Payload

/-- `msgs.Response` -/
structure BackReply where
  sessionId : Nat
  clientReqId : Nat
  res : Result

/-- `ProcessForwardMsg` at instance `svc`: invocations, and the reply handed to `cbFunc` (with its delay) -/
def processForward (fx : Fixes) (c : Cfg) (svc : String) (inst : Inst) (f : FwdMsg) :
    List Effect × Option (Nat × BackReply) :=
  let p := splitClientRoute f.route
  if p.1 ≠ inst.type then ([], none)                     -- "got msg at wrong service": return
  else
    let r := tryCallCol fx c svc inst.type p.2.1 p.2.2 f.clientReqId f.pay
    (invokeEff svc p.2.1 p.2.2 r.invoked,
     r.done.map fun dr => (dr.1, ⟨f.sessionId, f.clientReqId, wireBack dr.2⟩))

/-- the `RequestEx(pid, "sys.call", …)` callback of `Forward` -/
def relay (s : Sess) (msg : ClientMsg) : Option (Nat × BackReply) → List Effect
  | none => [.respond timeoutMs s.sid msg.id .error]                       -- ErrTimeout from the expiry scan
  | some (d, rep) =>
    if requestTimeout < d then [.respond timeoutMs s.sid msg.id .error]    -- expired first; the late reply finds no entry
    else if rep.sessionId ≠ s.sid ∨ rep.clientReqId ≠ msg.id then []      -- "missmatch res": dropped
    else [.respond d s.sid msg.id rep.res]

/-- can `remote.Serialize` marshal the stamped envelope?  `Route` is a proto3 `string`: it must be
valid UTF-8.  Routes of the model are the bytes the client sent with every byte that is not part of
a valid UTF-8 sequence shown as U+FFFD (a genuine U+FFFD is not distinguished — not generated). -/
def routeSerialisable (r : String) : Bool := !(r.toList.contains '\uFFFD')

def forward (fx : Fixes) (c : Cfg) (s : Sess) (msg : ClientMsg) (t : String) : List Effect :=
  let r := c.route t s
  match (if r = "" then none else c.dir r) with           -- app.RoutePID
  | none => if fx.d4a = true ∧ msg.id ≠ 0 then [.respond 0 s.sid msg.id .error] else []
  | some inst =>
    let f : FwdMsg := ⟨stamp fx s, msg.id, msg.route, msg.pay⟩
    if routeSerialisable msg.route = false then
      -- doRequestEx: remote.Serialize fails → nothing is sent; a request's pending entry is removed and
      -- its callback completed with the error (→ error response); a notify just vanishes
      (if msg.id = 0 then [] else [.respond 0 s.sid msg.id .error])
    else if inst.alive = false then
      (if msg.id = 0 then [] else relay s msg none)
    else
      let out := processForward fx c r inst f
      if msg.id = 0 then out.1                            -- sys.notify: ProcessForwardMsg(msg, nil)
      else out.1 ++ relay s msg out.2

/-! ## `HandlerComponent.Process` (on the `msgs.ClientMsg` envelope) -/

def processWith (fx : Fixes) (c : Cfg) (s : Sess) (msg : ClientMsg) : List Effect :=
  let p := splitClientRoute msg.route
  if p.1 ≠ c.frontType then forward fx c s msg p.1
  else serveLocal fx c s msg p.2.1 p.2.2

def process (c : Cfg) (s : Sess) (msg : ClientMsg) : List Effect := processWith fixed c s msg

/-! ## `SessionsImpl.ProcessMessage`: wire message → envelope

`cmsg.ClientReqId = uint32(msg.ID)`: the request id the client sent (a varint, up to 64 bits) is
truncated to the 32-bit protobuf field of the envelope.  Everything downstream — "is it a notify",
the id of the response — sees the truncated id (known finding D19). -/

def idWrap : Nat := 4294967296

def envelope (msg : ClientMsg) : ClientMsg := { msg with id := msg.id % idWrap }

/-- what the front does with one message read from a connection (`msg.id` is the id on the wire) -/
def serveWith (fx : Fixes) (c : Cfg) (s : Sess) (msg : ClientMsg) : List Effect :=
  processWith fx c s (envelope msg)

def serve (c : Cfg) (s : Sess) (msg : ClientMsg) : List Effect := serveWith fixed c s msg

/-! ## projections of an effect list -/

def responses : List Effect → List (Nat × Nat × Nat × Result)
  | [] => []
  | .respond d cn i r :: es => (d, cn, i, r) :: responses es
  | .invoke .. :: es => responses es

def invocations : List Effect → List (String × String × String × Nat)
  | [] => []
  | .invoke s g m v :: es => (s, g, m, v) :: invocations es
  | .respond .. :: es => invocations es

/-! ## histories: several clients, requests in flight, virtual time -/

structure Pending where
  due : Nat
  conn : Nat
  id : Nat
  res : Result
  deriving DecidableEq, Repr

inductive Op
  | req (s : Sess) (msg : ClientMsg)
  | adv (d : Nat)

structure St where
  now : Nat
  pend : List Pending
  /-- responses written so far, oldest first: (connection, id, result) -/
  out : List (Nat × Nat × Result)
  /-- handler invocations so far -/
  inv : List (String × String × String × Nat)

def St.init : St := ⟨0, [], [], []⟩

def toPending (now : Nat) (x : Nat × Nat × Nat × Result) : Pending := ⟨now + x.1, x.2.1, x.2.2.1, x.2.2.2⟩

def Pending.wire (p : Pending) : Nat × Nat × Result := (p.conn, p.id, p.res)

def step (fx : Fixes) (c : Cfg) (st : St) : Op → St
  | .req s msg =>
    let es := serveWith fx c s msg
    let ps := (responses es).map (toPending st.now)
    { st with
      pend := st.pend ++ ps.filter (fun p => decide (st.now < p.due)),
      out := st.out ++ (ps.filter (fun p => decide (p.due ≤ st.now))).map Pending.wire,
      inv := st.inv ++ invocations es }
  | .adv d =>
    let now' := st.now + d
    { st with
      now := now',
      pend := st.pend.filter (fun p => decide (now' < p.due)),
      out := st.out ++ (st.pend.filter (fun p => decide (p.due ≤ now'))).map Pending.wire }

def run (fx : Fixes) (c : Cfg) : St → List Op → St
  | st, [] => st
  | st, op :: ops => run fx c (step fx c st op) ops

/-- number of messages sent on this connection whose id, as the envelope carries it (mod 2^32, D19),
is `id` (id ≠ 0 is up to the caller); for wire ids below 2^32 that is the id itself -/
def reqCount (conn id : Nat) : List Op → Nat
  | [] => 0
  | .req s msg :: ops => (if s.sid = conn ∧ msg.id % idWrap = id then 1 else 0) + reqCount conn id ops
  | .adv _ :: ops => reqCount conn id ops

def wireCount (conn id : Nat) (l : List (Nat × Nat × Result)) : Nat :=
  (l.filter fun x => decide (x.1 = conn ∧ x.2.1 = id)).length

/-! ## the configuration of the correspondence run (harness/c02) -/

/-- the handler zoo registered for every service type of the run -/
def zoo (g m : String) : Option Handler :=
  if g ≠ "zoo" then none
  else if m = "echo" then some ⟨.request, .ok⟩
  else if m = "fail" then some ⟨.request, .fail⟩
  else if m = "boom" then some ⟨.request, .panic⟩
  else if m = "slow" then some ⟨.request, .slow⟩
  else if m = "late" then some ⟨.request, .late⟩
  else if m = "s29" then some ⟨.request, .near⟩
  else if m = "s33" then some ⟨.request, .over⟩
  -- nan: completes with a value the client serializer refuses; fail0: fails with an error whose text is
  -- EMPTY.  Both take the same two paths: the front's own completion sees a non-nil error → error
  -- response; `ProcessForwardMsg` puts `err.Error()` = "" (resp. nothing, the Marshal error is ignored)
  -- into `msgs.Response.Error`, and `Forward` reads "" as success → a success with an empty body
  else if m = "nan" ∨ m = "fail0" then some ⟨.request, .unser⟩
  -- login / loginw: the handler binds a user id to the session and pushes the session to the front
  -- (without / with waiting for the push to be acknowledged) before it completes like `echo`; the
  -- bound id is stamped on later envelopes but nothing the client sees depends on it
  else if m = "login" ∨ m = "loginw" then some ⟨.request, .ok⟩
  -- okboom: completes, then panics in the same frame; mboom: completes with a value whose MarshalJSON
  -- panics; slowboom: completes after 2 s from the service's timer and panics right after (the timer
  -- recovers): for everything a client or a handler log observes that is `slow`
  else if m = "okboom" then some ⟨.request, .okboom⟩
  else if m = "mboom" then some ⟨.request, .mboom⟩
  else if m = "slowboom" then some ⟨.request, .slow⟩
  else if m = "tell" then some ⟨.notify, .ok⟩
  else none

/-- a second group registered ONLY at the back-end types (chat, hall): handlers that break the
"completes exactly once" rule.  `hang`: asynchronous, its continuation panics inside the service's
timer (recovered and swallowed there) — it NEVER completes; for a forwarded request that is, for
everything a client or a handler log can observe, a handler that completes after the request
timeout (`late`): the client gets the timeout error.  `okboom`: completes, then panics in the same
frame — since 7b326e6 `SafeCall` does not complete a second time (`Beh.okboom`; the same handler is
also part of group `zoo` at every type).  (Front-local, `hang` leaves the client without any response
— reproduced on the code, reported, not part of the run; see `Model/ClientShared.lean` events `lose` /
`dup` for the proof that forwarded requests do not need the "exactly once" rule.) -/
def zoob (g m : String) : Option Handler :=
  if g ≠ "zoob" then none
  else if m = "hang" then some ⟨.request, .late⟩
  else if m = "okboom" then some ⟨.request, .okboom⟩
  else none

/-! ## `RouteService.doRoute`: the application's route function may panic

`doRoute(serverType, param)` runs the function registered for the type under a deferred `recover()`:
`defer func() { if err := recover(); err != nil { log } }(); return f(serverType, param)`.  A route
function that PANICS for this session (`none`: the usual `param.Get("chatid", "").(string)` on a key
that a back-end pushed as a JSON number) is recovered THERE and the unnamed result is its zero value
`""`; `app.RoutePID("")` finds no service → the forwarder answers "can not find target service".
`Cfg.route` is the result of `doRoute`. -/
def doRoute (f : String → Sess → Option String) (t : String) (s : Sess) : String := (f t s).getD ""

/-! ## `pomelo.StartAcceptor`: accepted connections → sessions

`for conn := range a.GetConnChan() { s := session.NewClientSession(conn, cfg); s.Handle() }`: every
connection the acceptor queued is turned into ONE session, built in the loop's own frame on the
connection just received.  `acceptLoop conns` = the connection each new session reads, in creation
order (connections are numbers). -/
def acceptLoop : List Nat → List Nat
  | [] => []
  | conn :: rest => conn :: acceptLoop rest

/-- how many sessions read connection `c` -/
def servedBy (sessions : List Nat) (c : Nat) : Nat := sessions.count c

/-- NOT the code: a goroutine per connection that reads the loop variable when it RUNS — in a
`go 1.21` module one variable for all iterations; `lag k` = how many further connections the loop has
received by the time the k-th goroutine reads it. -/
def acceptDeferred (conns : List Nat) (lag : Nat → Nat) : List Nat :=
  (List.range conns.length).filterMap fun k => conns[min (k + lag k) (conns.length - 1)]?

/-- the tie's route function of type chat, as an application writes it: an UNCHECKED type assertion
on the session key.  A key shown as `#<n>` holds the number n, not a string: the assertion panics. -/
def tieRouteFn (n2working : Bool) (t : String) (s : Sess) : Option String :=
  if t = "chat" then
    (match s.key with
     | some k => if k.toList.head? = some '#' then none else if k = "" then some "no_service" else some k
     | none => some "no_service")
  else if t = "hall" then some (if n2working then "hall-2" else "hall-1")
  else if t = "gate" then some "gate-1"
  else some "no_service"

/-- node n1 (always Working): front `gate-1`, `chat-1`, `hall-1`, and `chat-9` which is listed in the
directory but has no actor behind its PID; node n2 (its state changes during a run, `n2working`):
`chat-2`, `hall-2`.  Type chat is routed by the session key `chatid` — the rule names the instance and
`RoutePID` resolves ANY cluster member's service by name, whatever the state of its node.  Type hall has
no route rule: `defaultRoute` takes the first instance of the WORKING list (n2's services come first
in the member order). -/
def tieCfg (n2working : Bool) : Cfg where
  frontName := "gate-1"
  frontType := "gate"
  handlers := fun t g m =>
    if t = "gate" then zoo g m
    else if t = "chat" ∨ t = "hall" then (if g = "zoob" then zoob g m else zoo g m)
    else none
  dir := fun n =>
    if n = "gate-1" then some ⟨"gate", true⟩
    else if n = "chat-1" ∨ n = "chat-2" then some ⟨"chat", true⟩
    else if n = "hall-1" ∨ n = "hall-2" then some ⟨"hall", true⟩
    else if n = "chat-9" then some ⟨"chat", false⟩
    else none
  route := doRoute (tieRouteFn n2working)

end Cell2v.ClientServe
