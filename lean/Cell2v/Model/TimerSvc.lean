import Cell2v.Model.Timer
/-!
Executable model of the timer use of `actorex/service.Service` (the owner of a
`timer.Mgr` through its run service): `tryStartCheckTimer` / `checkExpired` /
`freeTimer`, as the code is now.  Core Lean only.

The service arms ONE repeating 1 s timer when a request is issued and none is armed
(`timerCheckExpired == 0`); the callback `checkExpired` frees it — `Cancel` of
`timerCheckExpired` from inside the callback, then `timerCheckExpired = 0` — when the
request table is empty, else drops the entries whose deadline has passed.

Every service step is a sequence of primitive `Timer.step`s (`opsOf`), so a service
history IS a history of the timer model (`Lemmas/TimerSvc.lean: svc_refines`) and all
theorems about `Timer.run` hold for the service's manager.  The callback body is a
function of the service state at the moment the callback is entered: script 1 is set to
that body immediately before the consumer's receive.

User code inside `checkExpired`: the completion callback `wait.CB(ErrTimeout, nil)` of a
timed-out request.  Besides doing nothing it may issue a follow-up request (`reqAgain`: the
retry idiom) — `doRequestEx` from INSIDE the check timer's own callback: a new table entry
and `tryStartCheckTimer`, which finds `timerCheckExpired > 0` (it is the timer whose callback
is running) and arms nothing.
-/
namespace Cell2v.TimerSvc
open Cell2v.Timer

/-- request timeout of `Service` (30 s) and period of the check timer (1 s), in ms -/
def reqTimeout : Nat := 30000
def checkPeriod : Nat := 1000

structure Svc where
  t : State := {}                      -- the run service's timer manager
  own : Nat := 0                       -- Service.timerCheckExpired (0: none)
  pending : List (Nat × Nat) := []     -- Service.Handlers: (tag, deadline)
  again : List Nat := []               -- tags whose completion callback issues a follow-up request when called with ErrTimeout
  deriving Inhabited

inductive SOp where
  | req (k : Nat)       -- RequestEx: table entry, then tryStartCheckTimer
  | reqAgain (k : Nat)  -- the same, with a completion callback that on timeout issues request `k + followOffset`
  | resp (k : Nat)      -- the response arrives: the entry is removed
  | tick                -- the loop receives the head of the timer queue: Mgr.Do → checkExpired
  | expire (id : Nat)   -- the time.AfterFunc goroutine
  | advance (d : Nat)
  deriving Repr, Inhabited

/-- tag of the follow-up request issued by the timeout callback of request `k` -/
def followOffset : Nat := 1000

/-- the entries `checkExpired` drops at time `now` (`one.Timeout < now`) -/
def expiredAt (v : Svc) : List (Nat × Nat) := v.pending.filter fun p => decide (p.2 < v.t.now)

/-- the follow-up requests their completion callbacks issue (inside `checkExpired`) -/
def followUps (v : Svc) : List (Nat × Nat) :=
  ((expiredAt v).filter fun p => v.again.contains p.1).map fun p => (p.1 + followOffset, v.t.now + reqTimeout)

/-- body of `checkExpired` as a callback script: `freeTimer` when the table is empty -/
def body (v : Svc) : List Act := if v.pending.isEmpty then [Act.cancel v.own] else []

/-- will the receive enter a callback? (something queued, its object not cancelled) -/
def entered (v : Svc) : Bool :=
  match v.t.queue.head? with
  | some h => v.t.cur.isNone && !(v.t.tm h).cancelled
  | none => false

/-- the primitive timer steps of one service step -/
def opsOf (v : Svc) : SOp → List Op
  | .req _ => if v.own = 0 then [.add (checkPeriod : Nat) 1 []] else []
  | .reqAgain _ => if v.own = 0 then [.add (checkPeriod : Nat) 1 []] else []
  | .resp _ => []
  | .tick => .defScript 1 (body v) :: .doNext 0 :: List.replicate ((body v).length + 1) .cbStep
  | .expire id => [.expire id]
  | .advance d => [.advance d]

def svcStep (v : Svc) (op : SOp) : Svc × List Event :=
  let r := runFrom v.t [] (opsOf v op)
  match op with
  | .req k =>
    ({ v with
        t := r.1
        own := (if v.own = 0 then r.1.nextId else v.own)
        pending := v.pending ++ [(k, v.t.now + reqTimeout)] }, r.2)
  | .reqAgain k =>
    ({ t := r.1, own := (if v.own = 0 then r.1.nextId else v.own),
       pending := v.pending ++ [(k, v.t.now + reqTimeout)], again := k :: v.again }, r.2)
  | .resp k => ({ v with t := r.1, pending := v.pending.filter fun p => p.1 != k }, r.2)
  | .tick =>
    if entered v then
      if v.pending.isEmpty then ({ v with t := r.1, own := 0 }, r.2)
      else ({ v with t := r.1, pending := (v.pending.filter fun p => !(decide (p.2 < v.t.now))) ++ followUps v }, r.2)
    else ({ v with t := r.1 }, r.2)
  | .expire _ => ({ v with t := r.1 }, r.2)
  | .advance _ => ({ v with t := r.1 }, r.2)

def svcRunFrom (v : Svc) (tr : List Event) : List SOp → Svc × List Event
  | [] => (v, tr)
  | op :: ops => svcRunFrom (svcStep v op).1 (tr ++ (svcStep v op).2) ops

def svcRun (ops : List SOp) : Svc × List Event := svcRunFrom {} [] ops

end Cell2v.TimerSvc
