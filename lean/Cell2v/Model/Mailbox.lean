/-
C09 — models of actorex/mailbox/mailbox.go (SmoothFrameMailbox).

Two layers:
* `Abs`  : counter abstraction of the wake-up protocol.  Any number of poster
           goroutines; the state records HOW MANY callers of `schedule()` sit at
           each program point.  The consumer's `run()` is deliberately more
           permissive than the code (it may return at any point).
* `Fine` : the same shared words plus the two queues as lists of message ids,
           the delivery log, and the consumer's program counter at the
           granularity of the `vy(...)` yield points of the hooked code.  This is
           the executable model the real mailbox is replayed against step by
           step (`Driver/C09.lean`); `Lemmas/Mailbox.lean` proves that every Fine
           step is an Abs step or a stutter, so the Abs invariants hold of every
           reachable Fine state.

Modelled, not verified: `sync/atomic` operations are sequentially consistent
single steps; `mpsc.Push` is one step (its swap/link window is not hooked);
`goring` is a FIFO (refinement of the ring itself: `Model/Ring.lean`);
`run()`'s plain read of `userMessages` and the `MaxMsgNumToSmooth` (100000
queued) branch are not modelled; the recover/EscalateFailure path is not
modelled.
-/
namespace Cell2v.Mailbox

/-! ## abstract layer (counter abstraction) -/
namespace Abs

inductive CPc | wait | run | a1 | r0 | r1 | r2 | r3 | cl | ck | cd
  deriving DecidableEq, Repr

structure St where
  uq : Int      -- user queue length
  sq : Int      -- system queue length
  um : Int      -- userMessages
  sm : Int      -- sysMessages
  run : Bool    -- schedulerStatus = running
  paused : Bool -- smoothPaused
  susp : Bool   -- suspended
  hs : Bool     -- pause helper alive and not yet past its CAS
  nUp : Nat     -- user posters: pushed, counter not yet incremented
  nSp : Nat     -- system posters: same
  nL : Nat      -- schedule() callers about to load smoothPaused
  nK : Nat      -- ... about to CAS schedulerStatus
  nD : Nat      -- ... won the CAS, about to dispatch
  dq : Nat      -- dispatcher queue
  c : CPc       -- consumer
  ls : Int      -- consumer locals loaded in processMessages
  lu : Int
  lp : Bool
  deriving Repr

inductive Lbl
  | pushU | incrU | pushS | incrS | loadP | casP | dispP | take
  | pauseBegin | pauseBeginFail | popS | popSsusp | popSres | popU | endRun
  | storeIdle | loadS | loadU | loadP2 | decide | cLoadP | cCas | cDisp | helperWake
  deriving DecidableEq, Repr

def fire (s : St) : Lbl → Option St
  | .pushU => some { s with uq := s.uq + 1, nUp := s.nUp + 1 }
  | .incrU => if s.nUp > 0 then some { s with nUp := s.nUp - 1, um := s.um + 1, nL := s.nL + 1 } else none
  | .pushS => some { s with sq := s.sq + 1, nSp := s.nSp + 1 }
  | .incrS => if s.nSp > 0 then some { s with nSp := s.nSp - 1, sm := s.sm + 1, nL := s.nL + 1 } else none
  | .loadP => if s.nL > 0 then
      (if s.paused then some { s with nL := s.nL - 1 } else some { s with nL := s.nL - 1, nK := s.nK + 1 }) else none
  | .casP => if s.nK > 0 then
      (if s.run then some { s with nK := s.nK - 1 } else some { s with nK := s.nK - 1, run := true, nD := s.nD + 1 }) else none
  | .dispP => if s.nD > 0 then some { s with nD := s.nD - 1, dq := s.dq + 1 } else none
  | .take => if s.c = .wait ∧ s.dq > 0 then some { s with dq := s.dq - 1, c := .run } else none
  | .pauseBegin => if s.c = .run ∧ s.paused = false then some { s with paused := true, hs := true, c := .a1 } else none
  | .pauseBeginFail => if s.c = .run ∧ s.paused = true then some { s with c := .a1 } else none
  | .popS => if s.c = .run ∧ s.sq > 0 then some { s with sq := s.sq - 1, sm := s.sm - 1 } else none
  | .popSsusp => if s.c = .run ∧ s.sq > 0 then some { s with sq := s.sq - 1, sm := s.sm - 1, susp := true } else none
  | .popSres => if s.c = .run ∧ s.sq > 0 then some { s with sq := s.sq - 1, sm := s.sm - 1, susp := false } else none
  | .popU => if s.c = .run ∧ s.susp = false ∧ s.uq > 0 then some { s with uq := s.uq - 1, um := s.um - 1 } else none
  | .endRun => if s.c = .run then some { s with c := .a1 } else none      -- run() may return at ANY point
  | .storeIdle => if s.c = .a1 then some { s with run := false, c := .r0 } else none
  | .loadS => if s.c = .r0 then some { s with ls := s.sm, c := .r1 } else none
  | .loadU => if s.c = .r1 then some { s with lu := s.um, c := .r2 } else none
  | .loadP2 => if s.c = .r2 then some { s with lp := s.paused, c := .r3 } else none
  | .decide => if s.c = .r3 then
      (if s.ls > 0 ∨ (s.susp = false ∧ s.lu > 0 ∧ s.lp = false) then some { s with c := .cl } else some { s with c := .wait }) else none
  | .cLoadP => if s.c = .cl then (if s.paused then some { s with c := .wait } else some { s with c := .ck }) else none
  | .cCas => if s.c = .ck then (if s.run then some { s with c := .wait } else some { s with run := true, c := .cd }) else none
  | .cDisp => if s.c = .cd then some { s with dq := s.dq + 1, c := .wait } else none
  | .helperWake => if s.hs then some { s with hs := false, paused := false, nL := s.nL + 1 } else none

def b2n (b : Bool) : Nat := if b then 1 else 0

/-- number of `processMessages` runs queued or executing (before "store idle") -/
def runners (s : St) : Nat := s.nD + s.dq + (if s.c = .run ∨ s.c = .a1 ∨ s.c = .cd then 1 else 0)

/-- deliverable work: a system message, or a user message while not suspended -/
def work (s : St) : Prop := s.sq > 0 ∨ (s.uq > 0 ∧ s.susp = false)

def quietPosters (s : St) : Prop := s.run = false ∧ s.nL = 0 ∧ s.nK = 0 ∧ s.hs = false

def MInv (s : St) : Prop :=
  (s.uq = s.um + s.nUp ∧ s.sq = s.sm + s.nSp) ∧
  (b2n s.run = runners s) ∧
  (s.paused = s.hs) ∧
  (quietPosters s → ((s.c = .r1 ∨ s.c = .r2 ∨ s.c = .r3) → s.ls = s.sm) ∧
                    ((s.c = .r2 ∨ s.c = .r3) → s.lu = s.um) ∧
                    (s.c = .r3 → s.lp = false)) ∧
  (work s → s.run = true ∨ s.nUp + s.nSp + s.nL + s.nK > 0 ∨ s.hs = true ∨
            s.c = .r0 ∨ s.c = .r1 ∨ s.c = .r2 ∨ s.c = .r3 ∨ s.c = .cl ∨ s.c = .ck)

def init : St := { uq := 0, sq := 0, um := 0, sm := 0, run := false, paused := false, susp := false, hs := false,
                   nUp := 0, nSp := 0, nL := 0, nK := 0, nD := 0, dq := 0, c := .wait, ls := 0, lu := 0, lp := false }

/-- no step in flight: no poster between its push and the end of `schedule()`,
nothing dispatched or running, no pause helper alive -/
def Quiescent (s : St) : Prop :=
  s.nUp = 0 ∧ s.nSp = 0 ∧ s.nL = 0 ∧ s.nK = 0 ∧ s.nD = 0 ∧ s.dq = 0 ∧ s.c = .wait ∧ s.hs = false

end Abs

/-! ## fine layer (yield-point granularity, queues as lists) -/
namespace Fine

/-- consumer program counter = the `vy` point the consumer goroutine is parked at -/
inductive Pc
  | wait     -- no `processMessages` executing (a dispatched one may be queued)
  | iter     -- "run.iter"
  | bpcas    -- "bp.cas"
  | pops     -- "run.pops"
  | lsusp    -- "run.lsusp"
  | popu     -- "run.popu"
  | a1       -- "pm.idle"
  | r0       -- "pm.lsys"
  | r1       -- "pm.luser"
  | r2       -- "pm.lpaused"
  | r3       -- "pm.decide"
  | cl       -- "sc.loadp" (consumer's own re-schedule)
  | ck       -- "sc.cas"
  | cd       -- "sc.disp"
  deriving DecidableEq, Repr

/-- kinds of system messages -/
inductive SK | normal | suspend | resume
  deriving DecidableEq, Repr

structure St where
  uq : List Nat              -- user queue (message ids), head = oldest
  sq : List (SK × Nat)       -- system queue
  um : Int
  sm : Int
  run : Bool
  paused : Bool
  susp : Bool
  hs : Bool
  nUp : Nat
  nSp : Nat
  nL : Nat
  nK : Nat
  nD : Nat
  dq : Nat
  c : Pc
  ls : Int
  lu : Int
  lp : Bool
  pushedU : List Nat         -- ghost: every user id ever pushed, in push order
  pushedS : List (SK × Nat)  -- ghost: same for system messages
  dlvU : List Nat            -- user messages handed to the invoker, in order
  dlvS : List (SK × Nat)     -- system messages popped (Suspend/Resume are consumed by the mailbox itself)
  deriving Repr

inductive Lbl
  | pushU (id : Nat) | incrU | pushS (k : SK) (id : Nat) | incrS | loadP | casP | dispP
  | take | iterOk | iterOver | bpCas | popS | lsusp | popU
  | storeIdle | loadS | loadU | loadP2 | decide | cLoadP | cCas | cDisp
  | helperSleep | helperWake
  deriving DecidableEq, Repr

def fire (s : St) : Lbl → Option St
  | .pushU id => some { s with uq := s.uq ++ [id], pushedU := s.pushedU ++ [id], nUp := s.nUp + 1 }
  | .incrU => if s.nUp > 0 then some { s with nUp := s.nUp - 1, um := s.um + 1, nL := s.nL + 1 } else none
  | .pushS k id => some { s with sq := s.sq ++ [(k, id)], pushedS := s.pushedS ++ [(k, id)], nSp := s.nSp + 1 }
  | .incrS => if s.nSp > 0 then some { s with nSp := s.nSp - 1, sm := s.sm + 1, nL := s.nL + 1 } else none
  | .loadP => if s.nL > 0 then
      (if s.paused then some { s with nL := s.nL - 1 } else some { s with nL := s.nL - 1, nK := s.nK + 1 }) else none
  | .casP => if s.nK > 0 then
      (if s.run then some { s with nK := s.nK - 1 } else some { s with nK := s.nK - 1, run := true, nD := s.nD + 1 }) else none
  | .dispP => if s.nD > 0 then some { s with nD := s.nD - 1, dq := s.dq + 1 } else none
  | .take => if s.c = .wait ∧ s.dq > 0 then some { s with dq := s.dq - 1, c := .iter } else none
  | .iterOk => if s.c = .iter then some { s with c := .pops } else none
  | .iterOver => if s.c = .iter then some { s with c := .bpcas } else none
  | .bpCas => if s.c = .bpcas then
      (if s.paused then some { s with c := .a1 } else some { s with paused := true, hs := true, c := .a1 }) else none
  | .popS => if s.c = .pops then
      (match s.sq with
       | [] => some { s with c := .lsusp }
       | (k, id) :: rest =>
         some { s with sq := rest, sm := s.sm - 1, dlvS := s.dlvS ++ [(k, id)], c := .iter,
                       susp := match k with | .suspend => true | .resume => false | .normal => s.susp })
      else none
  | .lsusp => if s.c = .lsusp then (if s.susp then some { s with c := .a1 } else some { s with c := .popu }) else none
  | .popU => if s.c = .popu then
      (match s.uq with
       | [] => some { s with c := .a1 }
       | id :: rest => some { s with uq := rest, um := s.um - 1, dlvU := s.dlvU ++ [id], c := .iter })
      else none
  | .storeIdle => if s.c = .a1 then some { s with run := false, c := .r0 } else none
  | .loadS => if s.c = .r0 then some { s with ls := s.sm, c := .r1 } else none
  | .loadU => if s.c = .r1 then some { s with lu := s.um, c := .r2 } else none
  | .loadP2 => if s.c = .r2 then some { s with lp := s.paused, c := .r3 } else none
  | .decide => if s.c = .r3 then
      (if s.ls > 0 ∨ (s.susp = false ∧ s.lu > 0 ∧ s.lp = false) then some { s with c := .cl } else some { s with c := .wait }) else none
  | .cLoadP => if s.c = .cl then (if s.paused then some { s with c := .wait } else some { s with c := .ck }) else none
  | .cCas => if s.c = .ck then (if s.run then some { s with c := .wait } else some { s with run := true, c := .cd }) else none
  | .cDisp => if s.c = .cd then some { s with dq := s.dq + 1, c := .wait } else none
  | .helperSleep => if s.hs then some s else none
  | .helperWake => if s.hs then some { s with hs := false, paused := false, nL := s.nL + 1 } else none

def init : St :=
  { uq := [], sq := [], um := 0, sm := 0, run := false, paused := false, susp := false, hs := false,
    nUp := 0, nSp := 0, nL := 0, nK := 0, nD := 0, dq := 0, c := .wait, ls := 0, lu := 0, lp := false,
    pushedU := [], pushedS := [], dlvU := [], dlvS := [] }

def absPc : Pc → Abs.CPc
  | .wait => .wait
  | .iter | .bpcas | .pops | .lsusp | .popu => .run
  | .a1 => .a1 | .r0 => .r0 | .r1 => .r1 | .r2 => .r2 | .r3 => .r3
  | .cl => .cl | .ck => .ck | .cd => .cd

/-- abstraction map to the counter model -/
def abs (s : St) : Abs.St :=
  { uq := s.uq.length, sq := s.sq.length, um := s.um, sm := s.sm, run := s.run, paused := s.paused,
    susp := s.susp, hs := s.hs, nUp := s.nUp, nSp := s.nSp, nL := s.nL, nK := s.nK, nD := s.nD, dq := s.dq,
    c := absPc s.c, ls := s.ls, lu := s.lu, lp := s.lp }

/-- run a label sequence (an arbitrary schedule); `none` if some label was not enabled -/
def runL (s : St) : List Lbl → Option St
  | [] => some s
  | l :: ls => match fire s l with
    | none => none
    | some s' => runL s' ls

end Fine
end Cell2v.Mailbox
