import Cell2v.Model.Sche
import Cell2v.Gen.C15Consts
/-!
C15 — the configuration of utils/sche/sche.go as extracted from the Go source
on every run (`Gen/C15Consts.lean`, written by harness/extract/c15).  Used by
the property theorems (`Props/C15.lean`) and by the model driver.
-/
namespace Cell2v.Sche

def shipped : Cfg :=
  { cap := Gen.C15.queueSize
    defend := Gen.C15.selfBlockDefend || Gen.C15.selfBlockDefendAssigned
    recoverTask := Gen.C15.doTaskRecovers
    recoverPost := Gen.C15.postRecovers }

end Cell2v.Sche
