/-!
C04 — the generic *run-service loop*: any number of producers put work items on
bounded FIFO channels in any interleaving; ONE consumer repeatedly picks a ready
channel, takes its head and runs that item's handler to completion (the handler
may take any number of internal steps and may itself enqueue).  This mirrors
`RunService.loop → MultiSelector.HandleOnce → selector.DoTask`
(utils/runservice/runservice.go, utils/sche/selector.go): `reflect.Select`
over the registered channels = `pick c` for some non-empty `c`; the handler runs
inline in `HandleOnce`; `Sche.Post`, `scheDisp.Schedule`, the timer's
`AfterFunc` closure, `Publish` = `enq`.

Core Lean only.
-/
namespace Cell2v.Loop

/-- who executes a step: the single consumer (the run-service goroutine) or the `n`-th producer -/
inductive Thread where
  | consumer
  | producer (n : Nat)
  deriving DecidableEq, Repr

/-- observable events -/
inductive Ev where
  | enq (who : Thread) (chan item : Nat)
  | start (who : Thread) (item : Nat)   -- a handler (service code) begins
  | stop (who : Thread) (item : Nat)    -- it returns
  deriving DecidableEq, Repr

/-- schedule labels: one atomic step of one thread -/
inductive Lbl where
  | enq (p chan item : Nat)     -- producer `p` sends `item` on `chan` (blocked while the channel is full)
  | pstep (p : Nat)             -- producer-local step
  | pick (chan : Nat)           -- idle consumer receives the head of `chan` and enters its handler
  | hstep                       -- the running handler takes an internal step
  | henq (chan item : Nat)      -- the running handler posts to a channel of its own service
  | finish                      -- the running handler returns
  /- only enabled in the *broken* design used for the witness theorem: -/
  | direct (p item : Nat)       -- producer `p` calls the handler of `item` inline
  | directEnd (p item : Nat)
  deriving DecidableEq, Repr

structure St where
  q : Nat → List Nat            -- channel ↦ FIFO content
  running : Option Nat          -- the item whose handler the consumer is executing
  trace : List Ev               -- history, oldest first

def init : St := { q := fun _ => [], running := none, trace := [] }

def setQ (q : Nat → List Nat) (c : Nat) (l : List Nat) : Nat → List Nat :=
  fun d => if d = c then l else q d

/-- one step; `none` = the label is not enabled.  `cap` = channel capacity,
`broken` = the design in which producers may call handlers directly. -/
def fire (cap : Nat) (broken : Bool) (s : St) : Lbl → Option St
  | .enq p c it =>
    if (s.q c).length < cap then
      some { s with q := setQ s.q c (s.q c ++ [it]), trace := s.trace ++ [.enq (.producer p) c it] }
    else none
  | .pstep _ => some s
  | .pick c =>
    match s.running, s.q c with
    | none, it :: rest =>
      some { s with q := setQ s.q c rest, running := some it, trace := s.trace ++ [.start .consumer it] }
    | _, _ => none
  | .hstep => if s.running.isSome then some s else none
  | .henq c it =>
    if s.running.isSome && (s.q c).length < cap then
      some { s with q := setQ s.q c (s.q c ++ [it]), trace := s.trace ++ [.enq .consumer c it] }
    else none
  | .finish =>
    match s.running with
    | some it => some { s with running := none, trace := s.trace ++ [.stop .consumer it] }
    | none => none
  | .direct p it =>
    if broken then some { s with trace := s.trace ++ [.start (.producer p) it] } else none
  | .directEnd p it =>
    if broken then some { s with trace := s.trace ++ [.stop (.producer p) it] } else none

def runL (cap : Nat) (broken : Bool) : St → List Lbl → Option St
  | s, [] => some s
  | s, l :: ls => match fire cap broken s l with
    | some s' => runL cap broken s' ls
    | none => none

/-! ### the property predicate on traces (the same monitor the spec driver runs on
the implementation's observations: executing thread and in-flight count) -/

structure Mon where
  cur : Nat       -- handlers in flight
  peak : Nat      -- maximum seen
  foreign : Bool  -- some handler event was executed by a thread other than the consumer
  deriving DecidableEq, Repr

def Mon.step (m : Mon) : Ev → Mon
  | .start w _ => { cur := m.cur + 1, peak := max m.peak (m.cur + 1), foreign := m.foreign || (w != .consumer) }
  | .stop w _ => { m with cur := m.cur - 1, foreign := m.foreign || (w != .consumer) }
  | .enq _ _ _ => m

def monitor (tr : List Ev) : Mon := tr.foldl Mon.step ⟨0, 0, false⟩

/-- the verdict of the monitor: at most one handler in flight, no handler event by a foreign thread -/
def Mon.ok (m : Mon) : Bool := m.peak ≤ 1 && !m.foreign

/-- at most one handler in flight, all handler events by the consumer -/
def Serial (tr : List Ev) : Bool := (monitor tr).ok

end Cell2v.Loop

/-! ### which scheduler a run service drains (`sche.Mgr.GetSche`, utils/sche/sche_mgr.go: create-if-missing
by NAME; `NewRunService(name)` takes `rsScheMgr.GetSche(name)` and its ONE loop goroutine drains that
scheduler's channel).  Single consumer per queue — what the loop model above assumes — therefore holds for a
set of run services exactly when no two of them got the same scheduler. -/
namespace Cell2v.ScheReg

/-- the registry: name ↦ scheduler id, and the next fresh id -/
structure Reg where
  tab : List (String × Nat) := []
  next : Nat := 0

def find : List (String × Nat) → String → Option Nat
  | [], _ => none
  | (n, id) :: rest, name => if name = n then some id else find rest name

/-- `GetSche(name)`: the registered scheduler, else a fresh one that is registered under the name -/
def Reg.getSche (r : Reg) (name : String) : Reg × Nat :=
  match find r.tab name with
  | some id => (r, id)
  | none => ({ tab := (name, r.next) :: r.tab, next := r.next + 1 }, r.next)

/-- run services created one after the other with these names: the scheduler each one's loop drains -/
def spawnAll : Reg → List String → List Nat
  | _, [] => []
  | r, n :: ns => (r.getSche n).2 :: spawnAll (r.getSche n).1 ns

end Cell2v.ScheReg

/-! ### `waterfall.Sche` (utils/waterfall/waterfall_sche.go) as a client of the loop: a chain of `steps` steps on ONE
scheduler channel (channel 0).  Work item `k < steps` = the posted closure that runs step `k`; an item `≥ steps` =
the posted closure that runs the final callback (`steps` after the last step, `steps + 1` after a failure).  A step
completes when SOME thread — the consumer itself, inline, or any producer (a db / network worker) — calls the
chain's callback with an error flag; `callbackFunc` does nothing but `sche.Post` the continuation. -/
namespace Cell2v.Waterfall
open Cell2v.Loop

/-- one completion report: who calls the step's callback, with which error flag -/
structure Report where
  who : Thread
  err : Bool

/-- `Chain.invokeCallback`: what the continuation posted after step `k` runs -/
def next (steps k : Nat) (err : Bool) : Nat := if err then steps + 1 else k + 1

/-- the loop schedule a chain induces: item `k` is queued, `rs` are the completion reports still to come.  A step
whose report never comes leaves the chain hanging after that step (nothing more runs); reports after the final
callback are not modelled. -/
def sched (steps : Nat) : Nat → List Report → List Lbl
  | _, [] => [.pick 0, .finish]
  | k, r :: rs =>
    if k < steps then
      (match r.who with
       | .consumer => [.pick 0, .henq 0 (next steps k r.err), .finish]
       | .producer p => [.pick 0, .finish, .enq p 0 (next steps k r.err)]) ++ sched steps (next steps k r.err) rs
    else [.pick 0, .finish]

end Cell2v.Waterfall

/-! ### whose callbacks `timer.Mgr.Do` runs (utils/timer/timer.go).  A timer `Obj` is allocated by `After` / `AddTimer`
of ONE manager (`NewTimerObj`: a fresh object every time, never reused), carries its callback and its `Canceled`
flag; the `time.AfterFunc` closure (it captured the object and its manager) puts the OBJECT on that manager's queue
unless it is cancelled; `Cancel` sets the flag; the owner's loop takes an object from its queue and `Do` runs its
callback unless the flag is set.  Objects are addressed by allocation number. -/
namespace Cell2v.TimerObj

structure St where
  nobj : Nat := 0                       -- objects allocated so far
  owner : Nat → Nat := fun _ => 0       -- address ↦ the manager that allocated it
  cb : Nat → Nat := fun _ => 0          -- address ↦ its callback
  canceled : Nat → Bool := fun _ => false
  queue : Nat → List Nat := fun _ => [] -- manager ↦ objects waiting in its queue
  ran : List (Nat × Nat) := []          -- (manager whose loop ran it, callback), oldest first

inductive Op where
  | arm (m c : Nat)      -- `After` / `AddTimer` on manager `m` with callback `c`
  | expire (a : Nat)     -- the AfterFunc closure of object `a` fires (any time, any number of times: repeating timers re-arm)
  | cancel (a : Nat)     -- `Cancel`
  | doNext (m : Nat)     -- the loop of `m` receives from its timer queue and calls `Do`

def step (s : St) : Op → St
  | .arm m c => { s with nobj := s.nobj + 1,
                         owner := fun a => if a = s.nobj then m else s.owner a,
                         cb := fun a => if a = s.nobj then c else s.cb a,
                         canceled := fun a => if a = s.nobj then false else s.canceled a }
  | .expire a =>
    if a < s.nobj && !s.canceled a then
      { s with queue := fun m => if m = s.owner a then s.queue m ++ [a] else s.queue m }
    else s
  | .cancel a => { s with canceled := fun x => if x = a then true else s.canceled x }
  | .doNext m =>
    match s.queue m with
    | [] => s
    | a :: rest =>
      let s' := { s with queue := fun k => if k = m then rest else s.queue k }
      if s.canceled a then s' else { s' with ran := s.ran ++ [(m, s.cb a)] }

def run (s : St) (ops : List Op) : St := ops.foldl step s

/-- the invariant: queued objects belong to the queue's manager; whatever ran was armed on the manager that ran it -/
def Good (s : St) : Prop :=
  (∀ m a, a ∈ s.queue m → a < s.nobj ∧ s.owner a = m) ∧
  (∀ m c, (m, c) ∈ s.ran → ∃ a, a < s.nobj ∧ s.owner a = m ∧ s.cb a = c)

end Cell2v.TimerObj

/-! ### a manager that can be stopped (`timer.Mgr.Stop`, called first by `StandardRunService.Stop`): `running` is cleared
and never set again; the `time.AfterFunc` closure of an object whose manager is stopped returns without touching the
queue (`if !m.running { return }`) — it neither enqueues nor runs the callback.  Arming on a stopped manager is still
possible (the object is allocated, its expiry is then dropped); what already waits in the queue may still be taken by
the loop until it sees the close signal. -/
namespace Cell2v.TimerStop
open Cell2v.TimerObj

structure St where
  base : TimerObj.St := {}
  stopped : Nat → Bool := fun _ => false

inductive Op where
  | base (o : TimerObj.Op)
  | stopMgr (m : Nat)

def step (s : St) : Op → St
  | .stopMgr m => { s with stopped := fun k => if k = m then true else s.stopped k }
  | .base (.expire a) =>
    -- the AfterFunc closure: cancelled → return; manager stopped → return; else `m.queue <- t`
    if s.stopped (s.base.owner a) then s else { s with base := TimerObj.step s.base (.expire a) }
  | .base o => { s with base := TimerObj.step s.base o }

def run (s : St) (ops : List Op) : St := ops.foldl step s

/-- callbacks run by the loop of manager `m` so far -/
def ranOn (s : St) (m : Nat) : Nat := (s.base.ran.filter (·.1 == m)).length

end Cell2v.TimerStop

/-! ### completion of a service's requests (`Service.Request/RequestEx` → `handleResponse` / the expiry scan of
`checkExpired`, actorex/service/service.go) as a client of the loop.  The completion callback of a request is the
requester's code.  Channel 1 = the requester's dispatcher channel (mailbox runs), channel 2 = its timer queue.
Whatever becomes of the request — answered by the peer's goroutine or a helper goroutine, answered by the requester
itself (self-request: the handler piece posts the response to the own mailbox), turned into a dead letter on an
intermediary's goroutine, or never answered — the callback is reached only through one of the two queues: the
`ServiceResponse` message, or the 1 s expiry-scan timer that finds the request older than 30 s.  A dead letter touches
nothing of the requester. -/
namespace Cell2v.ReqDone
open Cell2v.Loop

inductive Fate where
  | answered (p : Nat)        -- producer `p` (peer service / helper goroutine) sends the response to the requester's pid
  | selfAnswered (p : Nat)    -- self-request: `p` delivered the request message, the requester's own handler piece posts the response
  | deadLetter (p t : Nat)    -- the request reaches the dead-letter process on thread `p`; timer goroutine `t` later enqueues the expiry scan
  | silent (t : Nat)          -- nobody answers; timer goroutine `t` enqueues the expiry scan

/-- the loop schedule the completions induce; item `j + 1` = the callback of request `j`, item 0 = a handler piece -/
def sched : Nat → List Fate → List Lbl
  | _, [] => []
  | j, .answered p :: fs => [.enq p 1 (j + 1), .pick 1, .finish] ++ sched (j + 1) fs
  | j, .selfAnswered p :: fs => [.enq p 1 0, .pick 1, .henq 1 (j + 1), .finish, .pick 1, .finish] ++ sched (j + 1) fs
  | j, .deadLetter p t :: fs => [.pstep p, .enq t 2 (j + 1), .pick 2, .finish] ++ sched (j + 1) fs
  | j, .silent t :: fs => [.enq t 2 (j + 1), .pick 2, .finish] ++ sched (j + 1) fs

end Cell2v.ReqDone
