/-!
C04 — the generic *run-service loop*: any number of producers put work items on
bounded FIFO channels in any interleaving; ONE consumer repeatedly picks a ready
channel, takes its head and runs that item's handler to completion (the handler
may take any number of internal steps and may itself enqueue).  This mirrors
`RunService.loop → MultiSelector.HandleOnce → selector.DoTask`
(utils/runservice/runservice.go, utils/sche/selector.go): `reflect.Select`
over the registered channels = `pick c` for some non-empty `c`; the handler runs
inline in `HandleOnce`; `Sche.Post`, `scheDisp.Schedule`, the timer's
`AfterFunc` closure, `Publish` = `enq`.

Core Lean only.
-/
namespace Cell2v.Loop

/-- who executes a step: the single consumer (the run-service goroutine) or the `n`-th producer -/
inductive Thread where
  | consumer
  | producer (n : Nat)
  deriving DecidableEq, Repr

/-- observable events -/
inductive Ev where
  | enq (who : Thread) (chan item : Nat)
  | start (who : Thread) (item : Nat)   -- a handler (service code) begins
  | stop (who : Thread) (item : Nat)    -- it returns
  deriving DecidableEq, Repr

/-- schedule labels: one atomic step of one thread -/
inductive Lbl where
  | enq (p chan item : Nat)     -- producer `p` sends `item` on `chan` (blocked while the channel is full)
  | pstep (p : Nat)             -- producer-local step
  | pick (chan : Nat)           -- idle consumer receives the head of `chan` and enters its handler
  | hstep                       -- the running handler takes an internal step
  | henq (chan item : Nat)      -- the running handler posts to a channel of its own service
  | finish                      -- the running handler returns
  /- only enabled in the *broken* design used for the witness theorem: -/
  | direct (p item : Nat)       -- producer `p` calls the handler of `item` inline
  | directEnd (p item : Nat)
  deriving DecidableEq, Repr

structure St where
  q : Nat → List Nat            -- channel ↦ FIFO content
  running : Option Nat          -- the item whose handler the consumer is executing
  trace : List Ev               -- history, oldest first

def init : St := { q := fun _ => [], running := none, trace := [] }

def setQ (q : Nat → List Nat) (c : Nat) (l : List Nat) : Nat → List Nat :=
  fun d => if d = c then l else q d

/-- one step; `none` = the label is not enabled.  `cap` = channel capacity,
`broken` = the design in which producers may call handlers directly. -/
def fire (cap : Nat) (broken : Bool) (s : St) : Lbl → Option St
  | .enq p c it =>
    if (s.q c).length < cap then
      some { s with q := setQ s.q c (s.q c ++ [it]), trace := s.trace ++ [.enq (.producer p) c it] }
    else none
  | .pstep _ => some s
  | .pick c =>
    match s.running, s.q c with
    | none, it :: rest =>
      some { s with q := setQ s.q c rest, running := some it, trace := s.trace ++ [.start .consumer it] }
    | _, _ => none
  | .hstep => if s.running.isSome then some s else none
  | .henq c it =>
    if s.running.isSome && (s.q c).length < cap then
      some { s with q := setQ s.q c (s.q c ++ [it]), trace := s.trace ++ [.enq .consumer c it] }
    else none
  | .finish =>
    match s.running with
    | some it => some { s with running := none, trace := s.trace ++ [.stop .consumer it] }
    | none => none
  | .direct p it =>
    if broken then some { s with trace := s.trace ++ [.start (.producer p) it] } else none
  | .directEnd p it =>
    if broken then some { s with trace := s.trace ++ [.stop (.producer p) it] } else none

def runL (cap : Nat) (broken : Bool) : St → List Lbl → Option St
  | s, [] => some s
  | s, l :: ls => match fire cap broken s l with
    | some s' => runL cap broken s' ls
    | none => none

/-! ### the property predicate on traces (the same monitor the spec driver runs on
the implementation's observations: executing thread and in-flight count) -/

structure Mon where
  cur : Nat       -- handlers in flight
  peak : Nat      -- maximum seen
  foreign : Bool  -- some handler event was executed by a thread other than the consumer
  deriving DecidableEq, Repr

def Mon.step (m : Mon) : Ev → Mon
  | .start w _ => { cur := m.cur + 1, peak := max m.peak (m.cur + 1), foreign := m.foreign || (w != .consumer) }
  | .stop w _ => { m with cur := m.cur - 1, foreign := m.foreign || (w != .consumer) }
  | .enq _ _ _ => m

def monitor (tr : List Ev) : Mon := tr.foldl Mon.step ⟨0, 0, false⟩

/-- the verdict of the monitor: at most one handler in flight, no handler event by a foreign thread -/
def Mon.ok (m : Mon) : Bool := m.peak ≤ 1 && !m.foreign

/-- at most one handler in flight, all handler events by the consumer -/
def Serial (tr : List Ev) : Bool := (monitor tr).ok

end Cell2v.Loop
