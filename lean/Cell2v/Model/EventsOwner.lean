/-!
C17 — executable model of a centre owned by a `StandardRunService`
(`utils/runservice/standardrunservice.go`, `runservice.go`) with goroutine identities, and of the
non-blocking send of `GlobalEventCenter.Publish` under concurrent publishers.

The service's centre is a channel-mode `LocalEventCenter` (`NewLocalEventCenter(true)`): local and
global publications go into its 999-slot channel from ANY goroutine; the loop goroutine (`owner`)
is the only receiver (`addEventSelector`: receive, `DoEvent`, i.e. `dispatch`, i.e. the listener).
`Stop` (called from outside) is `TimerMgr.Stop(); EventCenter.Clear(); RunService.Stop()`: the
centre stops and drops its listeners and its global registration FIRST, whatever is still queued is
never handed to a listener, and nothing is dispatched on the caller's goroutine.

Every action is one atomic step of one goroutine; theorems quantify over all action sequences,
i.e. over all interleavings of publishers, the owner loop and the caller of `Stop`.
-/
namespace Cell2v.EventsOwner

/-- goroutines: the service's loop goroutine, and everybody else -/
inductive G where
  | owner
  | ext (n : Nat)
  deriving DecidableEq, Repr, Inhabited

structure S where
  queue : List Int := []          -- the centre's channel, oldest first (payload of the event)
  running : Bool := true          -- LocalEventCenter.running
  listening : Bool := false       -- a listener is GSubscribe'd: list non-empty, Global flag set, centre registered
  loopAlive : Bool := true        -- RunService.loop still iterates
  busy : Bool := false            -- the owner is inside the listener
  log : List (G × Int) := []      -- listener invocations, newest first: goroutine, payload
  hist : List Int := []           -- ghost: accepted publications, oldest first
  deriving DecidableEq, Repr, Inhabited

def cap : Nat := 999

inductive Act where
  /-- `GSubscribe` of the listener (refused once the centre is cleared) -/
  | gsub
  /-- `GetGlobalEC().Publish` from goroutine `g`: non-blocking send to the centre if it is registered -/
  | gpub (g : G) (x : Int)
  /-- `centre.Publish` (channel mode) from goroutine `g`: blocking send (on a full queue the sender waits: no change) -/
  | lpub (g : G) (x : Int)
  /-- owner loop: the selector receives one event and `DoEvent`s it: the listener is entered -/
  | recv
  /-- owner loop: the listener returns -/
  | ret
  /-- `StandardRunService.Stop` from goroutine `g`: `Clear` (stop, drop listeners, deregister), then the loop is told to end -/
  | stop (g : G)
  /-- owner loop: sees the close and ends -/
  | exit
  deriving DecidableEq, Repr, Inhabited

/-- a send that finds room -/
def enq (s : S) (x : Int) : S :=
  if s.queue.length < cap then { s with queue := s.queue ++ [x], hist := s.hist ++ [x] } else s

def act (s : S) : Act → S
  | .gsub => if s.running then { s with listening := true } else s
  | .gpub _ x => if s.listening then enq s x else s
  | .lpub _ x => enq s x
  | .recv =>
    if s.loopAlive && !s.busy then
      match s.queue with
      | x :: q =>
        if s.running && s.listening then { s with queue := q, busy := true, log := (.owner, x) :: s.log }
        else { s with queue := q }
      | [] => s
    else s
  | .ret => { s with busy := false }
  | .stop _ => { s with running := false, listening := false }
  | .exit => if !s.running && !s.busy then { s with loopAlive := false } else s

def run (s : S) : List Act → S
  | [] => s
  | a :: as => run (act s a) as

/-- payloads handed to the listener, oldest first -/
def delivered (s : S) : List Int := s.log.reverse.map (·.2)

/-! ### the scenarios the harness plays against the real service (`rs`, `concfull`) -/

/-- `rs n burst`: n publications delivered one by one; then (burst > 0) the owner gets stuck in the listener (payload -1),
`burst` publications pile up (global / local alternating), `Stop` from outside, the listener returns, the loop
goes on for a while and ends -/
def rsActs (n burst : Nat) : List Act :=
  [.gsub] ++ (List.range n).flatMap (fun (i : Nat) => [Act.gpub (.ext 0) (Int.ofNat i), .recv, .ret]) ++
  (if burst > 0 then
     [.gpub (.ext 0) (-1), .recv] ++
     (List.range burst).map (fun (i : Nat) => if i % 2 == 0 then Act.gpub (.ext 0) (-2 - Int.ofNat i) else Act.lpub (.ext 0) (-2 - Int.ofNat i))
   else []) ++
  [.stop (.ext 0), .ret] ++ List.replicate burst .recv ++ [.exit]

/-- number of payloads 0, 1, 2, … received in that order -/
def countUp (xs : List Int) : Nat := xs.foldl (fun k x => if x == Int.ofNat k then k + 1 else k) 0

/-- `concfull pubs free`: the queue has `free` slots left, `pubs` publishers send one event each -/
def fullActs (pubs : Nat) : List Act := (List.range pubs).map (fun (p : Nat) => Act.gpub (.ext p) (Int.ofNat p))

end Cell2v.EventsOwner
