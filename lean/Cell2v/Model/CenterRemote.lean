import Cell2v.Model.Center
/-!
The centre's remote API (`servers/center/handler/center_remote.go`, collection `center.remote`): the
layer between the callers (gate, logic) and `PlayerMgr`.  Each entry calls one `PlayerMgr` entry point and
answers the request; what the caller learns about its transaction is this answer, not the manager's
return value.  Core Lean only (linked into `modeld_c18`).
-/
namespace Cell2v.Center.Remote
open Cell2v.Center

/-- the `define.ErrorCode` values the remote API puts into a `NormalAck` -/
inductive AckCode | succ | faild
  deriving DecidableEq, Repr

/-- what the caller of a remote entry receives when the entry returns -/
inductive Reply
  | later                  -- `reqlogin`: answered through the login callback (the acknowledgement events), maybe later
  | empty                  -- `onsessionclose`: `CheckInvokeCBFunc(cbFunc, nil, nil)`
  | normal (c : AckCode)   -- `NormalAck{Code}`
  | notRemote              -- tick / clock / the logic server's reply: not a call of the remote API
  deriving DecidableEq, Repr

/-- `code := define.Succ; if !s.Mgr.X(uid) { code = define.ErrFaild }` -/
def codeOf (accepted : Bool) : AckCode := if accepted then .succ else .faild

/-- the operations that ask the centre for something it may refuse (logout, line switch begin / end) -/
def Op.isRequest : Op → Bool
  | .logoutReq _ | .swBegin _ | .swEnd _ => true
  | _ => false

/-- the answer of the remote entry that serves `op`, given what the manager's entry point put out -/
def reply (op : Op) (out : Out) : Reply :=
  match op with
  | .login .. => .later
  | .closed .. => .empty
  | .logined .. | .reonline _ | .logoutDone _ | .abnormal _ => .normal .succ
  | .logoutReq _ | .swBegin _ | .swEnd _ => .normal (codeOf (out.ret == some true))
  | .offReply .. | .tick | .adv _ | .advT _ => .notRemote

/-- how the observation line shows it: `t` / `f` for a granted / refused request, `-` otherwise -/
def Reply.render (op : Op) : Reply → String
  | .normal .succ => if Op.isRequest op then "t" else "-"
  | .normal .faild => if Op.isRequest op then "f" else "code"
  | _ => "-"

end Cell2v.Center.Remote
