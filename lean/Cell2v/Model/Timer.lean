/-!
Executable small-step model of `utils/timer` (`Mgr`: After / AddTimer / Cancel /
doLater / Do) as the code is now.  Core Lean only.

One primitive step emits at most one event, so that every trace property is
proved by induction over single steps.  `Mgr.Do` is split into its atomic
parts: `doNext i` (the consumer takes an element of the queue channel, checks
`Canceled`, enters the callback), `cbStep` (one action of the running callback
script, or — when the script is exhausted / has panicked — the tail of `Do`:
re-check `Canceled`, re-arm a repeating timer or forget a one-shot).

`expire id` is the goroutine started by `time.AfterFunc`: it is *enabled only
when `now ≥ exp`* (the AfterFunc assumption); it may be delayed arbitrarily.
Time may pass and expiries may happen while a callback is running; owner
operations (`after/add/cancel/doNext`) are only possible between callbacks
(the owner is one goroutine), a callback acts through its script.
-/
namespace Cell2v.Timer

/-- what a callback script can do (user code is a script, DESIGN §5) -/
inductive Act where
  | cancelSelf
  | cancel (id : Nat)
  | cancelNewest                                   -- Cancel(last allocated id)
  | after (dur : Int) (script : Nat) (arg : Nat)   -- mgr.After(dur, script, arg)
  | add (dur : Int) (script : Nat) (arg : Nat)     -- mgr.AddTimer(dur, script, arg)
  | panic
  deriving Repr, DecidableEq, Inhabited

/-- one `timer.Obj` (objects are never destroyed: the queue holds pointers) -/
structure Tm where
  live : Bool := false       -- an Obj with this id has been created
  period : Nat := 0          -- `Obj.Duration` when > 0 (repeating), else 0 (one-shot)
  script : Nat := 0          -- which callback script (`Obj.CB`)
  args : List Nat := []      -- `Obj.Args`
  cancelled : Bool := false  -- `Obj.Canceled`
  armed : Bool := false      -- a runtime timer (`Obj.timer`, time.AfterFunc) is pending
  exp : Nat := 0             -- the instant the pending / last runtime timer was set for
  inMap : Bool := false      -- present in `Mgr.timers`
  deriving Repr, Inhabited

structure State where
  now : Nat := 0
  nextId : Nat := 1                         -- SerialIdService64.nextId (first id handed out is 2)
  running : Bool := true                    -- Mgr.running
  tm : Nat → Tm := fun _ => {}
  queue : List Nat := []                    -- Mgr.queue (ids of the queued objects, oldest first)
  cur : Option (Nat × List Act) := none     -- callback in progress: timer id, remaining actions
  scripts : Nat → List Act := fun _ => []
  deriving Inhabited

inductive Event where
  | created (id t delay period : Nat) (args : List Nat)  -- After/AddTimer returned `id`
  | cancel (id t : Nat)                                  -- Cancel(id) called for an existing timer
  | cb (id t : Nat) (args : List Nat)                    -- the callback of `id` was entered
  | rearm (id t d : Nat)                                 -- `Do` re-armed a repeating timer
  | panic (id : Nat)                                     -- the callback of `id` panicked (recovered)
  deriving Repr, DecidableEq, Inhabited

inductive Op where
  | after (dur : Int) (script : Nat) (args : List Nat)
  | add (dur : Int) (script : Nat) (args : List Nat)
  | cancel (id : Nat)
  | expire (id : Nat)
  | doNext (i : Nat)
  | cbStep
  | advance (d : Nat)
  | stop
  | defScript (k : Nat) (acts : List Act)
  deriving Repr, Inhabited

def upd (f : Nat → Tm) (i : Nat) (v : Tm) : Nat → Tm := fun j => if j = i then v else f j

def State.curId (s : State) : Option Nat := s.cur.map (·.1)

/-! atomic state mutations (the primitives below are compositions of these) -/
def State.setTm (s : State) (x : Nat) (t : Tm) : State := { s with tm := upd s.tm x t }
def State.push (s : State) (x : Nat) : State := { s with queue := s.queue ++ [x] }
def State.pop (s : State) (i : Nat) : State := { s with queue := s.queue.eraseIdx i }
def State.setCur (s : State) (c : Option (Nat × List Act)) : State := { s with cur := c }
def State.alloc (s : State) : State := { s with nextId := s.nextId + 1 }
def State.tick (s : State) (d : Nat) : State := { s with now := s.now + d }
def State.halt (s : State) : State := { s with running := false }
def State.setScript (s : State) (k : Nat) (acts : List Act) : State :=
  { s with scripts := fun j => if j = k then acts else s.scripts j }

/-- `After` (`rep = false`: `Obj.Duration = 0`) / `AddTimer` (`rep = true`:
`Obj.Duration = dur`, which repeats only when `> 0`): allocate the id,
`doLater(dur)`, `timers.Store`. A non-positive duration fires immediately. -/
def create (s : State) (dur : Int) (rep : Bool) (script : Nat) (args : List Nat) : State × List Event :=
  let id := s.nextId + 1
  let delay := dur.toNat
  let period := if rep then dur.toNat else 0
  let t : Tm := { live := true, period := period, script := script, args := args, cancelled := false,
                  armed := true, exp := s.now + delay, inMap := true }
  (s.alloc.setTm id t, [.created id s.now delay period args])

/-- `Cancel`: not in `timers` → nothing; else mark, stop the runtime timer, forget. -/
def cancelTm (s : State) (id : Nat) : State × List Event :=
  (if (s.tm id).inMap then s.setTm id { s.tm id with cancelled := true, armed := false, inMap := false } else s,
   if (s.tm id).live then [Event.cancel id s.now] else [])

/-- the `time.AfterFunc` goroutine of `doLater`: not before `exp`; drops the
object when cancelled or when the manager was stopped, else enqueues it. -/
def expire (s : State) (id : Nat) : State × List Event :=
  if (s.tm id).armed && decide ((s.tm id).exp ≤ s.now) then
    if (s.tm id).cancelled then (s.setTm id { s.tm id with armed := false }, [])
    else if !s.running then (s.setTm id { s.tm id with armed := false }, [])
    else ((s.setTm id { s.tm id with armed := false }).push id, [])
  else (s, [])

/-- consumer: receive queue element `i` (a FIFO channel gives 0; the theorems
hold for every `i`), first half of `Do`: skip if cancelled, else enter the callback. -/
def doNext (s : State) (i : Nat) : State × List Event :=
  if s.cur.isSome then (s, []) else
  match s.queue[i]? with
  | none => (s, [])
  | some id =>
    if (s.tm id).cancelled then (s.pop i, [])
    else ((s.pop i).setCur (some (id, s.scripts (s.tm id).script)), [.cb id s.now (s.tm id).args])

/-- second half of `Do`, after the callback returned or its panic was recovered
(`s` is the state with the callback already left) -/
def finish (s : State) (id : Nat) : State × List Event :=
  if (s.tm id).cancelled then (s, [])
  else if (s.tm id).period > 0 then
    (s.setTm id { s.tm id with armed := true, exp := s.now + (s.tm id).period }, [.rearm id s.now (s.tm id).period])
  else (s.setTm id { s.tm id with inMap := false }, [])

def cbStep (s : State) : State × List Event :=
  match s.cur with
  | none => (s, [])
  | some (id, []) => finish (s.setCur none) id
  | some (id, a :: rest) =>
    match a with
    | .cancelSelf => cancelTm (s.setCur (some (id, rest))) id
    | .cancel x => cancelTm (s.setCur (some (id, rest))) x
    | .cancelNewest => cancelTm (s.setCur (some (id, rest))) s.nextId
    | .after d k arg => create (s.setCur (some (id, rest))) d false k [arg]
    | .add d k arg => create (s.setCur (some (id, rest))) d true k [arg]
    | .panic => (s.setCur (some (id, [])), [.panic id])

def step (s : State) : Op → State × List Event
  | .after d k args => if s.cur.isSome then (s, []) else create s d false k args
  | .add d k args => if s.cur.isSome then (s, []) else create s d true k args
  | .cancel id => if s.cur.isSome then (s, []) else cancelTm s id
  | .expire id => expire s id
  | .doNext i => doNext s i
  | .cbStep => cbStep s
  | .advance d => (s.tick d, [])
  | .stop => (s.halt, [])
  | .defScript k acts => (s.setScript k acts, [])

/-- run a history from `s`, appending the events to `tr` (chronological order) -/
def runFrom (s : State) (tr : List Event) : List Op → State × List Event
  | [] => (s, tr)
  | op :: ops => runFrom (step s op).1 (tr ++ (step s op).2) ops

def init : State := {}

def run (ops : List Op) : State × List Event := runFrom init [] ops

/-! ### history functions on traces (used by the property statements) -/

def Event.isCbOf (id : Nat) : Event → Bool
  | .cb i _ _ => i == id
  | _ => false

def Event.isCancelOf (id : Nat) : Event → Bool
  | .cancel i _ => i == id
  | _ => false

def cbCount (tr : List Event) (id : Nat) : Nat := tr.countP (Event.isCbOf id)

def cancelledIn (tr : List Event) (id : Nat) : Bool := tr.any (Event.isCancelOf id)

/-- time of the most recent callback of `id` -/
def lastCb : List Event → Nat → Option Nat
  | [], _ => none
  | e :: rest, id =>
    match lastCb rest id with
    | some t => some t
    | none => match e with
      | .cb i t _ => if i = id then some t else none
      | _ => none

/-- `(t0, delay, period, args)` of the creation of `id` -/
def createdOf : List Event → Nat → Option (Nat × Nat × Nat × List Nat)
  | [], _ => none
  | e :: rest, id =>
    match e with
    | .created i t dl p a => if i = id then some (t, dl, p, a) else createdOf rest id
    | _ => createdOf rest id

end Cell2v.Timer
