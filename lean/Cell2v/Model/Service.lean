/-
C01 — model of the request/response core of `actorex/service/service.go`
  doRequestEx / AllocReqId / tryStartCheckTimer   (`issue`)
  handleResponse                                   (`response`)
  checkExpired / freeTimer                         (`tick`, `tickLoop`)
  node/app/serviceutils.go Request / Notify /
    QuerySession / Kick without a routable target  (`noroute`; with one they are `issue`)
  ResponseEx's decision whether to answer           (`respondsTo`)
and of what a completion callback may do while it runs (`issue` / `noroute` again,
then return: `ret`).

Small-step, sequential (everything here runs on the requesting service's own
goroutine — that is C04's theorem, assumed here).  A callback is *not* a value
in the model: when the code calls `CB`, the model emits a `cb` event and waits
(`base` / `nest`) until the op stream says `ret`; whatever `issue` ops come in
between are what the callback did.  The theorems quantify over all op lists,
hence over all callback behaviours (including ill-bracketed streams).

The entry of the request being completed is removed from the table *before* its
callback runs — as the code does since the D18 repair
(`delete(s.Handlers, id); wait.CB(err, msg)`).  A callback may also panic
(`Op.panic`): inside the expiry scan the panic unwinds `checkExpired` and every
callback frame above it and is recovered by `timer.Mgr.do`; the ids the scan had
not reached yet stay in the table (still overdue) and are taken by the next
scan.  A panic inside `handleResponse` escalates to the actor supervisor
(restart of the actor) — a different regime, not modelled: `panic` is a no-op
unless a scan is in progress.

Ghost components (never read by the transition function, only written):
`log` (newest event first), `Wait.inst` / `ninst` (instance numbers: one per
issue, never reused — the model's name for "that very request"), `Wait.allocNo`
/ `nalloc` (how many ids had been allocated when the entry was stored),
`collided` (set when an id is allocated although it is still pending, or when
`checkExpired` would dereference a missing entry: the wrap-around hazard that
the id guard of the theorems excludes).
-/
namespace Cell2v.Service

/-- `RequestTimeout` (ms) -/
def reqTimeout : Nat := 30000

/-- `ServiceResponse` as far as `handleResponse` looks at it -/
inductive Payload
  | ok (v : Option Nat)   -- ErrCode = 0; typed body `some v` or no body
  | err (e : Nat)         -- ErrCode ≠ 0, ErrInfo
  | bad                   -- ErrCode = 0 but `remote.Deserialize` fails
  | badType               -- ErrCode = 0, a type name nobody registered: `remote.Deserialize` panics;
                          -- `deserializeReply` recovers and reports an error (the repaired D22)
  deriving DecidableEq, Repr

/-- what a callback is called with -/
inductive Outcome
  | reply (v : Option Nat) | remoteErr (e : Nat) | decodeErr | timeout | serErr
  | noService   -- `app.ErrorNoService`: the node-level route found no target
  deriving DecidableEq, Repr

def decode : Payload → Outcome
  | .ok v => .reply v
  | .err e => .remoteErr e
  | .bad => .decodeErr
  | .badType => .decodeErr

/-- `RequestWaitResponse` -/
structure Wait where
  deadline : Nat
  hasCb : Bool
  inst : Nat
  allocNo : Nat
  deriving DecidableEq, Repr

inductive Ev
  | issued (inst id t : Nat)                    -- request: id allocated, `Handlers[id]` stored at time t
                                                -- (id 0: a node-level request that found no route — never stored)
  | sent (inst id : Nat)                        -- handed to `Context.Send` (id 0 = notify)
  | cb (inst id : Nat) (o : Outcome) (t : Nat)  -- the callback of instance `inst` is invoked
  | done (inst id : Nat)                        -- `delete(s.Handlers, id)`
  | dropped (id : Nat)                          -- "miss response"
  | armed | freed                               -- expiry-scan timer started / cancelled
  deriving DecidableEq, Repr

/-- what the service goroutine is in the middle of (below possibly `nest`
synchronous serialisation-failure callbacks) -/
inductive Base
  | idle
  | inResp (inst : Nat)                   -- in `handleResponse`, callback of instance `inst` running
  | inTick (inst : Nat) (rest : List Nat) -- in `checkExpired`, callback of `inst` running, ids `rest` still to do
  deriving DecidableEq, Repr

structure State where
  M : Nat                       -- `MaxReqId`
  nextId : Nat
  pending : List (Nat × Wait)   -- `Handlers`
  armed : Bool                  -- `timerCheckExpired > 0`
  now : Nat
  base : Base
  nest : Nat
  ninst : Nat
  nalloc : Nat
  collided : Bool
  log : List Ev
  deriving Repr

def init (M nextId : Nat) : State :=
  { M := M, nextId := nextId, pending := [], armed := false, now := 0, base := .idle, nest := 0,
    ninst := 0, nalloc := 0, collided := false, log := [] }

/-! ### the table -/

def find (id : Nat) : List (Nat × Wait) → Option Wait
  | [] => none
  | (k, w) :: t => if k = id then some w else find id t

def del (id : Nat) (l : List (Nat × Wait)) : List (Nat × Wait) := l.filter (fun e => e.1 != id)

def keys (l : List (Nat × Wait)) : List Nat := l.map (·.1)

def hasKey (id : Nat) (l : List (Nat × Wait)) : Bool := (find id l).isSome

/-- `AllocReqId`: `if nextId >= Max { nextId = 0 }; nextId++; return nextId` -/
def allocId (M nextId : Nat) : Nat := if nextId ≥ M then 1 else nextId + 1

/-- ids whose deadline has passed: `one.Timeout < now` (strict) -/
def dueIds (now : Nat) (l : List (Nat × Wait)) : List Nat :=
  (l.filter (fun e => e.2.deadline < now)).map (·.1)

/-- Go iterates the map in an arbitrary order: `order` is that choice. The result
is a permutation of `due` that follows `order` as far as it mentions due ids. -/
def pickOrder : List Nat → List Nat → List Nat
  | [], due => due
  | o :: os, due => if o ∈ due then o :: pickOrder os (due.erase o) else pickOrder os due

/-- `delete(s.Handlers, id)` (+ ghost event) -/
def finish (s : State) (id : Nat) : State :=
  match find id s.pending with
  | some w => { s with pending := del id s.pending, log := .done w.inst id :: s.log }
  | none => s

/-! ### transitions -/

/-- `doRequestEx` (Request/RequestEx: `isReq`; Notify/NotifyEx: not).  `serOk` is
whether `remote.Serialize` accepts the message, `hasCb` whether `cbFunc != nil`. -/
def issue (s : State) (isReq serOk hasCb : Bool) : State :=
  let inst := s.ninst
  let s := { s with ninst := s.ninst + 1 }
  if isReq then
    let id := allocId s.M s.nextId
    let s := { s with
      nextId := id, nalloc := s.nalloc + 1,
      collided := s.collided || hasKey id s.pending,
      pending := (id, ⟨s.now + reqTimeout, hasCb, inst, s.nalloc + 1⟩) :: del id s.pending,
      log := .issued inst id s.now :: s.log }
    if serOk then
      let s := { s with log := .sent inst id :: s.log }
      if s.armed then s else { s with armed := true, log := .armed :: s.log }
    else
      let s := { s with pending := del id s.pending, log := .done inst id :: s.log }
      if hasCb then { s with nest := s.nest + 1, log := .cb inst id .serErr s.now :: s.log } else s
  else
    if serOk then { s with log := .sent inst 0 :: s.log } else s

/-- node-level `app.Request` / `app.Notify` (`node/app/serviceutils.go`; `QuerySession` and `Kick` have
the same shape) when `RoutePID` finds no target: nothing reaches `doRequestEx` — no id is allocated,
nothing is stored, sent or armed; a request's callback, if there is one, is invoked at once,
synchronously, with `ErrorNoService` (`apientry.CheckInvokeCBFunc`).  With a target the call IS
`RequestEx` / `NotifyEx`, i.e. `issue`.  Ghost bookkeeping: the completed instance is logged as
issued-and-done under the notification id 0. -/
def noroute (s : State) (isReq hasCb : Bool) : State :=
  if isReq && hasCb then
    { s with ninst := s.ninst + 1, nest := s.nest + 1,
             log := .cb s.ninst 0 .noService s.now :: .done s.ninst 0 :: .issued s.ninst 0 s.now :: s.log }
  else { s with ninst := s.ninst + 1 }

/-- `ResponseEx` (the answering side): is a `ServiceResponse` sent back for a request received with
this id / sender?  Never for a notification (`ReqId == NotifyReqID`) nor without a sender. -/
def respondsTo (reqId : Nat) (hasSender : Bool) : Bool := reqId != 0 && hasSender

/-- is the goroutine free to take the next message / timer event? -/
def free (s : State) : Bool := s.nest == 0 && s.base == .idle

/-- `handleResponse`: look up, decode, `delete`, callback -/
def response (s : State) (id : Nat) (p : Payload) : State :=
  if !free s then s else
  match find id s.pending with
  | none => { s with log := .dropped id :: s.log }
  | some w =>
    if w.hasCb then
      { finish s id with base := .inResp w.inst, log := .cb w.inst id (decode p) s.now :: (finish s id).log }
    else finish s id

/-- the `for _, reqId := range expires` loop of `checkExpired`, up to the next callback:
`delete` first, then the callback -/
def tickLoop (s : State) : List Nat → State
  | [] => { s with base := .idle }
  | id :: rest =>
    match find id s.pending with
    | none => { s with base := .idle, collided := true }   -- Go: nil dereference, recovered by timer.Mgr.do
    | some w =>
      if w.hasCb then
        { finish s id with base := .inTick w.inst rest, log := .cb w.inst id .timeout s.now :: (finish s id).log }
      else tickLoop (finish s id) rest

/-- the timer callback `checkExpired`; a cancelled timer never fires -/
def tick (s : State) (order : List Nat) : State :=
  if !free s || !s.armed then s
  else if s.pending.isEmpty then { s with armed := false, log := .freed :: s.log }
  else tickLoop s (pickOrder order (dueIds s.now s.pending))

/-- the running callback returns -/
def ret (s : State) : State :=
  if s.nest > 0 then { s with nest := s.nest - 1 }
  else match s.base with
    | .idle => s
    | .inResp _ => { s with base := .idle }
    | .inTick _ rest => tickLoop s rest

/-- the running callback panics while a scan is in progress: `checkExpired` and every
frame above it are unwound, `timer.Mgr.do` recovers; the timer is re-armed as usual -/
def panicScan (s : State) : State :=
  match s.base with
  | .inTick _ _ => { s with base := .idle, nest := 0 }
  | _ => s

inductive Op
  | issue (isReq serOk hasCb : Bool)
  | noroute (isReq hasCb : Bool)
  | response (id : Nat) (p : Payload)
  | tick (order : List Nat)
  | ret
  | panic
  | advance (dt : Nat)
  deriving Repr

def step (s : State) : Op → State
  | .issue r o c => issue s r o c
  | .noroute r c => noroute s r c
  | .response id p => response s id p
  | .tick order => tick s order
  | .ret => ret s
  | .panic => panicScan s
  | .advance dt => { s with now := s.now + dt }

def run (s : State) (ops : List Op) : State := ops.foldl step s

/-! ### D10 (repaired by the `fix:` commit): the previous `doRequestEx` returned
on a serialisation failure without removing the entry or calling back. -/
def issueD10 (s : State) (isReq serOk hasCb : Bool) : State :=
  let inst := s.ninst
  let s := { s with ninst := s.ninst + 1 }
  if isReq then
    let id := allocId s.M s.nextId
    let s := { s with
      nextId := id, nalloc := s.nalloc + 1,
      collided := s.collided || hasKey id s.pending,
      pending := (id, ⟨s.now + reqTimeout, hasCb, inst, s.nalloc + 1⟩) :: del id s.pending,
      log := .issued inst id s.now :: s.log }
    if serOk then
      let s := { s with log := .sent inst id :: s.log }
      if s.armed then s else { s with armed := true, log := .armed :: s.log }
    else s
  else
    if serOk then { s with log := .sent inst 0 :: s.log } else s

/-! ### D22 (repaired by the `fix:` commit): the previous `handleResponse` called
`remote.Deserialize` directly.  For a type name nobody registered it panics — after the
lookup, before `delete` and before the callback: the entry stays registered, the callback is
not invoked, the mailbox escalates the panic and the supervisor restarts the actor as a
fresh `Service` (this incarnation processes no further message). -/
def responseD22 (s : State) (id : Nat) (p : Payload) : State :=
  if !free s then s else
  match find id s.pending with
  | none => { s with log := .dropped id :: s.log }
  | some _ => if p = .badType then s else response s id p

/-! ### D18 (repaired by the `fix:` commit): the previous `checkExpired` called the
callback first and deleted the entry only after it had returned — a panicking
callback (recovered by the timer manager) left the entry behind. -/
def tickLoopD18 (s : State) : List Nat → State
  | [] => { s with base := .idle }
  | id :: rest =>
    match find id s.pending with
    | none => { s with base := .idle, collided := true }
    | some w =>
      if w.hasCb then { s with base := .inTick w.inst rest, log := .cb w.inst id .timeout s.now :: s.log }
      else tickLoopD18 (finish s id) rest

def tickD18 (s : State) (order : List Nat) : State :=
  if !free s || !s.armed then s
  else if s.pending.isEmpty then { s with armed := false, log := .freed :: s.log }
  else tickLoopD18 s (pickOrder order (dueIds s.now s.pending))

end Cell2v.Service
