/-!
Executable model of the MMO scene's zoned spatial index
(`_projects/mmo/server/servers/scene/space/{zonespace.go, zone.go}`) and of the
brute-force reference (`simple.go`), over **exact arithmetic**: every coordinate,
radius and geometry parameter is an `Int` counting quarter units (fixed-point
rationals n/4).  Core Lean only (linked into `modeld_c20`).

What is mirrored, statement by statement:
* `Init`            : `zoneWidth = int((endX-beginX)/zoneSize) + 1` (same for Z)
* `nToZoneN`        : the *repaired* code — clamp in the float domain first
                      (`!(f > 0) → 0`, `f >= max → max-1`), convert afterwards;
                      `zoneNOld` is the pre-fix code (convert, then clamp) with the
                      amd64 conversion overflow (results beyond int64 become MinInt64)
* `AddEntity`       : known id → no-op; else map insert + append to the zone slice
* `RemoveEntity`    : unknown id → no-op; else delete from the zone of `ZoneIndex`, delete from the map
* `UpdateEntityPos` : unknown id → no-op; set Pos; same index → done; else remove
                      from the old zone (`panic("unexpect")` if it is not there), append to the new one
* `SearchCircleTargets` : visit the zone rectangle `[xToZoneX(x-r), xToZoneX(x+r)] ×
                      [zToZoneZ(z-r), zToZoneZ(z+r)]`, z-major, index `z*zoneWidth + x`;
                      per zone keep the entities with `!(dist > radius)`

Representation of the heap: `ents` is the `entities` map (association list keyed by
id, the `*ZoneEntityInfo` objects); the family of per-zone slices `zones[i].values`
is ONE list `slots` of pairs `(zone index, entity id)` in global insertion order —
zone `i`'s slice is the subsequence of the pairs whose first component is `i`
(`append` = append a pair, `slices.Delete` of the first match = `List.erase`).
A zone slice holds pointers; the model follows a pointer by looking the id up in `ents`.
-/
namespace Cell2v.Space

structure Pos where
  x : Int
  y : Int
  z : Int
deriving DecidableEq, Repr

/-- geometry after `Init` (quarter units) -/
structure Geo where
  bx : Int
  bz : Int
  step : Int
  w : Nat
  h : Nat
deriving DecidableEq, Repr

/-- `ZoneSpace.Init(beginX, beginZ, endX, endZ, zoneSize)`; `int(·)` truncates toward zero -/
def Geo.init (bx bz ex ez step : Int) : Geo :=
  { bx := bx, bz := bz, step := step,
    w := (Int.tdiv (ex - bx) step + 1).toNat,
    h := (Int.tdiv (ez - bz) step + 1).toNat }

/-- what `Init` guarantees when called with `begin ≤ end` and a positive zone size -/
def Geo.Ok (g : Geo) : Prop := 0 < g.step ∧ 1 ≤ g.w ∧ 1 ≤ g.h

instance (g : Geo) : Decidable g.Ok := by unfold Geo.Ok; infer_instance

/-- the geometry of the only caller of `Init` in the repository, the factory registered in
zonespace.go: `Init(-MaxWidth, -MaxWidth, MaxWidth, MaxWidth, 5)` with `define.MaxWidth = 30`
(quarter units); tied to the code by `reset kind=x default` (the harness calls
`factory.CreateZoneSpace()`, the model uses this constant) -/
def Geo.factory : Geo := Geo.init (-120) (-120) 120 120 20

/-- `nToZoneN(n, begin, step, max)` as repaired: `f := (n-begin)/step` (exact rational
here); `!(f > 0)` is `n - begin ≤ 0` because `step > 0`; `f >= float32(max)` is
`max*step ≤ n - begin`; `int(f)` truncates. -/
def zoneN (n b step : Int) (mx : Nat) : Nat :=
  let d := n - b
  if ¬ (0 < d) then 0
  else if (mx : Int) * step ≤ d then mx - 1
  else (Int.tdiv d step).toNat

/-- Go's `int(f)` on amd64 for a real `f`: beyond the int64 range the conversion
yields the "integer indefinite" value `MinInt64`. -/
def goInt (num den : Int) : Int :=
  let t := Int.tdiv num den
  if t < -(2 ^ 63) ∨ 2 ^ 63 ≤ t then -(2 ^ 63) else t

/-- the pre-fix `nToZoneN`: convert first, clamp the integer afterwards (defect D12) -/
def zoneNOld (n b step : Int) (mx : Nat) : Nat :=
  let zn := goInt (n - b) step
  if zn < 0 then 0
  else if (mx : Int) ≤ zn then mx - 1
  else zn.toNat

def Geo.zx (g : Geo) (x : Int) : Nat := zoneN x g.bx g.step g.w
def Geo.zz (g : Geo) (z : Int) : Nat := zoneN z g.bz g.step g.h
/-- `xzToIndex` -/
def Geo.index (g : Geo) (x z : Int) : Nat := g.zz z * g.w + g.zx x

/-- one `*ZoneEntityInfo` -/
structure Ent where
  id : Nat
  pos : Pos
  zi : Nat
deriving DecidableEq, Repr

structure Space where
  geo : Geo
  ents : List Ent := []
  slots : List (Nat × Nat) := []
deriving Repr

def Space.init (g : Geo) : Space := { geo := g }

/-- `s.entities[id]` -/
def Space.find (s : Space) (id : Nat) : Option Ent := s.ents.find? (fun e => e.id == id)

inductive Op where
  | add (id : Nat) (p : Pos)
  | mov (id : Nat) (p : Pos)
  | del (id : Nat)
deriving DecidableEq, Repr

def Space.add (s : Space) (id : Nat) (p : Pos) : Space :=
  match s.find id with
  | some _ => s
  | none =>
    let zi := s.geo.index p.x p.z
    { s with ents := s.ents ++ [⟨id, p, zi⟩], slots := s.slots ++ [(zi, id)] }

def Space.del (s : Space) (id : Nat) : Space :=
  match s.find id with
  | none => s
  | some e =>
    { s with ents := s.ents.filter (fun e' => e'.id != id), slots := s.slots.erase (e.zi, id) }

def setEnt (ents : List Ent) (id : Nat) (p : Pos) (zi : Nat) : List Ent :=
  ents.map fun e => if e.id == id then { e with pos := p, zi := zi } else e

/-- `none` = `panic("unexpect")` -/
def Space.mov (s : Space) (id : Nat) (p : Pos) : Option Space :=
  match s.find id with
  | none => some s
  | some e =>
    let ni := s.geo.index p.x p.z
    if e.zi = ni then some { s with ents := setEnt s.ents id p e.zi }
    else if (e.zi, id) ∈ s.slots then
      some { s with ents := setEnt s.ents id p ni, slots := s.slots.erase (e.zi, id) ++ [(ni, id)] }
    else none

def Space.step (s : Space) : Op → Option Space
  | .add id p => some (s.add id p)
  | .mov id p => s.mov id p
  | .del id => some (s.del id)

def Space.run (s : Space) : List Op → Option Space
  | [] => some s
  | op :: ops => (s.step op).bind (fun s' => s'.run ops)

/-- squared distance, in 1/16 units: `pos.Sub(v.Pos)` then `X*X + Y*Y + Z*Z` -/
def sqDist (q p : Pos) : Int :=
  (q.x - p.x) * (q.x - p.x) + (q.y - p.y) * (q.y - p.y) + (q.z - p.z) * (q.z - p.z)

/-- `!(dist > radius)` over the reals: `sqrt S ≤ r ⇔ 0 ≤ r ∧ S ≤ r²` -/
def within (q : Pos) (r : Int) (p : Pos) : Bool := decide (0 ≤ r) && decide (sqDist q p ≤ r * r)

/-- `zones[i].values` as ids -/
def Space.zoneIds (s : Space) (i : Nat) : List Nat := (s.slots.filter (fun p => p.1 == i)).map (·.2)

/-- `Zone.SearchCircleTargets` with an accept-everything searcher -/
def Space.zoneSearch (s : Space) (q : Pos) (r : Int) (i : Nat) : List Nat :=
  (s.zoneIds i).filter fun id =>
    match s.find id with
    | some e => within q r e.pos
    | none => false

/-- zone indices visited by the double loop, in visiting order, for a given
coordinate-to-zone function -/
def visitedG (zf : Int → Int → Int → Nat → Nat) (g : Geo) (q : Pos) (r : Int) : List Nat :=
  let x0 := zf (q.x - r) g.bx g.step g.w
  let x1 := zf (q.x + r) g.bx g.step g.w
  let z0 := zf (q.z - r) g.bz g.step g.h
  let z1 := zf (q.z + r) g.bz g.step g.h
  (List.range' z0 (z1 + 1 - z0)).flatMap fun z => (List.range' x0 (x1 + 1 - x0)).map fun x => z * g.w + x

def visited (g : Geo) (q : Pos) (r : Int) : List Nat := visitedG zoneN g q r

def Space.searchG (zf : Int → Int → Int → Nat → Nat) (s : Space) (q : Pos) (r : Int) : List Nat :=
  (visitedG zf s.geo q r).flatMap (s.zoneSearch q r)

/-- `ZoneSpace.SearchCircleTargets` (ids in the order the searcher received them) -/
def Space.search (s : Space) (q : Pos) (r : Int) : List Nat := s.searchG zoneN q r

/-- the search of the pre-fix code -/
def Space.searchOld (s : Space) (q : Pos) (r : Int) : List Nat := s.searchG zoneNOld q r

/-! ### the reference: a plain id ↦ position map and a scan over all of it -/

abbrev Ref := List (Nat × Pos)

def Ref.has (m : Ref) (id : Nat) : Bool := m.any (fun ip => ip.1 == id)

def Ref.step (m : Ref) : Op → Ref
  | .add id p => if m.has id then m else m ++ [(id, p)]
  | .mov id p => m.map fun ip => if ip.1 == id then (id, p) else ip
  | .del id => m.filter fun ip => ip.1 != id

def Ref.run (m : Ref) : List Op → Ref
  | [] => m
  | op :: ops => (m.step op).run ops

/-- `SimpleSpace.SearchCircleTargets`: scan everything, keep `!(dist > radius)` -/
def Ref.brute (m : Ref) (q : Pos) (r : Int) : List Nat := (m.filter fun ip => within q r ip.2).map (·.1)

/-- the id ↦ position content of the zoned space -/
def Space.positions (s : Space) : Ref := s.ents.map fun e => (e.id, e.pos)

/-! ### the brute-force implementation `SimpleSpace` (simple.go), statement by statement

Heap representation: `values` is the slice `[]*EntityInfo` as the list of the objects
`(Id, Pos)` in slice order; `keys` is the key set of the map `entities` (the map entry of
`id` points to an object of `values` whose `Id` is `id`: following that pointer and
writing `Pos` = rewriting the position of the objects with that `Id`).
* `AddEntity`       : known id → `s.entities[id].Pos = pos` (it MOVES a live id — unlike
                      `ZoneSpace.AddEntity`, which ignores it); else new object, map insert, append
* `RemoveEntity`    : `delete(s.entities, id)`; `findIndex(id)` = first object with that `Id`;
                      if found `slices.Delete` it
* `UpdateEntityPos` : unknown id → no-op; else write `Pos`
* `SearchCircleTargets` : scan `values` in order, keep `!(dist > radius)`, ask the searcher -/

structure Simple where
  keys : List Nat := []
  values : List (Nat × Pos) := []
deriving Repr

def setPos (vs : List (Nat × Pos)) (id : Nat) (p : Pos) : List (Nat × Pos) :=
  vs.map fun ip => if ip.1 == id then (id, p) else ip

/-- `slices.Delete(values, i, i+1)` for `i = findIndex(id)`, nothing when `findIndex` is -1 -/
def eraseFirstId : List (Nat × Pos) → Nat → List (Nat × Pos)
  | [], _ => []
  | ip :: l, id => if ip.1 == id then l else ip :: eraseFirstId l id

def Simple.add (s : Simple) (id : Nat) (p : Pos) : Simple :=
  if s.keys.contains id then { s with values := setPos s.values id p }
  else { keys := s.keys ++ [id], values := s.values ++ [(id, p)] }

def Simple.del (s : Simple) (id : Nat) : Simple :=
  { keys := s.keys.erase id, values := eraseFirstId s.values id }

def Simple.mov (s : Simple) (id : Nat) (p : Pos) : Simple :=
  if s.keys.contains id then { s with values := setPos s.values id p } else s

def Simple.step (s : Simple) : Op → Simple
  | .add id p => s.add id p
  | .mov id p => s.mov id p
  | .del id => s.del id

def Simple.run (s : Simple) : List Op → Simple
  | [] => s
  | op :: ops => (s.step op).run ops

/-- `SimpleSpace.SearchCircleTargets` with a searcher whose `Validate` is `v` -/
def Simple.searchV (s : Simple) (q : Pos) (r : Int) (v : Nat → Bool) : List Nat :=
  (s.values.filter fun ip => within q r ip.2 && v ip.1).map (·.1)

def Simple.search (s : Simple) (q : Pos) (r : Int) : List Nat := s.searchV q r (fun _ => true)

/-- the contract of `SimpleSpace` as a plain map: `add` is an upsert -/
def Ref.stepS (m : Ref) : Op → Ref
  | .add id p => if m.has id then m.map (fun ip => if ip.1 == id then (id, p) else ip) else m ++ [(id, p)]
  | .mov id p => m.map fun ip => if ip.1 == id then (id, p) else ip
  | .del id => m.filter fun ip => ip.1 != id

def Ref.runS (m : Ref) : List Op → Ref
  | [] => m
  | op :: ops => (m.stepS op).runS ops

/-- what the correspondence harness hands to `SimpleSpace` when it is used as the reference of the
ZONED contract: every op except an `add` of an id that is live at that moment -/
def dropLiveAdds (m : Ref) : List Op → List Op
  | [] => []
  | .add id p :: ops => if m.has id then dropLiveAdds m ops else .add id p :: dropLiveAdds (m.step (.add id p)) ops
  | .mov id p :: ops => .mov id p :: dropLiveAdds (m.step (.mov id p)) ops
  | .del id :: ops => .del id :: dropLiveAdds (m.step (.del id)) ops

/-! ### searchers (`define.ISearcher`): `Validate` filters, `AddCandidate` collects

`Zone.SearchCircleTargets` / `SimpleSpace.SearchCircleTargets` call `searcher.Validate(id, dist)`
for every entity with `!(dist > radius)` and `AddCandidate` when it says yes; `MakeResults`
returns what the searcher has collected — for `searchers.FindPlayers` that is the field `tars`,
which is appended to and never reset: `acc` is its content before the query. -/

def Space.zoneSearchV (s : Space) (q : Pos) (r : Int) (v : Nat → Bool) (i : Nat) : List Nat :=
  (s.zoneIds i).filter fun id =>
    match s.find id with
    | some e => within q r e.pos && v id
    | none => false

/-- `ZoneSpace.SearchCircleTargets` with a searcher whose `Validate` is `v` -/
def Space.searchV (s : Space) (q : Pos) (r : Int) (v : Nat → Bool) : List Nat :=
  (visited s.geo q r).flatMap (s.zoneSearchV q r v)

/-- a query through a `FindPlayers`-like searcher object whose `tars` holds `acc` already -/
def Space.searchAcc (s : Space) (acc : List Nat) (q : Pos) (r : Int) (v : Nat → Bool) : List Nat :=
  acc ++ s.searchV q r v

/-! ### `searchers.FindPlayers` and the scene world it looks candidates up in

`Validate(id, dist)`, statement by statement: the owner is rejected; `owner.GetWorld().GetEntity(id) == nil`
(an id the world does not know: `gone`) is rejected; a dead unit is rejected; a unit whose type is not
`define.UnitAvatar` (= 5 in `servers/scene/define/unit.go`) is rejected; everything else is accepted.
`AddCandidate` appends to `tars`, `MakeResults` returns `tars` (see `searchAcc`). -/

structure UnitInfo where
  kind : Nat := 5      -- define.UnitType: 0 none, 1 exit, 2 test, 3 camera, 4 monster, 5 avatar
  dead : Bool := false
  gone : Bool := false -- the world has no entity with that id
  deriving DecidableEq

def unitAvatar : Nat := 5

/-- the world: id ↦ what is known about the unit; an id never described is a live avatar (harness convention) -/
abbrev World := List (Nat × UnitInfo)

def World.info (w : World) (id : Nat) : UnitInfo :=
  match w.find? (fun p => p.1 == id) with
  | some p => p.2
  | none => {}

def World.set (w : World) (id : Nat) (u : UnitInfo) : World := (id, u) :: w.filter (fun p => p.1 != id)

def findPlayersValidate (w : World) (owner : Nat) (id : Nat) : Bool :=
  if id == owner then false
  else
    let u := w.info id
    if u.gone then false
    else if u.dead then false
    else if u.kind != unitAvatar then false
    else true

/-! ### a long-lived space: the same query again and again

`SearchCircleTargets` of both Go implementations reads the index and writes nothing (no field of
`ZoneSpace` / `Zone` / `ZoneEntityInfo` / `SimpleSpace` is assigned on that path), so the model's query is a
function of the state and returns no new state.  `searchRepeat n` is what the op `qn` of the correspondence run
observes: the first answer and how many of the `n` answers equal it (compared as sorted lists, the way the
harness compares them). -/

def insertSorted (a : Nat) : List Nat → List Nat
  | [] => [a]
  | b :: l => if a ≤ b then a :: b :: l else b :: insertSorted a l

def sortNat (l : List Nat) : List Nat := l.foldr insertSorted []

/-- answers of `n` consecutive queries, the state threaded through (a query returns the state it was given) -/
def repeatAnswers {σ : Type} (query : σ → σ × List Nat) : σ → Nat → List (List Nat)
  | _, 0 => []
  | s, n + 1 => let (s', a) := query s; a :: repeatAnswers query s' n

def countSame (l : List (List Nat)) : List Nat × Nat :=
  match l with
  | [] => ([], 0)
  | a :: _ => (a, (l.filter fun b => sortNat b == sortNat a).length)

def Space.searchRepeat (s : Space) (q : Pos) (r : Int) (v : Nat → Bool) (n : Nat) : List Nat × Nat :=
  countSame (repeatAnswers (fun s : Space => (s, s.searchV q r v)) s n)

def Simple.searchRepeat (s : Simple) (q : Pos) (r : Int) (v : Nat → Bool) (n : Nat) : List Nat × Nat :=
  countSame (repeatAnswers (fun s : Simple => (s, s.searchV q r v)) s n)

theorem repeatAnswers_readonly {σ : Type} (f : σ → List Nat) (s : σ) (n : Nat) :
    repeatAnswers (fun s => (s, f s)) s n = List.replicate n (f s) := by
  induction n with
  | zero => rfl
  | succ n ih => simp [repeatAnswers, ih, List.replicate_succ]

theorem countSame_replicate (a : List Nat) (n : Nat) : countSame (List.replicate (n + 1) a) = (a, n + 1) := by
  simp [countSame, List.replicate_succ]

/-- what the compiled driver evaluates instead of `n` identical searches (proved equal below) -/
def Space.searchRepeatFast (s : Space) (q : Pos) (r : Int) (v : Nat → Bool) (n : Nat) : List Nat × Nat :=
  if n = 0 then ([], 0) else (s.searchV q r v, n)

def Simple.searchRepeatFast (s : Simple) (q : Pos) (r : Int) (v : Nat → Bool) (n : Nat) : List Nat × Nat :=
  if n = 0 then ([], 0) else (s.searchV q r v, n)

@[csimp] theorem Space.searchRepeat_eq_fast : @Space.searchRepeat = @Space.searchRepeatFast := by
  funext s q r v n
  cases n with
  | zero => rfl
  | succ n => simp [Space.searchRepeat, Space.searchRepeatFast, repeatAnswers_readonly, countSame_replicate]

@[csimp] theorem Simple.searchRepeat_eq_fast : @Simple.searchRepeat = @Simple.searchRepeatFast := by
  funext s q r v n
  cases n with
  | zero => rfl
  | succ n => simp [Simple.searchRepeat, Simple.searchRepeatFast, repeatAnswers_readonly, countSame_replicate]

end Cell2v.Space
