/-
C03 — model of the path a push / a response takes from the service code that
issues it to the client's socket: a network of FIFO queues under an arbitrary
scheduler.

What the Go code does (as it is now):

* back-end service `S` (`S ≠ front`), on its own goroutine:
    push      `PushMessageById → pushMessageByIds → ns.RequestEx(frontPid, "sys.pushmsg")
               → Context.Send(frontPid, ServiceRequest)`
    response  handler completion `→ cbFunc → Service.Response → Context.Send(req.Sender = frontPid, ServiceResponse)`
  both are `Send`s from the same sender to the same receiver: they enter the
  per-(sender, receiver) transport queue `transport S` (proto.actor delivers
  the messages of one sender to one receiver in send order — ASSUMPTION) and from
  there the front's user mailbox (`deliver S`: the mailbox is an arbitrary
  order-preserving merge of the senders' queues; its own FIFO is C09's theorem);
* the front processes its mailbox one message at a time (`process`):
    `sys.pushmsg → ClientSessions.PushMsg → ClientSession.Push → send → chSend <- p`
    `ServiceResponse → handleResponse → forwarder callback → ResponseMID → send → chSend <- p`
  i.e. each processing synchronously appends to the session's `chSend`
  (a session that is closed / gone drops the item: `lost`);
* one writer goroutine per session drains `chSend` to the connection (`write`);
  `chSend` is bounded (9999): when it is full — a client that does not read —
  the goroutine that pushes next blocks in `pushToSend` until the writer took a
  packet (`full`: the step is not enabled), it does NOT hand the packet to
  anybody else;
* the front itself as issuer (front-local handler): the response is written
  with `ResponseMID` in place, and — since the repair of D8, `pushLocal` — so is a
  push whose target front is the issuing service (`localDirect = true`).  Before
  the repair the push was a `RequestEx` to the service's own PID, i.e. it went
  through the front's own mailbox (`localDirect = false`);
* code that is not on the service goroutine enters the service through
  `Service.Post → Sche.Post` (`post`, `send`, `run`): a bounded channel
  `chanTask` (`QueueSize`), a poster blocks while it is full.  With
  `selfBlockDefend` on and the channel nearly full `Post` hands the send to a
  fresh goroutine (`detached`, `sendDetached`) — the overflow path the source
  comment calls an ordering hazard.

Issuing threads of control (`Src`): `thr = 0` is the service goroutine itself
(handler code, timer callbacks), `thr = p+1` a worker goroutine `p` of the
service's code whose closures are posted; the *issue order* of a thread is the
order in which its code issued the items (for a worker: the order of its `Post`
calls) — the ghost log `issued`.  Every item carries the per-(thread, client)
counter `seq` the harness's pushes/responses carry.

Modelled, not verified: proto.actor per-pair FIFO, Go channel FIFO (`chSend`,
`chanTask`), TCP/`net.Conn` ordering (the socket is the list of writes); the
request timeout (a response that arrives at the front after its 30 s request
expired is dropped there — outside this model); a closed session is never
re-opened under the same id.
-/
namespace Cell2v.FifoNet

inductive Kind | push | resp
  deriving DecidableEq, Repr

/-- an issuing thread of control -/
structure Src where
  svc : Nat
  thr : Nat
  deriving DecidableEq, Repr

structure Item where
  src : Src
  client : Nat
  seq : Nat
  kind : Kind
  deriving DecidableEq, Repr

structure Cfg where
  cap : Nat                   -- sche.QueueSize
  defend : Bool               -- sche.selfBlockDefend (overflow path)
  localDirect : Bool := true  -- pushLocal: a front-local push is written in place (D8 repaired)
  chCap : Nat := 9999         -- capacity of ClientSession.chSend
  sendOverflow : Bool := false  -- NOT in the code: `pushToSend` handing a packet to a fresh goroutine when chSend is full
  deriving Repr

/-- the front-end service that owns the connections -/
def front : Nat := 0

def upd {α : Type} (f : Nat → α) (p : Nat) (v : α) : Nat → α := fun q => if q = p then v else f q

def updS {α : Type} (f : Src → α) (p : Src) (v : α) : Src → α := fun q => if q = p then v else f q

structure St where
  issued : List Item := []                          -- ghost: every item in the order it was issued
  out : Src → Option Item := fun _ => none          -- a worker's outstanding `chanTask <- t`
  detached : Nat → List Item := fun _ => []         -- overflow path: sends owned by helper goroutines (per service)
  task : Nat → List Item := fun _ => []             -- the service's `chanTask`
  transport : Nat → List Item := fun _ => []        -- sender → front, per sender
  mailbox : List Item := []                         -- the front's user mailbox
  chSend : Nat → List Item := fun _ => []           -- per connection
  lost : Nat → List Item := fun _ => []             -- ghost: dropped because the session is closed
  socket : Nat → List Item := fun _ => []           -- what the writer wrote, per connection
  closed : Nat → Bool := fun _ => false
  spill : List Item := []                           -- only with `sendOverflow`: packets owned by helper goroutines

/-- the items of thread `σ` towards client `c` in a list, in list order -/
def sel (σ : Src) (c : Nat) (l : List Item) : List Item := l.filter (fun x => x.src = σ ∧ x.client = c)

/-- the counter the next item of `σ` towards `c` carries -/
def nextSeq (s : St) (σ : Src) (c : Nat) : Nat := s.issued.countP (fun x => x.src = σ ∧ x.client = c)

/-- `Push` / `ResponseMID` on the session object: enqueue on `chSend`, or drop when closed -/
def toSession (s : St) (x : Item) : St :=
  if s.closed x.client then { s with lost := upd s.lost x.client (s.lost x.client ++ [x]) }
  else { s with chSend := upd s.chSend x.client (s.chSend x.client ++ [x]) }

/-- the session's send queue is full: `s.chSend <- p` (`pushToSend`) blocks the
calling service goroutine until the writer has taken a packet (a client that
reads slowly / not at all); a closed session never blocks (the item is dropped) -/
def full (cfg : Cfg) (s : St) (c : Nat) : Bool := !s.closed c && decide ((s.chSend c).length ≥ cfg.chCap)

/-- does `S`'s goroutine write `x` to the session itself (front-local response; front-local push with `pushLocal`) -/
def inPlace (cfg : Cfg) (S : Nat) (x : Item) : Bool := decide (S = front) && (cfg.localDirect || decide (x.kind = .resp))

/-- only with `sendOverflow`: the packet is handed to a helper goroutine -/
def spillTo (s : St) (x : Item) : St := { s with spill := s.spill ++ [x] }

/-- service `S`'s goroutine hands item `x` to the framework -/
def emit (cfg : Cfg) (s : St) (S : Nat) (x : Item) : St :=
  if S = front then
    if cfg.localDirect ∨ x.kind = .resp then toSession s x
    else { s with mailbox := s.mailbox ++ [x] }      -- pre-D8: RequestEx to its own PID
  else { s with transport := upd s.transport S (s.transport S ++ [x]) }

inductive Label
  | issue (S c : Nat) (k : Kind)        -- code on S's goroutine issues a push / completes a request
  | post (S p c : Nat) (k : Kind)       -- worker p of S calls Post with a closure that issues the item
  | send (S p : Nat)                    -- the worker's channel send completes
  | sendDetached (S i : Nat)            -- overflow path: a helper goroutine's send completes
  | run (S : Nat)                       -- S's goroutine receives the head of chanTask and runs the closure
  | deliver (S : Nat)                   -- transport S → front mailbox
  | process                             -- the front processes the head of its mailbox
  | write (c : Nat)                     -- the session's writer moves the head of chSend to the socket
  | close (c : Nat)                     -- the session is closed
  | writerStop (c : Nat)                -- the writer of a closed session returns; what is left in chSend is lost
  | spillSend (i : Nat)                 -- only with `sendOverflow`: a helper goroutine's send completes
  deriving Repr

/-- one step, with the counter source as a parameter (`fire` below passes
`nextSeq s`; the model driver passes the counter it keeps incrementally, which
is the same number — `fireAt_congr`) -/
def fireAt (cfg : Cfg) (s : St) (seqOf : Src → Nat → Nat) : Label → Option St
  | .issue S c k =>
    let x : Item := ⟨⟨S, 0⟩, c, seqOf ⟨S, 0⟩ c, k⟩
    if inPlace cfg S x && full cfg s c then
      -- the front's goroutine is blocked on the full send queue
      if cfg.sendOverflow then some (spillTo { s with issued := s.issued ++ [x] } x) else none
    else some (emit cfg { s with issued := s.issued ++ [x] } S x)
  | .post S p c k =>
    let σ : Src := ⟨S, p + 1⟩
    match s.out σ with
    | some _ => none                        -- the worker is blocked in its previous Post
    | none =>
      let x : Item := ⟨σ, c, seqOf σ c, k⟩
      if cfg.defend ∧ (s.task S).length ≥ cfg.cap - 10 then
        some { s with issued := s.issued ++ [x], detached := upd s.detached S (s.detached S ++ [x]) }
      else
        some { s with issued := s.issued ++ [x], out := updS s.out σ (some x) }
  | .send S p =>
    match s.out ⟨S, p + 1⟩ with
    | none => none
    | some x =>
      if (s.task S).length < cfg.cap then
        some { s with out := updS s.out ⟨S, p + 1⟩ none, task := upd s.task S (s.task S ++ [x]) }
      else none                             -- channel full: the sender stays blocked
  | .sendDetached S i =>
    match (s.detached S)[i]? with
    | none => none
    | some x =>
      if (s.task S).length < cfg.cap then
        some { s with detached := upd s.detached S ((s.detached S).eraseIdx i), task := upd s.task S (s.task S ++ [x]) }
      else none
  | .run S =>
    match s.task S with
    | [] => none
    | x :: rest =>
      if inPlace cfg S x && full cfg s x.client then
        if cfg.sendOverflow then some (spillTo { s with task := upd s.task S rest } x) else none
      else some (emit cfg { s with task := upd s.task S rest } S x)
  | .deliver S =>
    match s.transport S with
    | [] => none
    | x :: rest => some { s with transport := upd s.transport S rest, mailbox := s.mailbox ++ [x] }
  | .process =>
    match s.mailbox with
    | [] => none
    | x :: rest =>
      if full cfg s x.client then
        -- blocked on the full send queue: the whole front waits
        if cfg.sendOverflow then some (spillTo { s with mailbox := rest } x) else none
      else some (toSession { s with mailbox := rest } x)
  | .write c =>
    match s.chSend c with
    | [] => none
    | x :: rest => some { s with chSend := upd s.chSend c rest, socket := upd s.socket c (s.socket c ++ [x]) }
  | .close c =>
    if s.closed c then none else some { s with closed := upd s.closed c true }
  | .writerStop c =>
    if s.closed c then
      some { s with chSend := upd s.chSend c [], lost := upd s.lost c (s.chSend c ++ s.lost c) }
    else none
  | .spillSend i =>
    match s.spill[i]? with
    | none => none
    | some x =>
      if full cfg s x.client then none
      else some (toSession { s with spill := s.spill.eraseIdx i } x)

/-- one atomic step of the network -/
def fire (cfg : Cfg) (s : St) (l : Label) : Option St := fireAt cfg s (nextSeq s) l

theorem fireAt_congr (cfg : Cfg) (s : St) (seqOf : Src → Nat → Nat) (l : Label)
    (h : ∀ σ c, seqOf σ c = nextSeq s σ c) : fireAt cfg s seqOf l = fire cfg s l := by
  have : seqOf = nextSeq s := funext fun σ => funext fun c => h σ c
  rw [this, fire]

/-- run a label sequence (none as soon as a label is not enabled) -/
def run (cfg : Cfg) : St → List Label → Option St
  | s, [] => some s
  | s, l :: ls => match fire cfg s l with
    | none => none
    | some s' => run cfg s' ls

/-- all schedules: states reachable from the initial state -/
inductive Reachable (cfg : Cfg) : St → Prop
  | init : Reachable cfg {}
  | step {s s' : St} (l : Label) : Reachable cfg s → fire cfg s l = some s' → Reachable cfg s'

def outL (s : St) (σ : Src) : List Item := match s.out σ with | some x => [x] | none => []

/-- everything between the issuing code of thread `σ` and client `c`'s socket, socket first -/
def pipe (s : St) (σ : Src) (c : Nat) : List Item :=
  s.socket c ++ (s.chSend c ++ (s.lost c ++ (s.mailbox ++ (s.transport σ.svc ++ (s.task σ.svc ++ outL s σ)))))

/-- the part of client `c`'s socket stream that originates from thread `σ` -/
def arrived (s : St) (σ : Src) (c : Nat) : List Item := (s.socket c).filter (fun x => x.src = σ)

end Cell2v.FifoNet
