/-
C05 — model of one client connection: pomelonet/server/session/session.go
(`ClientSession`: read / write / heartbeat goroutines, `Close`), the events it
posts to the owning front-end service through `pomelo.SessionsImpl`, and the
owner side (`impls.ClientSessions`: AddSession / ProcessMessage / RemoveSession,
id allocation through `common.SerialIdService`).

Concurrent core: threads with program counters (reader, writer, heartbeat, any
number of "kickers" = external callers of `Close`, e.g. `FrontSession.Kick`),
labelled steps `fire : St → Lbl → Option St`; a schedule is a `List Lbl`.
`Close()` is three steps per caller (lock; test-the-latch-and-mark; conn.Close +
post + unlock; written out per thread so that every step is a plain guarded update) so that the mutex is really what makes it idempotent.

The reader exists in two versions: `fx = true` is the code as it is now
(`defer s.Close()` — every exit of the read loop closes), `fx = false` is the
code before commit bde80b5 (D6: only a read error closed).

Modelled, not verified: Go channels/select (a closed `chanClose` or a tick are
"enabled labels", select picks any), `sync.Mutex` gives mutual exclusion,
`atomic` status accesses are single steps, `time.Ticker` delivers a tick every
10 s of the clock, `conn.Write` / `GetNextMessage` results are chosen by the
environment (label parameters); the heartbeat's send on a full `chSend` (9999
slots) parks it (`HPc.blk`); application pushes never find the queue full and
fewer than 999 owner tasks are queued (no other blocking send).
-/
namespace Cell2v.Session

/-- session status (`StatusStart` … `StatusClosed` = 1 … 4) -/
inductive Status | start | handshake | working | closed
  deriving DecidableEq, Repr

def Status.toNat : Status → Nat
  | .start => 1 | .handshake => 2 | .working => 3 | .closed => 4

/-- one decoded packet of an inbound frame, as far as `processPacket` looks at it -/
inductive Pkt
  | hs (jsonOk : Bool)            -- Handshake; does the JSON body parse
  | ack                           -- HandshakeAck
  | data (ok : Bool) (mid : Nat)  -- Data; does `message.Decode` succeed; its message id
  | hb                            -- Heartbeat
  | other                         -- Kick (type 5): no case in the switch
  deriving DecidableEq, Repr

/-- what `conn.GetNextMessage()` + `Decoder.Decode` produce -/
inductive Item
  | frame (ps : List Pkt)   -- decoded packets (possibly none: "Read no packets")
  | bad                     -- `Decoder.Decode` error (wrong type byte in a header, …)
  | rerr                    -- `GetNextMessage` error: EOF, read error, closed conn, bad/oversize header, short body
  deriving DecidableEq, Repr

/-- events posted to the owner's scheduler by `SessionsImpl` -/
inductive Ev | add | msg (mid : Nat) | remove
  deriving DecidableEq, Repr

inductive Tid | rd | wr | hb | kk
  deriving DecidableEq, Repr

/-- where a thread is inside `Close()` -/
inductive CPh
  | out      -- not inside Close
  | want     -- called Close, waiting for the mutex
  | locked   -- holds the mutex, about to test `chanClose`
  | fin      -- marked closed, about to conn.Close() and post OnSessionClose
  deriving DecidableEq, Repr

inductive RPc
  | top                      -- loop head, about to test the status
  | wait                     -- blocked in GetNextMessage
  | hold (it : Item)         -- GetNextMessage has its result, not yet returned to the loop
  | proc (ps : List Pkt)     -- processing the packets of a frame
  | errc                     -- read error: explicit `s.Close(); return`
  | dfr                      -- deferred Close
  | done
  deriving DecidableEq, Repr

inductive WPc | sel | inw | dfr | done
  deriving DecidableEq, Repr

/-- `blk`: parked in `s.chSend <- p` (queue full) -/
inductive HPc | sel | chk | snd | blk | done
  deriving DecidableEq, Repr

def hbMs : Nat := 10000

/-- capacity of `chSend` -/
def sendCap : Nat := 9999

structure St where
  status : Status
  closed : Bool          -- chanClose and chSend closed (same step)
  mutex : Bool
  connCloses : Nat       -- calls of conn.Close()
  posted : List Ev       -- posts to the owner's scheduler, in order
  sendq : Nat            -- buffered pending writes in chSend
  writes : Nat           -- completed writes of the writer
  now : Nat
  lastHb : Nat
  tickAt : Nat
  rd : RPc
  rdC : CPh
  wr : WPc
  wrC : CPh
  hb : HPc
  hbC : CPh
  kWant : Nat            -- external Close callers waiting for the mutex
  kC : CPh               -- the external caller inside Close (locked/fin) or out
  arrived : List Nat     -- ghost: message ids of every data packet handed to the reader, in arrival order
  deriving DecidableEq, Repr

inductive Lbl
  | rdTop | rdTake (it : Item) | rdRet | rdPkt (wok : Bool) | rdErrRet | rdEnd
  | wrTake | wrExit | wrRet (ok : Bool) | wrEnd
  | hbTick | tickDrop | hbChk | hbSnd | hbUnblk | hbExit
  | kick | push | advance (dt : Nat)
  | cLock (t : Tid) | cCheck (t : Tid) | cFin (t : Tid)
  deriving DecidableEq, Repr

def midsOfPkts : List Pkt → List Nat
  | [] => []
  | .data _ m :: r => m :: midsOfPkts r
  | _ :: r => midsOfPkts r

def midsOfItem : Item → List Nat
  | .frame ps => midsOfPkts ps
  | _ => []

def getC (s : St) : Tid → CPh
  | .rd => s.rdC | .wr => s.wrC | .hb => s.hbC | .kk => s.kC

/-- the reader leaves the loop: now through the deferred Close, before the fix straight out -/
def rdExit (fx : Bool) (s : St) : St :=
  if fx then { s with rd := .dfr, rdC := .want } else { s with rd := .done }

def fire (fx : Bool) (s : St) : Lbl → Option St
  -- reader -----------------------------------------------------------------
  | .rdTop =>
    match s.rd, s.rdC with
    | .top, .out => if s.status = .closed then some (rdExit fx s) else some { s with rd := .wait }
    | _, _ => none
  | .rdTake it =>
    match s.rd, s.rdC with
    | .wait, .out =>
      -- a closed conn only yields errors
      if s.connCloses = 0 ∨ it = .rerr then some { s with rd := .hold it, arrived := s.arrived ++ midsOfItem it } else none
    | _, _ => none
  | .rdRet =>
    match s.rd, s.rdC with
    | .hold .rerr, .out => some { s with rd := .errc, rdC := .want }
    | .hold .bad, .out => some (rdExit fx s)
    | .hold (.frame ps), .out => some { s with rd := .proc ps }
    | _, _ => none
  | .rdPkt wok =>
    match s.rd, s.rdC with
    | .proc [], .out => some { s with rd := .top }
    | .proc (.hs j :: rest), .out =>
      if wok = false then some (rdExit fx s)                            -- SendHandshakeResponse failed
      else if j = false then some (rdExit fx { s with status := .closed })  -- bad JSON: status Closed, error
      else some { s with status := .handshake, rd := .proc rest }
    | .proc (.ack :: rest), .out => some { s with status := .working, lastHb := s.now, rd := .proc rest }
    | .proc (.data ok mid :: rest), .out =>
      if s.status = .start ∨ s.status = .handshake then some { s with rd := .proc rest }   -- not yet ACKed: ignored
      else if ok = false then some (rdExit fx s)                         -- message.Decode error
      else some { s with posted := s.posted ++ [.msg mid], rd := .proc rest }
    | .proc (.hb :: rest), .out => some { s with lastHb := s.now, rd := .proc rest }
    | .proc (.other :: rest), .out => some { s with rd := .proc rest }
    | _, _ => none
  | .rdErrRet =>
    match s.rd, s.rdC with
    | .errc, .out => some (rdExit fx s)
    | _, _ => none
  | .rdEnd =>
    match s.rd, s.rdC with
    | .dfr, .out => some { s with rd := .done }
    | _, _ => none
  -- writer -----------------------------------------------------------------
  | .wrTake => if s.wr = .sel ∧ s.wrC = .out ∧ s.sendq > 0 then some { s with wr := .inw, sendq := s.sendq - 1 } else none
  | .wrExit => if s.wr = .sel ∧ s.wrC = .out ∧ s.closed = true then some { s with wr := .dfr, wrC := .want } else none
  | .wrRet ok =>
    if s.wr = .inw ∧ s.wrC = .out then
      (if ok then some { s with wr := .sel, writes := s.writes + 1 } else some { s with wr := .dfr, wrC := .want })
    else none
  | .wrEnd => if s.wr = .dfr ∧ s.wrC = .out then some { s with wr := .done } else none
  -- heartbeat --------------------------------------------------------------
  | .hbTick => if s.hb = .sel ∧ s.hbC = .out ∧ s.tickAt ≤ s.now then some { s with hb := .chk, tickAt := s.tickAt + hbMs } else none
  | .tickDrop =>
    -- the ticker's one-slot channel already holds an unconsumed tick: the next one is dropped
    if s.hb ≠ .sel ∧ s.tickAt + hbMs ≤ s.now then some { s with tickAt := s.tickAt + hbMs } else none
  | .hbChk =>
    if s.hb = .chk ∧ s.hbC = .out then
      (if s.status = .working ∧ ¬ (s.now < s.lastHb + 2 * hbMs) then some { s with hb := .snd, hbC := .want }
       else some { s with hb := .snd })
    else none
  | .hbSnd =>
    if s.hb = .snd ∧ s.hbC = .out then
      (if s.status = .working ∧ s.closed = false then
         (if s.sendq < sendCap then some { s with hb := .sel, sendq := s.sendq + 1 }
          else some { s with hb := .blk })   -- queue full: the heartbeat goroutine parks in the send
       else some { s with hb := .sel })     -- not Working: nothing; chSend closed: panic recovered in pushToSend
    else none
  | .hbUnblk =>
    -- a parked sender is released by room in the queue, or by Close closing chSend (panic, recovered in pushToSend)
    if s.hb = .blk ∧ s.hbC = .out ∧ s.closed = true then some { s with hb := .sel }
    else if s.hb = .blk ∧ s.hbC = .out ∧ s.sendq < sendCap then some { s with hb := .sel, sendq := s.sendq + 1 }
    else none
  | .hbExit => if s.hb = .sel ∧ s.hbC = .out ∧ s.closed = true then some { s with hb := .done } else none
  -- environment ------------------------------------------------------------
  | .kick => some { s with kWant := s.kWant + 1 }
  | .push => if s.status ≠ .closed ∧ s.closed = false then some { s with sendq := s.sendq + 1 } else some s
  | .advance dt => some { s with now := s.now + dt }
  -- Close() ----------------------------------------------------------------
  | .cLock .rd => if s.mutex = false ∧ s.rdC = .want then some { s with mutex := true, rdC := .locked } else none
  | .cLock .wr => if s.mutex = false ∧ s.wrC = .want then some { s with mutex := true, wrC := .locked } else none
  | .cLock .hb => if s.mutex = false ∧ s.hbC = .want then some { s with mutex := true, hbC := .locked } else none
  | .cLock .kk =>
    if s.mutex = false ∧ s.kWant > 0 ∧ s.kC = .out then some { s with mutex := true, kWant := s.kWant - 1, kC := .locked } else none
  | .cCheck .rd =>
    if s.rdC = .locked ∧ s.closed = true then some { s with mutex := false, rdC := .out }
    else if s.rdC = .locked ∧ s.closed = false then some { s with status := .closed, closed := true, rdC := .fin }
    else none
  | .cCheck .wr =>
    if s.wrC = .locked ∧ s.closed = true then some { s with mutex := false, wrC := .out }
    else if s.wrC = .locked ∧ s.closed = false then some { s with status := .closed, closed := true, wrC := .fin }
    else none
  | .cCheck .hb =>
    if s.hbC = .locked ∧ s.closed = true then some { s with mutex := false, hbC := .out }
    else if s.hbC = .locked ∧ s.closed = false then some { s with status := .closed, closed := true, hbC := .fin }
    else none
  | .cCheck .kk =>
    if s.kC = .locked ∧ s.closed = true then some { s with mutex := false, kC := .out }
    else if s.kC = .locked ∧ s.closed = false then some { s with status := .closed, closed := true, kC := .fin }
    else none
  | .cFin .rd =>
    if s.rdC = .fin ∧ True then
      some { s with connCloses := s.connCloses + 1, posted := s.posted ++ [.remove], mutex := false, rdC := .out } else none
  | .cFin .wr =>
    if s.wrC = .fin ∧ True then
      some { s with connCloses := s.connCloses + 1, posted := s.posted ++ [.remove], mutex := false, wrC := .out } else none
  | .cFin .hb =>
    if s.hbC = .fin ∧ True then
      some { s with connCloses := s.connCloses + 1, posted := s.posted ++ [.remove], mutex := false, hbC := .out } else none
  | .cFin .kk =>
    if s.kC = .fin ∧ True then
      some { s with connCloses := s.connCloses + 1, posted := s.posted ++ [.remove], mutex := false, kC := .out } else none

/-- a connection accepted at time `t`: `NewClientSession` has posted OnSessionCreate, `Handle()` started the three goroutines -/
def initAt (t : Nat) : St :=
  { status := .start, closed := false, mutex := false, connCloses := 0, posted := [.add], sendq := 0, writes := 0,
    now := t, lastHb := 0, tickAt := t + hbMs, rd := .top, rdC := .out, wr := .sel, wrC := .out, hb := .sel, hbC := .out,
    kWant := 0, kC := .out, arrived := [] }

def init : St := initAt 0

/-- run a schedule; `none` if some label was not enabled -/
def runL (fx : Bool) (s : St) : List Lbl → Option St
  | [] => some s
  | l :: ls => match fire fx s l with
    | none => none
    | some s' => runL fx s' ls

/-! ### projections used by the theorems -/

def msgsOf : List Ev → List Nat
  | [] => []
  | .msg k :: r => k :: msgsOf r
  | _ :: r => msgsOf r

def removes : List Ev → Nat
  | [] => 0
  | .remove :: r => removes r + 1
  | _ :: r => removes r

def adds : List Ev → Nat
  | [] => 0
  | .add :: r => adds r + 1
  | _ :: r => adds r

/-- message ids of packets the reader still has in hand -/
def pendMids : RPc → List Nat
  | .hold it => midsOfItem it
  | .proc ps => midsOfPkts ps
  | _ => []

/-- the steps that need no further input from the peer or the application: every
thread step, the three phases of Close, and — once the conn is closed — the
failing read.  (`kick`, `push`, `advance`, and a `rdTake` on an open conn are the
environment's.) -/
def internalLbls : List Lbl :=
  [.rdTop, .rdRet, .rdPkt true, .rdPkt false, .rdErrRet, .rdEnd,
   .wrTake, .wrExit, .wrRet true, .wrRet false, .wrEnd,
   .hbTick, .hbChk, .hbSnd, .hbUnblk, .hbExit,
   .cLock .rd, .cLock .wr, .cLock .hb, .cLock .kk,
   .cCheck .rd, .cCheck .wr, .cCheck .hb, .cCheck .kk,
   .cFin .rd, .cFin .wr, .cFin .hb, .cFin .kk]

/-- no thread can move -/
def stuck (fx : Bool) (s : St) : Bool :=
  internalLbls.all (fun l => (fire fx s l).isNone) &&
  (s.connCloses == 0 || (fire fx s (.rdTake .rerr)).isNone)

/-! ### owner side -/

/-- what the `ISessionsHandler` of the owning service sees -/
inductive OEv | add | msg (mid : Nat) | msgNil (mid : Nat) | remove
  deriving DecidableEq, Repr

/-- `ClientSessions` consuming the posted events of one connection in order.
`live` = the FrontSession is in the map.  `g = true`: `ProcessMessage` drops a
message whose session is gone; `g = false`: it calls the handler with a nil
FrontSession (`msgNil`).  A remove for a session that is not in the map is only logged. -/
def view (g : Bool) : Bool → List Ev → List OEv
  | _, [] => []
  | _, .add :: r => .add :: view g true r
  | true, .msg k :: r => .msg k :: view g true r
  | false, .msg k :: r => if g then view g false r else .msgNil k :: view g false r
  | true, .remove :: r => .remove :: view g false r
  | false, .remove :: r => view g false r

def omsgs : List OEv → List Nat
  | [] => []
  | .msg k :: r => k :: omsgs r
  | _ :: r => omsgs r

/-! ### id allocation (`SerialIdService.AllocId`, counter modulo `M = 2^32`) -/

/-- one `AllocId`: returns (id, new counter) -/
def allocId (M next : Nat) : Nat × Nat :=
  let v := (next + 1) % M
  if v = 0 then (1, 1) else (v, v)

/-- counter after `n` allocations starting from `NewSerialIdService` (nextId = 1) -/
def counterAfter (M : Nat) : Nat → Nat
  | 0 => 1
  | n + 1 => (allocId M (counterAfter M n)).2

/-- id returned by the `n`-th allocation (n = 0 is the first) -/
def idAt (M n : Nat) : Nat := (allocId M (counterAfter M n)).1

/-! ### the owner's sessions map (`impls.ClientSessions.sessions`), any number of connections -/

/-- `ClientSessions`: the id counter and the map id ↦ FrontSession (here: ↦ the connection it wraps).
All lookups of the Go code are by id (`session.GetId()`), never by object. -/
structure Own where
  counter : Nat := 1
  live : List (Nat × Nat) := []

/-- `findSession(id)` / `s.sessions[id]` -/
def Own.lookup (o : Own) (id : Nat) : Option Nat := (o.live.find? (fun p => p.1 == id)).map (·.2)

/-- `AddSession`: allocate, `SetId`, store (a map store overwrites an entry with the same id); returns the id -/
def Own.add (M : Nat) (o : Own) (k : Nat) : Own × Nat :=
  let a := allocId M o.counter
  ({ counter := a.2, live := (a.1, k) :: o.live.filter (fun p => p.1 != a.1) }, a.1)

/-- `RemoveSession(session)` with `session.GetId() = id`: the entry found under that id is deleted and ITS FrontSession is
what the handler and the close callbacks get; `none`: "remove a session not exist", nothing happens -/
def Own.remove (o : Own) (id : Nat) : Own × Option Nat :=
  match o.lookup id with
  | none => (o, none)
  | some k => ({ o with live := o.live.filter (fun p => p.1 != id) }, some k)

/-- `PushMsg(ids)`: the connections whose `Session.Push` is called, in order (an id nobody holds is skipped: `onSessionMissed`) -/
def Own.pushTargets (o : Own) (ids : List Nat) : List Nat := ids.filterMap o.lookup

/-! ### the handler's per-session close callbacks (`impls.HandlerComponent.onCloseCBs`, handler.go) and `RemoveSession` as a whole -/

/-- `HandlerComponent.onCloseCBs`: id ↦ the callback registered for it (here: its tag) -/
structure Hnd where
  cbs : List (Nat × Nat) := []

/-- `AddOnSessionClose(netId, cb)`: a map store (overwrites what was registered under the id) -/
def Hnd.register (h : Hnd) (id cb : Nat) : Hnd := { cbs := (id, cb) :: h.cbs.filter (fun p => p.1 != id) }

def Hnd.lookup (h : Hnd) (id : Nat) : Option Nat := (h.cbs.find? (fun p => p.1 == id)).map (·.2)

/-- `HandlerComponent.OnSessionRemove(fs)`: the callback registered under the id runs, THEN its entry is deleted — a callback
that panics leaves its entry behind (`panics`); nothing registered: nothing happens.  Returns the callback that ran. -/
def Hnd.onRemove (h : Hnd) (id : Nat) (panics : Bool) : Hnd × Option Nat :=
  match h.lookup id with
  | none => (h, none)
  | some cb => (if panics then h else { cbs := h.cbs.filter (fun q => q.1 != id) }, some cb)

/-- what the callbacks of one `RemoveSession` did -/
structure RmOut where
  conn : Option Nat := none      -- the connection whose FrontSession was removed (`none`: "remove a session not exist")
  handlerCb : Option Nat := none -- the per-session close callback that ran
  sessionsCb : Bool := false     -- `ClientSessions.onCloseCB` ran
  deriving DecidableEq, Repr

/-- `ClientSessions.RemoveSession(session)` with `session.GetId() = id` on the owner goroutine: delete the map entry, then
`handler.OnSessionRemove`, then `onCloseCB` (a panic of the handler's callback unwinds past it; `sche` recovers) -/
def removeSession (o : Own) (h : Hnd) (id : Nat) (panics : Bool) : Own × Hnd × RmOut :=
  match o.remove id with
  | (_, none) => (o, h, {})
  | (o', some k) =>
    let r := h.onRemove id panics
    (o', r.1, { conn := some k, handlerCb := r.2, sessionsCb := !(panics && r.2.isSome) })

/-! ### kick requests (`ClientSessions.Kick` / `IKickHandler` / `ClientSessions.DoKick`, sessions.go) -/

/-- what `ClientSessions.Kick(id)` does -/
inductive KickOut
  | miss                 -- nothing registered under the id: nothing happens
  | close (k : Nat)      -- no kick handler: the default, `session.Kick()` = `Close()` of connection `k`, at once
  | handler (id : Nat)   -- a custom `IKickHandler` was set: it is handed the id (the mmo gate: notice now, `DoKick` later)
  deriving DecidableEq, Repr

/-- `ClientSessions.Kick(id)`: `findSession`, then the default kick or the custom handler -/
def Own.kick (o : Own) (kh : Bool) (id : Nat) : KickOut :=
  match o.lookup id with
  | none => .miss
  | some k => if kh then .handler id else .close k

/-- `ClientSessions.DoKick(id)`: `findSession`, then `session.Kick()` of what was found.  The table is NOT touched: the
entry stays until the `RemoveSession` that the Close posts is run (it is what finds the FrontSession for the handler and
the close callbacks).  Returns the table and the connection whose session is closed. -/
def Own.doKick (o : Own) (id : Nat) : Own × Option Nat := (o, o.lookup id)

/-- a `DoKick` that takes the entry out of the table itself before closing the session (defect witness) -/
def Own.doKickDeleting (o : Own) (id : Nat) : Own × Option Nat :=
  match o.lookup id with
  | none => (o, none)
  | some k => ({ o with live := o.live.filter (fun p => p.1 != id) }, some k)

end Cell2v.Session
