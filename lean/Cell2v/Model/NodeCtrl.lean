/-
C12 — model of the node retirement controller
  nodectrl/nodectrl.go   (NodeCtrl: Start, makeServices, checkRetireSupport, queryRetire,
                          sendCmd, ProcessCmd, ProcessServiceCmd, onServiceRetired, setState)
  nodectrl/cmds.go       (StatCmd, RetireCmd, ExitCmd, WebCmdNodes, WebCmdRetire, WebCmdExit)
  nodectrl/cmd.go        (Cmds.Handle: unknown command -> "<op> not support")
  nodectrl/service_entry.go, service.go (ctrl.cmd / ctrl.servicecmd -> ProcessCmd / ProcessServiceCmd)
  node/builtin/ctrlcmd.go (a hosted NodeService answers ctrl.cmd through its ICtrlCmdListener)
  node/app/stateutils.go  (NotifyServiceRetired: ctrl.servicecmd {Name, "retired"})

The controller is sequential: every command, notification, query answer and the
StopNode completion run one at a time (on the admin service's goroutine), so the
model is a deterministic step function `step : St → Op → St × List Evt`.

`step true` is the code as it is now (commit 7a7d699: `onServiceRetired` sets
Retired only from Working/Retiring); `step false` is the code before that
repair (defect D3), kept for the witness theorems.

Modelled, not verified: proto.actor delivers each request/response once; the
request layer (`actorex/service`) completes an outstanding request either with
the answer or, after 30 s, with a timeout (op `tick`); `INodeApp.StopNode`
completes its callback at most once per call; hosted service names are distinct.
-/
namespace Cell2v.NodeCtrl

/-- nodectrl/define.NodeState (Init is never used by NodeCtrl) -/
inductive NS | working | retiring | retired | exiting | exited
  deriving DecidableEq, Repr

def NS.rank : NS → Nat
  | .working => 1 | .retiring => 2 | .retired => 3 | .exiting => 4 | .exited => 5

def NS.name : NS → String
  | .working => "working" | .retiring => "retiring" | .retired => "retired"
  | .exiting => "exiting" | .exited => "exited"

/-- What a hosted service is, as far as the controller can tell.
`raw`: answers `queryretire` whenever it likes (op `qack`), possibly never;
`nodeOk`/`nodeNo`/`nodeNoListener`: a NodeService whose ctrl.cmd entry answers at once
with "ok" / something else / "no listener" / "" (a listener that does not know `queryretire`);
`dead`: configured but `GetService` is nil when the node starts (it may become resolvable later). -/
inductive Kind | raw | nodeOk | nodeNo | nodeNoListener | nodeEmpty | dead
  deriving DecidableEq, Repr

def Kind.reachable : Kind → Bool
  | .dead => false | _ => true

/-- How the hosting application completes `StopNode`: `later` — the completion callback runs
some time after `StopNode` returned (op `stopDone`; possibly never); `inlineOk` / `inlineFail` —
it runs *inside* `StopNode`, before it returns, with succ = true / false (the real
`baseapp.App.Stop` does that when every module stops synchronously). -/
inductive StopMode | later | inlineOk | inlineFail
  deriving DecidableEq, Repr

/-- `NodeCtrl.services` (a map name → `ServiceState{State, RetireSupport}`) is kept as index
sets over the static list of hosted services: service `i` (name `s<i>`) has
`RetireSupport` iff `i ∈ support`, `State == Retired` iff `i ∈ retired`, and the
controller's `queryretire` request to it is outstanding iff `i ∈ qpend`. -/
structure St where
  st : NS                 -- NodeCtrl.state
  kinds : List Kind       -- the hosted services (FilterSelfServices), never changes
  qpend : List Nat
  support : List Nat
  retired : List Nat
  allSup : Bool           -- NodeCtrl.retireSupport
  stopPend : Nat          -- StopNode calls whose completion callback has not run yet
  stopMode : StopMode     -- the environment's StopNode regime, never changes
  unres : List Nat        -- environment: hosted services for which `INodeApp.GetService` currently returns nil
  deriving DecidableEq, Repr

inductive Cmd | stat | retire | exit | webNodes | webRetire | webExit | other
  deriving DecidableEq, Repr

inductive Op
  | cmd (c : Cmd)                 -- ctrl.cmd to the admin service
  | qack (i : Nat) (ok : Bool)    -- service i answers the outstanding queryretire; ok: the result is exactly "ok"
  | svcRetired (i : Nat)          -- ctrl.servicecmd {s<i>, "retired"}; i ≥ number of services: a name the node does not host
  | svcOther (i : Nat)            -- ctrl.servicecmd with any other command
  | stopDone (succ : Bool)        -- the INodeApp completes the oldest outstanding StopNode with `succ`
  | tick                          -- > 30 s pass: every outstanding request of the admin service times out
  | setRes (i : Nat) (up : Bool)  -- environment: service i becomes resolvable (up) / unresolvable through GetService
  deriving DecidableEq, Repr

inductive SCmd | queryretire | retire
  deriving DecidableEq, Repr

inductive Reply | ok | refused | info (s : NS)
  deriving DecidableEq, Repr

inductive Evt
  | pub (s : NS)                  -- INodeApp.UpdateNodeState
  | stopNode                      -- INodeApp.StopNode
  | send (i : Nat) (c : SCmd)     -- ctrl.cmd sent to hosted service i
  | reply (r : Reply)             -- answer to the ctrl.cmd / ctrl.servicecmd request
  deriving DecidableEq, Repr

def reachableAt (kinds : List Kind) (i : Nat) : Bool :=
  match kinds[i]? with
  | some k => k.reachable
  | none => false

/-- `SendCmdToAllSelfServices` / `checkRetireSupport`: one `sendCmd` per hosted service, in
configuration order; `sendCmd` sends nothing when `GetService` returns nil (best effort: the
caller is not told). -/
def tellAll (c : SCmd) (n : Nat) (unres : List Nat) : List Evt :=
  ((List.range n).filter (fun i => !unres.contains i)).map (fun i => Evt.send i c)

/-- `checkAllRetireSupport` / `isAllServiceRetired`: every hosted service is in the set -/
def covers (n : Nat) (l : List Nat) : Bool := (List.range n).all (fun i => l.contains i)

/-- RetireCmd.Handle: guards, `setState(Retiring)`, then the best-effort fan-out, reply "ok" -/
def retireCmd (s : St) : St × List Evt :=
  if s.st ≠ .working ∧ s.st ≠ .retiring then (s, [.reply .refused])
  else if !s.allSup then (s, [.reply .refused])
  else ({ s with st := .retiring }, [.pub .retiring] ++ tellAll .retire s.kinds.length s.unres ++ [.reply .ok])

/-- ExitCmd.Handle: `setState(Exiting)`, then `StopNode(cb)`, then reply -/
def exitCmd (s : St) : St × List Evt :=
  if s.st ≠ .retired then (s, [.reply .refused])
  else match s.stopMode with
    | .later => ({ s with st := .exiting, stopPend := s.stopPend + 1 }, [.pub .exiting, .stopNode, .reply .ok])
    -- the callback runs inside StopNode: `if succ { setState(Exited) }`, then the handler returns "ok"
    | .inlineOk => ({ s with st := .exited }, [.pub .exiting, .stopNode, .pub .exited, .reply .ok])
    | .inlineFail => ({ s with st := .exiting }, [.pub .exiting, .stopNode, .reply .ok])

/-- WebCmdRetire.Handle (a textual duplicate of RetireCmd.Handle in cmds.go) -/
def webRetireCmd (s : St) : St × List Evt :=
  if s.st ≠ .working ∧ s.st ≠ .retiring then (s, [.reply .refused])
  else if !s.allSup then (s, [.reply .refused])
  else ({ s with st := .retiring }, [.pub .retiring] ++ tellAll .retire s.kinds.length s.unres ++ [.reply .ok])

/-- WebCmdExit.Handle (a textual duplicate of ExitCmd.Handle) -/
def webExitCmd (s : St) : St × List Evt :=
  if s.st ≠ .retired then (s, [.reply .refused])
  else match s.stopMode with
    | .later => ({ s with st := .exiting, stopPend := s.stopPend + 1 }, [.pub .exiting, .stopNode, .reply .ok])
    -- the callback runs inside StopNode: `if succ { setState(Exited) }`, then the handler returns "ok"
    | .inlineOk => ({ s with st := .exited }, [.pub .exiting, .stopNode, .pub .exited, .reply .ok])
    | .inlineFail => ({ s with st := .exiting }, [.pub .exiting, .stopNode, .reply .ok])

/-- the callback of `queryRetire`: runs only when the request completes without error, and
only "ok" has an effect (`RetireSupport = true`, then `retireSupport` is recomputed) -/
def queryAck (s : St) (i : Nat) (ok : Bool) : St × List Evt :=
  if !s.qpend.contains i then (s, [])
  else if ok then
    let sup := i :: s.support
    ({ s with qpend := s.qpend.filter (· != i), support := sup, allSup := covers s.kinds.length sup }, [])
  else ({ s with qpend := s.qpend.filter (· != i) }, [])

/-- ProcessServiceCmd "retired" = onServiceRetired; `fixed = false` is the code before 7a7d699.
An unknown name is ignored; the reply is "ok" in every case. -/
def serviceRetired (fixed : Bool) (s : St) (i : Nat) : St × List Evt :=
  if i < s.kinds.length then
    let r := i :: s.retired
    if covers s.kinds.length r ∧ (!fixed ∨ s.st = .working ∨ s.st = .retiring)
    then ({ s with retired := r, st := .retired }, [.pub .retired, .reply .ok])
    else ({ s with retired := r }, [.reply .ok])
  else (s, [.reply .ok])

/-- the completion callback handed to StopNode -/
def stopDone (s : St) (succ : Bool) : St × List Evt :=
  if s.stopPend = 0 then (s, [])
  else if succ then ({ s with stopPend := s.stopPend - 1, st := .exited }, [.pub .exited])
  else ({ s with stopPend := s.stopPend - 1 }, [])

def step (fixed : Bool) (s : St) : Op → St × List Evt
  | .cmd .stat => (s, [.reply (.info s.st)])
  | .cmd .webNodes => (s, [.reply (.info s.st)])
  | .cmd .retire => retireCmd s
  | .cmd .exit => exitCmd s
  | .cmd .webRetire => webRetireCmd s
  | .cmd .webExit => webExitCmd s
  | .cmd .other => (s, [.reply .refused])
  | .qack i ok => queryAck s i ok
  | .svcRetired i => serviceRetired fixed s i
  | .svcOther _ => (s, [.reply .ok])
  | .stopDone succ => stopDone s succ
  | .tick => ({ s with qpend := [] }, [])
  | .setRes i up => ({ s with unres := if up then s.unres.filter (· != i) else i :: s.unres }, [])

def run (fixed : Bool) (s : St) : List Op → St × List Evt
  | [] => (s, [])
  | o :: os =>
    let r1 := step fixed s o
    let r2 := run fixed r1.1 os
    (r2.1, r1.2 ++ r2.2)

/-! ### start-up: `NewNodeCtrl`, `Start` (makeServices) and the probe 3 s later -/

/-- the controller right after the probe `checkRetireSupport` sent its queries -/
def start (kinds : List Kind) (mode : StopMode := .later) : St :=
  { st := .working, kinds := kinds, qpend := (List.range kinds.length).filter (reachableAt kinds),
    support := [], retired := [], allSup := false, stopPend := 0, stopMode := mode,
    unres := (List.range kinds.length).filter (fun i => !reachableAt kinds i) }

/-- the NodeService kinds answer the probe at once (inside the same quiescent period), in
index order; these answers are ordinary `qack` operations at the head of the history -/
def autoAcks : Nat → List Kind → List Op
  | _, [] => []
  | i, k :: rest =>
    (match k with
     | .nodeOk => [Op.qack i true]
     | .nodeNo => [Op.qack i false]
     | .nodeNoListener => [Op.qack i false]
     | .nodeEmpty => [Op.qack i false]
     | _ => []) ++ autoAcks (i + 1) rest

/-- everything that happened to the node since the probe: the immediate answers, then `ops` -/
def history (kinds : List Kind) (ops : List Op) : List Op := autoAcks 0 kinds ++ ops

/-- a whole case: `Start`, the probe, then the history -/
def exec (fixed : Bool) (kinds : List Kind) (ops : List Op) (mode : StopMode := .later) : St × List Evt :=
  let r := run fixed (start kinds mode) (history kinds ops)
  (r.1, tellAll .queryretire kinds.length (start kinds mode).unres ++ r.2)

/-- state and events after `Start` and the retire-support probe (what the driver starts from) -/
def boot (fixed : Bool) (kinds : List Kind) (mode : StopMode := .later) : St × List Evt :=
  exec fixed kinds [] mode

/-! ### the node's service list: `App.FilterSelfServices` (node/app/app.go) and `NodeCtrl.makeServices`

`makeServices` enters every name `FilterSelfServices` hands it into `NodeCtrl.services`, without
looking at the `*config.ServiceInfo`; `FilterSelfServices` walks the node's `Services:` list in
order and skips the names that have no entry in the `services:` table.  So what the controller
hosts - probes, tells, waits for - is exactly the configured names, whatever their attributes
say (a frontend/gate is hosted like a backend). -/

/-- node/config.ServiceInfo: the service type (an index), the `Frontend` flag, whether a tcp /
a ws client address is configured -/
structure SvcCfg where
  typ : Nat := 0
  frontend : Bool := false
  clientAddr : Bool := false
  wsAddr : Bool := false
  deriving DecidableEq, Repr

/-- one name of the node's `Services:` list -/
inductive Entry
  | unconfigured                      -- no entry in the services table: `FilterSelfServices` skips it
  | hosted (cfg : SvcCfg) (k : Kind)  -- configured with `cfg`; the service behind it behaves like `k`
  deriving DecidableEq, Repr

def Entry.isHosted : Entry → Bool
  | .hosted _ _ => true | .unconfigured => false

/-- rewrite the attributes of every configured entry -/
def Entry.mapCfg (f : SvcCfg → SvcCfg) : Entry → Entry
  | .hosted c k => .hosted (f c) k | .unconfigured => .unconfigured

/-- `FilterSelfServices` with the filter of `makeServices`: the tracked services, in list order
(service `s<i>` of the controller is the `i`-th configured name) -/
def hostedOf : List Entry → List Kind
  | [] => []
  | .unconfigured :: r => hostedOf r
  | .hosted _ k :: r => k :: hostedOf r

/-- the controller's index of the `j`-th name of the list: the number of configured names before it -/
def hostIdx (lst : List Entry) (j : Nat) : Nat := (lst.take j).countP Entry.isHosted

/-- a whole case from the node's configuration: `Start` (makeServices over the real service
list), the probe, then the history -/
def execCfg (fixed : Bool) (lst : List Entry) (ops : List Op) (mode : StopMode := .later) : St × List Evt :=
  exec fixed (hostedOf lst) ops mode

/-! ### observations used by the theorems -/

def pubRanks (es : List Evt) : List Nat :=
  es.filterMap (fun e => match e with | .pub s => some s.rank | _ => none)

def stops (es : List Evt) : Nat := es.countP (· == .stopNode)

/-! ### node/app `App.UpdateNodeState` and the cluster provider

`NodeCtrl.setState` hands every state change to `INodeApp.UpdateNodeState`; the real
`node/app.App.UpdateNodeState` passes it to `provider.UpdateClusterState(state)` exactly once
and ignores the error: a publication the registry refuses is dropped — it is never retried,
never repeated, never reordered.  The environment is a fault script: the k-th provider call
of the node's life fails iff the k-th entry is `true` (an exhausted script: the provider works). -/

/-- the states the provider delivered, in order -/
def delivered : List Bool → List NS → List NS
  | _, [] => []
  | [], s :: rest => s :: delivered [] rest
  | true :: sc, _ :: rest => delivered sc rest
  | false :: sc, s :: rest => s :: delivered sc rest

/-- the states the provider refused (the error `App.UpdateNodeState` ignores), in order -/
def lostOf : List Bool → List NS → List NS
  | _, [] => []
  | [], _ :: rest => lostOf [] rest
  | true :: sc, s :: rest => s :: lostOf sc rest
  | false :: sc, _ :: rest => lostOf sc rest

/-- the fault script after `k` provider calls -/
def scriptAfter (sc : List Bool) (k : Nat) : List Bool := sc.drop k

/-- what the cluster has been shown over a whole case: the provider's view of `exec` -/
def clusterView (sc : List Bool) (es : List Evt) : List NS :=
  delivered sc (es.filterMap (fun e => match e with | .pub s => some s | _ => none))

end Cell2v.NodeCtrl
