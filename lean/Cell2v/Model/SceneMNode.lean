import Cell2v.Model.SceneM
/-!
The scene manager as the node runs it: the system of Model/SceneM.lean plus

* the public-scene table of `publicscenes.go` (`PublicScenes.scenes`, built by `Init` through
  `addPublicScene`: an entry that exists is kept, the first one wins),
* a whole round of the keeper, `PublicScenes.Update`: `trySpawnScene` for EVERY entry of the table, the
  table (a Go map) being visited in some order and every `SpawnScene` visiting the service map in
  its own order,
* the three 1 s timers of the service: `SceneServiceMgr.Start` arms the keep-alive check (`onUpdate`),
  `OnServiceRefresh → CheckToSpawnPublicScenes → World.TrySpawnPublicScenes → PublicScenes.Start`
  arms the keeper, once (`if p.timerUpdate != 0 { return }`), and the request layer
  (`actorex/service`: `tryStartCheckTimer` / `checkExpired`) arms its expiry check with the first request:
  a request not answered 30 s after it was sent is completed with `ErrTimeout` — for the scene manager
  that is a failed answer — and the check cancels itself when it finds no request in flight.  A timer of `utils/timer` is a
  `time.AfterFunc` that puts the timer object on the run service's queue; the service's loop takes it
  off, runs the callback and only then arms it again (`Mgr.Do`): so however late the queue is
  served a timer fires once, and next not before another full period after it ran.

Core Lean only (linked into `modeld_c19`).
-/
namespace Cell2v.SceneM

/-! ### `FindIdleService` exactly as written

The Go loop keeps the best service so far in a string and uses the empty string for "none yet"
(`if idlest == "" || weight < curWeight`), and `AllocScene` reads an empty result as "no service".
`findIdle` (Model/SceneM.lean) uses an option instead.  Here the loop is mirrored literally, service 0
standing for the empty service id; `findIdleGo_eq_findIdle` shows that the two agree whenever no service is
registered under the empty id, and `empty_service_id_breaks_placement` what happens otherwise. -/

def findIdleGoLoop (key : Nat → Nat) : List (Nat × Stat) → Nat × Nat → Nat × Nat
  | [], acc => acc
  | (k, v) :: rest, acc =>
    if !v.working then findIdleGoLoop key rest acc
    else if acc.1 == 0 || decide (v.busy key < acc.2) then findIdleGoLoop key rest (k, v.busy key)
    else findIdleGoLoop key rest acc

/-- `FindIdleService` + the `idleService == ""` test of `AllocScene` -/
def findIdleGo (key : Nat → Nat) (order : List (Nat × Stat)) : Option Nat :=
  let r := findIdleGoLoop key order (0, 0)
  if r.1 == 0 then none else some r.1

/-- `addPublicScene(cfgId, reqNum)`: an existing entry is kept -/
def addPublic (t : List (Nat × Nat)) (cfg n : Nat) : List (Nat × Nat) :=
  if t.any (fun e => e.1 == cfg) then t else t ++ [(cfg, n)]

def addPublics (t : List (Nat × Nat)) (es : List (Nat × Nat)) : List (Nat × Nat) :=
  es.foldl (fun t e => addPublic t e.1 e.2) t

/-- `PublicScenes.Init`: the entries of `config.PerfTest`, then those of `config.EnablePublicScene` -/
def initTable (perf pub : Bool) : List (Nat × Nat) :=
  let t := if perf then addPublics [] [(100, 1), (101, 50), (102, 50)] else []
  if pub then addPublics t [(100, 1), (101, 5), (102, 5)] else t

/-- period of all three timers (`time.Second`), ms -/
def timerPeriod : Nat := 1000

/-- `RequestTimeout` of actorex/service, ms -/
def requestTimeout : Nat := 30000

structure Node where
  sys : Sys
  table : List (Nat × Nat)      -- PublicScenes.scenes: configuration ↦ required number
  tickDue : Nat                 -- when the keep-alive timer (armed by `SceneServiceMgr.Start`) is next put on the queue
  keeperDue : Option Nat        -- the same for the keeper's timer; `none`: not started (`timerUpdate == 0`)
  expiryDue : Option Nat        -- the same for the request layer's expiry check; `none`: not armed (`timerCheckExpired == 0`)
  deadlines : List (Nat × Nat)  -- scene id of an allocation request ↦ `RequestWaitResponse.Timeout`

/-- `NewService` + `Start` at time 0 -/
def Node.init (perf pub : Bool) : Node :=
  { sys := Sys.init, table := initTable perf pub, tickDue := timerPeriod, keeperDue := none, expiryDue := none, deadlines := [] }

/-- the system moved from `n.sys` to `s'`: what `doRequestEx` did for every request sent meanwhile (all at the
present instant): its deadline is noted, and the expiry check is armed if it is not (`tryStartCheckTimer`) -/
def Node.withSys (n : Node) (s' : Sys) : Node :=
  let sent := s'.pending.filter (fun p => !(n.sys.pending.any (fun q => q.sid == p.sid)))
  { n with sys := s'
           deadlines := n.deadlines ++ sent.map (fun p => (p.sid, n.sys.m.now + requestTimeout))
           expiryDue := if sent.isEmpty then n.expiryDue else
             match n.expiryDue with
             | some d => some d
             | none => some (n.sys.m.now + timerPeriod) }

/-- one entry of the table as `Update` meets it, with the order in which its `SpawnScene` visits the service map -/
abbrev Visit := (Nat × Nat) × List (Nat × Stat)

def runVisits (s : Sys) (visits : List Visit) : Sys :=
  visits.foldl (fun s v => (s.keeper v.1.1 v.1.2 v.2).1) s

/-- `PublicScenes.Update`: `trySpawnScene` for every entry, in the order the map yields them -/
def Node.update (n : Node) (visits : List Visit) : Node := n.withSys (runVisits n.sys visits)

/-- `PublicScenes.Start` -/
def Node.startKeeper (n : Node) : Node :=
  match n.keeperDue with
  | some _ => n
  | none => { n with keeperDue := some (n.sys.m.now + timerPeriod) }

/-- the keep-alive timer is taken off the queue, if it is there -/
def Node.fireTick (n : Node) : Node :=
  if n.sys.m.now ≥ n.tickDue then { n with sys := n.sys.lift .tick, tickDue := n.sys.m.now + timerPeriod } else n

def dueNow (now : Nat) : Option Nat → Bool
  | some d => decide (now ≥ d)
  | none => false

def Node.keeperQueued (n : Node) : Bool := dueNow n.sys.m.now n.keeperDue

def Node.expiryQueued (n : Node) : Bool := dueNow n.sys.m.now n.expiryDue

/-- the keeper's timer is taken off the queue, if it is there -/
def Node.fireKeeper (n : Node) (visits : List Visit) : Node :=
  if n.keeperQueued then { (n.update visits) with keeperDue := some (n.sys.m.now + timerPeriod) } else n

/-- the requests `checkExpired` completes with `ErrTimeout` now (`one.Timeout < now`) -/
def Node.expired (n : Node) : List Pend :=
  n.sys.pending.filter fun p =>
    match n.deadlines.find? (fun e => e.1 == p.sid) with
    | some e => decide (e.2 < n.sys.m.now)
    | none => false

/-- the expiry check is taken off the queue, if it is there: with no request in flight it cancels itself,
else every request past its deadline gets a failed answer -/
def Node.fireExpiry (n : Node) : Node :=
  if n.expiryQueued then
    if n.sys.pending.isEmpty then { n with expiryDue := none }
    else { n with sys := n.expired.foldl (fun s p => s.reply p.sid false) n.sys
                  expiryDue := some (n.sys.m.now + timerPeriod) }
  else n

inductive TK where
  | tick | keeper | expiry
  deriving DecidableEq, Repr

def Node.fire (visits : List Visit) (n : Node) : TK → Node
  | .tick => n.fireTick
  | .keeper => n.fireKeeper visits
  | .expiry => n.fireExpiry

/-- the service's loop serves the timer queue: what is on it runs, in queue order -/
def Node.timers (n : Node) (order : List TK) (visits : List Visit) : Node := order.foldl (Node.fire visits) n

inductive NEv where
  | sys (e : SEv)                                     -- any event of the system (a refresh also starts the keeper)
  | addPublic (cfg n : Nat)                           -- addPublicScene
  | setOne (cfg n : Nat)                              -- the table is replaced by one entry (the harness's `keeper` op)
  | update (visits : List Visit)                      -- PublicScenes.Update
  | timers (order : List TK) (visits : List Visit)    -- the timer queue is served
  deriving Repr

def Node.step (n : Node) : NEv → Node
  | .sys (.refresh svc k) => (n.withSys (n.sys.step (.refresh svc k))).startKeeper
  | .sys e => n.withSys (n.sys.step e)
  | .addPublic cfg k => { n with table := addPublic n.table cfg k }
  | .setOne cfg k => { n with table := [(cfg, k)] }
  | .update visits => n.update visits
  | .timers order visits => n.timers order visits

def Node.run (n : Node) (evs : List NEv) : Node := evs.foldl Node.step n

/-- the visits of one `Update` are well-formed for the table `t` when the services are `svcs`:
the entries are the table's in some order, and every `SpawnScene` sees the service map in some order -/
def VisitsOk (t : List (Nat × Nat)) (svcs : List (Nat × Stat)) (visits : List Visit) : Prop :=
  (visits.map (·.1)).Perm t ∧ ∀ v ∈ visits, v.2.Perm svcs

/-- when a timer went on the queue (`none`: it is not on it) -/
def Node.queuedAt (n : Node) : TK → Option Nat
  | .tick => if n.sys.m.now ≥ n.tickDue then some n.tickDue else none
  | .keeper => if n.keeperQueued then n.keeperDue else none
  | .expiry => if n.expiryQueued then n.expiryDue else none

/-- the state in which the keeper's round runs when the queue is served in `order` -/
def Node.beforeKeeper (n : Node) (order : List TK) : Node :=
  (order.takeWhile (· != .keeper)).foldl (Node.fire []) n

/-- side conditions of a history: map orders are orders of the maps; the timer queue holds every timer that is
due, each once, in firing order (what was due earlier is served first; timers due at the same instant come in any order) -/
def NEv.Ok (n : Node) : NEv → Prop
  | .sys e => e.Ok n.sys
  | .update visits => VisitsOk n.table n.sys.m.services visits
  | .timers order visits =>
    order.Perm [.tick, .keeper, .expiry] ∧
    order.Pairwise (fun a b => ∀ da db, n.queuedAt a = some da → n.queuedAt b = some db → da ≤ db) ∧
    (n.keeperQueued = true → VisitsOk n.table (n.beforeKeeper order).sys.m.services visits)
  | _ => True

def NOkRun : Node → List NEv → Prop
  | _, [] => True
  | n, e :: es => e.Ok n ∧ NOkRun (n.step e) es

end Cell2v.SceneM
