/-
C08 — model of the etcd membership fold and of the service directory
  node/cluster/clusterproviders/etcd/etcd_provider.go  (handleWatchResponse, _keepWatching,
        updateNodes, updateNodesWithSelf, updateNodesWithChanges, publishClusterTopologyEvent,
        UpdateClusterState)
  node/cluster/clusterproviders/etcd/node.go           (Node, Equal, GetAddress, MemberStatus)
  node/app/clusterservices.go                          (MakeMembers, addService, makePID, getters)

Go maps are association lists (`AL`) whose `set` replaces the binding of a key;
everything that leaves the model through a Go map is compared as a sorted list
by the driver, so the list order of an `AL` carries no meaning.

Core Lean only (linked into `modeld_c08`).
-/
namespace Cell2v.Directory

/-! ## association lists (Go maps keyed by string) -/

abbrev AL (α : Type) := List (String × α)

def AL.get {α : Type} : AL α → String → Option α
  | [], _ => none
  | (k', v) :: t, k => if k' = k then some v else AL.get t k

def AL.erase {α : Type} (m : AL α) (k : String) : AL α :=
  m.filter (fun p => !(p.1 == k))

/-- `m[k] = v` -/
def AL.set {α : Type} (m : AL α) (k : String) (v : α) : AL α :=
  (k, v) :: AL.erase m k

def AL.keys {α : Type} (m : AL α) : List String := m.map (·.1)

/-! ## etcd provider -/

/-- `etcd.Node` (the JSON-visible fields; `Meta` is not serialised and not published) -/
structure Node where
  id : String
  host : String
  addr : String
  port : Int
  services : List String
  alive : Bool
  state : Int
  deriving DecidableEq, Repr, Inhabited

/-- `cluster.Member` -/
structure Member where
  id : String
  host : String
  port : Int
  services : List String
  state : Int
  deriving DecidableEq, Repr, Inhabited

/-- Go's `int32(x)` of an `int`: the low 32 bits, signed -/
def toInt32 (x : Int) : Int := (x + 2147483648) % 4294967296 - 2147483648

/-- `Node.MemberStatus` (with `GetAddress`: host, or address when host is empty; `Port: int32(port)`) -/
def Node.member (n : Node) : Member :=
  { id := n.id, host := if n.host = "" then n.addr else n.host, port := toInt32 n.port,
    services := n.services, state := n.state }

/-- one event of a watch response, the etcd key already reduced to its last path
segment (`getNodeID`, done by the driver with `keyId`) -/
inductive Ev
  | put (k : String) (n : Node)   -- PUT whose value parses
  | bad (k : String)              -- PUT whose value is not a JSON Node: skipped
  | del (k : String)              -- DELETE
  | unk (k : String)              -- neither PUT nor DELETE: logged, skipped
  deriving DecidableEq, Repr

/-- `getNodeID(key, "/")`: the last `/`-separated segment (never fails) -/
def keyId (key : String) : String := ((key.splitOn "/").getLast?).getD ""

/-- one iteration of the loop of `handleWatchResponse` (the code as it is now):
`pre` is `p.members` (not touched by the loop), `ch` the pending `changes`. -/
def chStep (selfId : String) (pre : AL Node) (ch : AL Node) : Ev → AL Node
  | .put k n => if n.id = selfId then ch else ch.set k n
  | .del k =>
    match (match ch.get k with | some v => some v | none => pre.get k) with
    | none => ch
    | some v => if v.id = selfId then ch else ch.set k { v with alive := false }
  | .bad _ => ch
  | .unk _ => ch

/-- the loop before commit 8aff80e (defect D9): DELETE looks only at `p.members` -/
def chStepD9 (selfId : String) (pre : AL Node) (ch : AL Node) : Ev → AL Node
  | .put k n => if n.id = selfId then ch else ch.set k n
  | .del k =>
    match pre.get k with
    | none => ch
    | some v => if v.id = selfId then ch else ch.set k { v with alive := false }
  | .bad _ => ch
  | .unk _ => ch

def handleWatchResponse (selfId : String) (pre : AL Node) (evs : List Ev) : AL Node :=
  evs.foldl (chStep selfId pre) []

/-- `updateNodesWithChanges`: assign, then drop the member again when it is not alive -/
def applyChange (m : AL Node) (kv : String × Node) : AL Node :=
  if kv.2.alive then m.set kv.1 kv.2 else m.erase kv.1

def updateNodesWithChanges (m : AL Node) (ch : AL Node) : AL Node :=
  ch.foldl applyChange m

/-- one non-empty watch response: members before → members after -/
def foldBatch (selfId : String) (m : AL Node) (evs : List Ev) : AL Node :=
  updateNodesWithChanges m (handleWatchResponse selfId m evs)

def foldBatchD9 (selfId : String) (m : AL Node) (evs : List Ev) : AL Node :=
  updateNodesWithChanges m (evs.foldl (chStepD9 selfId m) [])

/-- `updateNodes`: `p.members[n.ID] = n` for every fetched node, in order -/
def updateNodes (m : AL Node) (ns : List Node) : AL Node :=
  ns.foldl (fun m n => AL.set m n.id n) m

/-- `updateNodesWithSelf` -/
def updateNodesWithSelf (self : Node) (m : AL Node) (ns : List Node) : AL Node :=
  (updateNodes m ns).set self.id self

/-- `createClusterTopologyEvent` (Go map order: compared as a sorted list) -/
def publish (m : AL Node) : List Member := m.map (·.2.member)

/-- the provider as a machine.  `selfIn`: `p.members[p.self.ID]` is the very object
`p.self`, so that `UpdateClusterState` (which assigns `p.self.State`) shows through. -/
structure PState where
  self : Node
  members : AL Node := []
  selfIn : Bool := false
  deriving Repr

inductive POp
  | listing (ns : List Node)          -- StartMember: fetched nodes ∪ self, publish
  | response (evs : List Ev)          -- one watch response
  | setState (s : Int)                -- UpdateClusterState
  deriving Repr

def setSelfState (s : PState) (st : Int) : PState :=
  let self' := { s.self with state := st }
  { s with self := self', members := if s.selfIn then s.members.set s.self.id self' else s.members }

def respond (s : PState) (evs : List Ev) : PState :=
  let ch := handleWatchResponse s.self.id s.members evs
  { s with members := updateNodesWithChanges s.members ch,
           selfIn := s.selfIn && (ch.get s.self.id).isNone }

/-- machine step; the second component is the member list handed to
`ICluster.UpdateClusterTopology`, if the step publishes -/
def pstep (s : PState) : POp → PState × Option (List Member)
  | .listing ns =>
    let m := updateNodesWithSelf s.self s.members ns
    ({ s with members := m, selfIn := true }, some (publish m))
  | .response evs =>
    if evs.isEmpty then (s, none)
    else let s' := respond s evs; (s', some (publish s'.members))
  | .setState st => (setSelfState s st, none)

/-! ## the provider in front of the etcd store: listing, watch sessions, lost events

`StartMember`/`StartClient` read the prefix with `Get` (`fetchNodes`), publish, and only then
`startWatching` calls `client.Watch(ctx, prefix, WithPrefix())` — without a start revision, so
the watch begins at the store's revision *at the time it is created*.  `_keepWatching` returns
on a failed response and the loop of `startWatching` opens a fresh watch the same way.
Nothing re-lists.  The store side below is etcd's documented behaviour (a PUT always produces
an event; a DELETE / lease expiry produces one only when the key existed; a watch without a
start revision sees only later writes). -/

/-- one write to the watched prefix (by any node, or by etcd itself: lease expiry/revoke) -/
inductive Wr
  | put (k : String) (n : Node)
  | del (k : String)
  deriving Repr

/-- the store after the write, and the event it produces for open watches -/
def storeStep (st : AL Node) : Wr → AL Node × Option Ev
  | .put k n => (st.set k n, some (.put k n))
  | .del k =>
    match st.get k with
    | none => (st, none)
    | some _ => (st.erase k, some (.del k))

structure Sys where
  store : AL Node := []
  p : PState
  /-- a watch is open -/
  watching : Bool := false
  /-- events the open watch has still to hand over, oldest first -/
  pending : List Ev := []
  /-- number of `client.Watch` calls so far -/
  watches : Nat := 0
  /-- `registerService` + `startKeepAlive` have run (members only) -/
  registered : Bool := false
  /-- `selfStateDirt` -/
  dirt : Bool := false
  deriving Repr

inductive SOp
  | write (w : Wr)          -- the prefix changes
  | fetch (client : Bool)   -- `fetchNodes` + `updateNodes[WithSelf]` + publish (StartClient / StartMember)
  | openWatch               -- `keepWatching`: `client.Watch` from "now"
  | deliver (k : Nat)       -- the watch hands over its `k` oldest pending events as one response
  | fail                    -- failed response: `_keepWatching` returns, the loop opens a new watch from "now"
  | setState (st : Int)     -- `UpdateClusterState`
  | register                -- `registerService` and the first `keepAliveForever`: the node's own key is PUT twice
  | kaTick                  -- a keep-alive answer arrives: if the own state is dirty, revoke the lease
                            -- (etcd deletes the own key) and `keepAliveForever` starts over with a fresh PUT
  deriving Repr

/-- `fetchNodes`: the values under the prefix -/
def fetched (st : AL Node) : List Node := st.map (·.2)

/-- one write reaches the store and, as an event, the open watch -/
def writeSys (s : Sys) (w : Wr) : Sys :=
  let r := storeStep s.store w
  { s with store := r.1, pending := if s.watching then s.pending ++ r.2.toList else s.pending }

def sstep (s : Sys) : SOp → Sys × Option (List Member)
  | .write w => (writeSys s w, none)
  | .register =>
    ({ writeSys (writeSys s (.put s.p.self.id s.p.self)) (.put s.p.self.id s.p.self) with registered := true }, none)
  | .kaTick =>
    if s.registered && s.dirt then
      ({ writeSys (writeSys s (.del s.p.self.id)) (.put s.p.self.id s.p.self) with dirt := false }, none)
    else (s, none)
  | .fetch client =>
    if client then
      let m := updateNodes s.p.members (fetched s.store)
      ({ s with p := { s.p with members := m } }, some (publish m))
    else
      let r := pstep s.p (.listing (fetched s.store))
      ({ s with p := r.1 }, r.2)
  | .openWatch => ({ s with watching := true, pending := [], watches := s.watches + 1 }, none)
  | .deliver k =>
    if s.watching then
      let r := pstep s.p (.response (s.pending.take k))
      ({ s with p := r.1, pending := s.pending.drop k }, r.2)
    else (s, none)
  | .fail =>
    if s.watching then ({ s with pending := [], watches := s.watches + 1 }, none) else (s, none)
  | .setState st => ({ s with p := (pstep s.p (.setState st)).1, dirt := true }, none)

def srun (s : Sys) (ops : List SOp) : Sys := ops.foldl (fun s op => (sstep s op).1) s

/-! ## service directory (`MakeMembers`) -/

structure Item where
  name : String
  node : String
  state : Int
  /-- `actor.PID{Address, Id}`; `none` = nil pointer -/
  pid : Option (String × String)
  deriving DecidableEq, Repr, Inhabited

structure Dir where
  members : AL Member := []
  types : AL (List Item) := []
  working : AL (List Item) := []
  services : AL Item := []
  deriving Repr

/-- `SplitServiceName` followed by the emptiness test of `addService`:
`type.name` with exactly one dot and both parts non-empty -/
def splitName (full : String) : Option (String × String) :=
  match full.splitOn "." with
  | [t, n] => if t = "" ∨ n = "" then none else some (t, n)
  | _ => none

/-- `define.Working` -/
def workingState : Int := 1
def isWork (st : Int) : Bool := st == workingState

def addService (center : AL (List Item)) (node : String) (state : Int) (full : String) : AL (List Item) :=
  match splitName full with
  | none => center
  | some (t, n) => center.set t ((center.get t).getD [] ++ [{ name := n, node := node, state := state, pid := none }])

def addServices (center : AL (List Item)) (m : Member) : AL (List Item) :=
  m.services.foldl (fun c s => addService c m.id m.state s) center

def addWorking (center : AL (List Item)) (m : Member) : AL (List Item) :=
  if isWork m.state then addServices center m else center

def address (m : Member) : String := s!"{m.host}:{m.port}"

/-- `makePID` -/
def makePID (members : AL Member) (it : Item) : Item :=
  match members.get it.node with
  | none => it
  | some m => { it with pid := some (address m, it.name) }

/-- the inner loop of the "更新PID" pass: first binding of a name wins -/
def addNames (svc : AL Item) (items : List Item) : AL Item :=
  items.foldl (fun (svc : AL Item) it => if (AL.get svc it.name).isSome then svc else AL.set svc it.name it) svc

def makeMembers (ms : List Member) : Dir :=
  let newMembers := ms.foldl (fun (m : AL Member) one => AL.set m one.id one) ([] : AL Member)
  let typeList := ms.foldl addServices ([] : AL (List Item))
  let workList := ms.foldl addWorking ([] : AL (List Item))
  let typeList' : AL (List Item) := typeList.map (fun kv => (kv.1, kv.2.map (makePID newMembers)))
  let services := typeList'.foldl (fun (svc : AL Item) kv => addNames svc kv.2) ([] : AL Item)
  { members := newMembers, types := typeList', working := workList, services := services }

/-! getters (`nil` list = `none`) -/
def Dir.getServiceList (d : Dir) (t : String) : Option (List Item) := d.types.get t
def Dir.getWorkServiceList (d : Dir) (t : String) : Option (List Item) := d.working.get t
def Dir.getService (d : Dir) (n : String) : Option Item := d.services.get n
def Dir.getWorkServices (d : Dir) : List Item := d.working.flatMap (·.2)
def Dir.getWorkServiceNames (d : Dir) : List String := d.getWorkServices.map (·.name)
def Dir.getMembers (d : Dir) : AL Member := d.members

/-! ## the specification side: what a history of events *implies*

Maps are total functions here (no order, no duplicates by construction). -/

abbrev FM := String → Option Node

def FM.upd (m : FM) (k : String) (x : Option Node) : FM := fun j => if j = k then x else m j

/-- events applied one at a time, set semantics; nothing about the node itself is applied -/
def seqStep (selfId : String) (m : FM) : Ev → FM
  | .put k n => if n.id = selfId then m else if n.alive then m.upd k (some n) else m.upd k none
  | .del k =>
    match m k with
    | none => m
    | some v => if v.id = selfId then m else m.upd k none
  | .bad _ => m
  | .unk _ => m

def implied (selfId : String) (m : FM) (evs : List Ev) : FM := evs.foldl (seqStep selfId) m

/-- abstraction of an association list -/
def look (m : AL Node) : FM := fun k => m.get k

/-- what the directory of a member list must contain for a type: every well-formed
`type.name` of every member, resolved to that member's own address -/
def specItem (m : Member) (t : String) (s : String) : Option Item :=
  match splitName s with
  | some (t', n) => if t' = t then some { name := n, node := m.id, state := m.state, pid := some (address m, n) } else none
  | none => none

def specTypeList (ms : List Member) (t : String) : List Item :=
  ms.flatMap (fun m => m.services.filterMap (specItem m t))

/-- the working list: the same services restricted to members in working state.
The code leaves `PID` nil on these items (only the per-type list is passed through
`makePID`), which is what the model and this specification record. -/
def specWorkList (ms : List Member) (t : String) : List Item :=
  (specTypeList (ms.filter (fun m => isWork m.state)) t).map (fun it => { it with pid := none })

/-! ## concurrent reads of the directory

`ClusterServices.MakeMembers` first builds four fresh maps with the pure
`MakeMembers` and then assigns the four fields one after the other, without a
lock; readers run on other goroutines.  Modelled: each field assignment and each
field read is one atomic step (word-sized pointer store / load — an assumption
about the Go memory model, recorded in the check's config); the steps of the
updater and of a reader interleave arbitrarily.  That every getter performs
exactly one field read is a fact about the source, regenerated on every run
(`Gen/C08Facts.lean`). -/

inductive Ref | members | typeServices | workingServices | services
  deriving DecidableEq, Repr

def Ref.goName : Ref → String
  | .members => "members" | .typeServices => "typeServices"
  | .workingServices => "workingServices" | .services => "services"

/-- `s.<f> = d.<f>` -/
def Dir.store (cur : Dir) (f : Ref) (d : Dir) : Dir :=
  match f with
  | .members => { cur with members := d.members }
  | .typeServices => { cur with types := d.types }
  | .workingServices => { cur with working := d.working }
  | .services => { cur with services := d.services }

/-- what one load of field `f` hands to a reader -/
def Dir.only (d : Dir) (f : Ref) : Dir := ({} : Dir).store f d

/-- the field assignments of `ClusterServices.MakeMembers`, in source order -/
def storeOrder : List Ref := [.members, .typeServices, .workingServices, .services]

/-- the shared `ClusterServices` after a sequence of field assignments -/
def runStores (v0 : Dir) (sts : List (Ref × Dir)) : Dir :=
  sts.foldl (fun cur st => cur.store st.1 st.2) v0

/-- all field assignments caused by publishing the views `pubs`, in order -/
def storesOf (pubs : List Dir) : List (Ref × Dir) :=
  pubs.flatMap (fun d => storeOrder.map (fun f => (f, d)))

inductive Query
  | serviceList (t : String) | workServiceList (t : String) | workServices | workServiceNames
  | service (n : String) | members
  deriving Repr

/-- the Go getter a query stands for -/
def Query.goName : Query → String
  | .serviceList _ => "GetServiceList" | .workServiceList _ => "GetWorkServiceList"
  | .workServices => "GetWorkServices" | .workServiceNames => "GetWorkServiceNames"
  | .service _ => "GetService" | .members => "GetMembers"

/-- the one field the getter reads -/
def Query.field : Query → Ref
  | .serviceList _ => .typeServices | .workServiceList _ => .workingServices
  | .workServices => .workingServices | .workServiceNames => .workingServices
  | .service _ => .services | .members => .members

inductive Answer
  | list (l : Option (List Item)) | items (l : List Item) | names (l : List String)
  | item (o : Option Item) | members (m : AL Member)
  deriving Repr

def Query.answer : Query → Dir → Answer
  | .serviceList t, d => .list (d.getServiceList t)
  | .workServiceList t, d => .list (d.getWorkServiceList t)
  | .workServices, d => .items d.getWorkServices
  | .workServiceNames, d => .names d.getWorkServiceNames
  | .service n, d => .item (d.getService n)
  | .members, d => .members d.getMembers

/-- a reader: at the moment the updater has performed `k` of its field assignments
the getter loads its field once, then computes on what it loaded -/
def readAt (v0 : Dir) (pubs : List Dir) (k : Nat) (q : Query) : Answer :=
  q.answer ((runStores v0 ((storesOf pubs).take k)).only q.field)

/-- a getter written with TWO loads of its field — the shape
`names := make([]string, len(s.GetWorkServices())); for k, v := range s.GetWorkServices() { names[k] = v.Name }`:
the result is sized from the first load and filled from the second.  `none` = the Go code panics
(index out of range: the second load holds more items than the first). -/
def namesTwoLoads (d1 d2 : Dir) : Option (List String) :=
  let n := d1.getWorkServices.length
  let xs := d2.getWorkServiceNames
  if xs.length ≤ n then some (xs ++ List.replicate (n - xs.length) "") else none

/-- such a reader against the updater: first load after `k1` field stores, second after `k2` -/
def readNamesAt2 (v0 : Dir) (pubs : List Dir) (k1 k2 : Nat) : Option (List String) :=
  namesTwoLoads ((runStores v0 ((storesOf pubs).take k1)).only .workingServices)
    ((runStores v0 ((storesOf pubs).take k2)).only .workingServices)

/-- `Cluster.makeFullNameServices`: `type.name` for every local service that has a config entry -/
def makeFullNameServices (services : List String) (cfg : AL String) : List String :=
  services.filterMap (fun n => (cfg.get n).map (fun t => t ++ "." ++ n))

/-- `cluster.go: makeSelfCluster` (cluster disabled) publishes `BuildSelfClusterTopology()`:
the node alone, in working state whatever its own state is -/
def selfTopology (self : Node) : List Member :=
  [{ id := self.id, host := self.host, port := toInt32 self.port, services := self.services, state := workingState }]

end Cell2v.Directory
