/-
C08 — model of the etcd membership fold and of the service directory
  node/cluster/clusterproviders/etcd/etcd_provider.go  (handleWatchResponse, _keepWatching,
        updateNodes, updateNodesWithSelf, updateNodesWithChanges, publishClusterTopologyEvent,
        UpdateClusterState)
  node/cluster/clusterproviders/etcd/node.go           (Node, Equal, GetAddress, MemberStatus)
  node/app/clusterservices.go                          (MakeMembers, addService, makePID, getters)

Go maps are association lists (`AL`) whose `set` replaces the binding of a key;
everything that leaves the model through a Go map is compared as a sorted list
by the driver, so the list order of an `AL` carries no meaning.

Core Lean only (linked into `modeld_c08`).
-/
namespace Cell2v.Directory

/-! ## association lists (Go maps keyed by string) -/

abbrev AL (α : Type) := List (String × α)

def AL.get {α : Type} : AL α → String → Option α
  | [], _ => none
  | (k', v) :: t, k => if k' = k then some v else AL.get t k

def AL.erase {α : Type} (m : AL α) (k : String) : AL α :=
  m.filter (fun p => !(p.1 == k))

/-- `m[k] = v` -/
def AL.set {α : Type} (m : AL α) (k : String) (v : α) : AL α :=
  (k, v) :: AL.erase m k

def AL.keys {α : Type} (m : AL α) : List String := m.map (·.1)

/-! ## etcd provider -/

/-- `etcd.Node` (the JSON-visible fields; `Meta` is not serialised and not published) -/
structure Node where
  id : String
  host : String
  addr : String
  port : Int
  services : List String
  alive : Bool
  state : Int
  deriving DecidableEq, Repr, Inhabited

/-- `cluster.Member` -/
structure Member where
  id : String
  host : String
  port : Int
  services : List String
  state : Int
  deriving DecidableEq, Repr, Inhabited

/-- `Node.MemberStatus` (with `GetAddress`: host, or address when host is empty) -/
def Node.member (n : Node) : Member :=
  { id := n.id, host := if n.host = "" then n.addr else n.host, port := n.port,
    services := n.services, state := n.state }

/-- one event of a watch response, the etcd key already reduced to its last path
segment (`getNodeID`, done by the driver with `keyId`) -/
inductive Ev
  | put (k : String) (n : Node)   -- PUT whose value parses
  | bad (k : String)              -- PUT whose value is not a JSON Node: skipped
  | del (k : String)              -- DELETE
  | unk (k : String)              -- neither PUT nor DELETE: logged, skipped
  deriving DecidableEq, Repr

/-- `getNodeID(key, "/")`: the last `/`-separated segment (never fails) -/
def keyId (key : String) : String := ((key.splitOn "/").getLast?).getD ""

/-- one iteration of the loop of `handleWatchResponse` (the code as it is now):
`pre` is `p.members` (not touched by the loop), `ch` the pending `changes`. -/
def chStep (selfId : String) (pre : AL Node) (ch : AL Node) : Ev → AL Node
  | .put k n => if n.id = selfId then ch else ch.set k n
  | .del k =>
    match (match ch.get k with | some v => some v | none => pre.get k) with
    | none => ch
    | some v => if v.id = selfId then ch else ch.set k { v with alive := false }
  | .bad _ => ch
  | .unk _ => ch

/-- the loop before commit 8aff80e (defect D9): DELETE looks only at `p.members` -/
def chStepD9 (selfId : String) (pre : AL Node) (ch : AL Node) : Ev → AL Node
  | .put k n => if n.id = selfId then ch else ch.set k n
  | .del k =>
    match pre.get k with
    | none => ch
    | some v => if v.id = selfId then ch else ch.set k { v with alive := false }
  | .bad _ => ch
  | .unk _ => ch

def handleWatchResponse (selfId : String) (pre : AL Node) (evs : List Ev) : AL Node :=
  evs.foldl (chStep selfId pre) []

/-- `updateNodesWithChanges`: assign, then drop the member again when it is not alive -/
def applyChange (m : AL Node) (kv : String × Node) : AL Node :=
  if kv.2.alive then m.set kv.1 kv.2 else m.erase kv.1

def updateNodesWithChanges (m : AL Node) (ch : AL Node) : AL Node :=
  ch.foldl applyChange m

/-- one non-empty watch response: members before → members after -/
def foldBatch (selfId : String) (m : AL Node) (evs : List Ev) : AL Node :=
  updateNodesWithChanges m (handleWatchResponse selfId m evs)

def foldBatchD9 (selfId : String) (m : AL Node) (evs : List Ev) : AL Node :=
  updateNodesWithChanges m (evs.foldl (chStepD9 selfId m) [])

/-- `updateNodes`: `p.members[n.ID] = n` for every fetched node, in order -/
def updateNodes (m : AL Node) (ns : List Node) : AL Node :=
  ns.foldl (fun m n => AL.set m n.id n) m

/-- `updateNodesWithSelf` -/
def updateNodesWithSelf (self : Node) (m : AL Node) (ns : List Node) : AL Node :=
  (updateNodes m ns).set self.id self

/-- `createClusterTopologyEvent` (Go map order: compared as a sorted list) -/
def publish (m : AL Node) : List Member := m.map (·.2.member)

/-- the provider as a machine.  `selfIn`: `p.members[p.self.ID]` is the very object
`p.self`, so that `UpdateClusterState` (which assigns `p.self.State`) shows through. -/
structure PState where
  self : Node
  members : AL Node := []
  selfIn : Bool := false
  deriving Repr

inductive POp
  | listing (ns : List Node)          -- StartMember: fetched nodes ∪ self, publish
  | response (evs : List Ev)          -- one watch response
  | setState (s : Int)                -- UpdateClusterState
  deriving Repr

def setSelfState (s : PState) (st : Int) : PState :=
  let self' := { s.self with state := st }
  { s with self := self', members := if s.selfIn then s.members.set s.self.id self' else s.members }

def respond (s : PState) (evs : List Ev) : PState :=
  let ch := handleWatchResponse s.self.id s.members evs
  { s with members := updateNodesWithChanges s.members ch,
           selfIn := s.selfIn && (ch.get s.self.id).isNone }

/-- machine step; the second component is the member list handed to
`ICluster.UpdateClusterTopology`, if the step publishes -/
def pstep (s : PState) : POp → PState × Option (List Member)
  | .listing ns =>
    let m := updateNodesWithSelf s.self s.members ns
    ({ s with members := m, selfIn := true }, some (publish m))
  | .response evs =>
    if evs.isEmpty then (s, none)
    else let s' := respond s evs; (s', some (publish s'.members))
  | .setState st => (setSelfState s st, none)

/-! ## service directory (`MakeMembers`) -/

structure Item where
  name : String
  node : String
  state : Int
  /-- `actor.PID{Address, Id}`; `none` = nil pointer -/
  pid : Option (String × String)
  deriving DecidableEq, Repr, Inhabited

structure Dir where
  members : AL Member := []
  types : AL (List Item) := []
  working : AL (List Item) := []
  services : AL Item := []
  deriving Repr

/-- `SplitServiceName` followed by the emptiness test of `addService`:
`type.name` with exactly one dot and both parts non-empty -/
def splitName (full : String) : Option (String × String) :=
  match full.splitOn "." with
  | [t, n] => if t = "" ∨ n = "" then none else some (t, n)
  | _ => none

/-- `define.Working` -/
def workingState : Int := 1
def isWork (st : Int) : Bool := st == workingState

def addService (center : AL (List Item)) (node : String) (state : Int) (full : String) : AL (List Item) :=
  match splitName full with
  | none => center
  | some (t, n) => center.set t ((center.get t).getD [] ++ [{ name := n, node := node, state := state, pid := none }])

def addServices (center : AL (List Item)) (m : Member) : AL (List Item) :=
  m.services.foldl (fun c s => addService c m.id m.state s) center

def addWorking (center : AL (List Item)) (m : Member) : AL (List Item) :=
  if isWork m.state then addServices center m else center

def address (m : Member) : String := s!"{m.host}:{m.port}"

/-- `makePID` -/
def makePID (members : AL Member) (it : Item) : Item :=
  match members.get it.node with
  | none => it
  | some m => { it with pid := some (address m, it.name) }

/-- the inner loop of the "更新PID" pass: first binding of a name wins -/
def addNames (svc : AL Item) (items : List Item) : AL Item :=
  items.foldl (fun (svc : AL Item) it => if (AL.get svc it.name).isSome then svc else AL.set svc it.name it) svc

def makeMembers (ms : List Member) : Dir :=
  let newMembers := ms.foldl (fun (m : AL Member) one => AL.set m one.id one) ([] : AL Member)
  let typeList := ms.foldl addServices ([] : AL (List Item))
  let workList := ms.foldl addWorking ([] : AL (List Item))
  let typeList' : AL (List Item) := typeList.map (fun kv => (kv.1, kv.2.map (makePID newMembers)))
  let services := typeList'.foldl (fun (svc : AL Item) kv => addNames svc kv.2) ([] : AL Item)
  { members := newMembers, types := typeList', working := workList, services := services }

/-! getters (`nil` list = `none`) -/
def Dir.getServiceList (d : Dir) (t : String) : Option (List Item) := d.types.get t
def Dir.getWorkServiceList (d : Dir) (t : String) : Option (List Item) := d.working.get t
def Dir.getService (d : Dir) (n : String) : Option Item := d.services.get n
def Dir.getWorkServices (d : Dir) : List Item := d.working.flatMap (·.2)
def Dir.getWorkServiceNames (d : Dir) : List String := d.getWorkServices.map (·.name)
def Dir.getMembers (d : Dir) : AL Member := d.members

/-! ## the specification side: what a history of events *implies*

Maps are total functions here (no order, no duplicates by construction). -/

abbrev FM := String → Option Node

def FM.upd (m : FM) (k : String) (x : Option Node) : FM := fun j => if j = k then x else m j

/-- events applied one at a time, set semantics; nothing about the node itself is applied -/
def seqStep (selfId : String) (m : FM) : Ev → FM
  | .put k n => if n.id = selfId then m else if n.alive then m.upd k (some n) else m.upd k none
  | .del k =>
    match m k with
    | none => m
    | some v => if v.id = selfId then m else m.upd k none
  | .bad _ => m
  | .unk _ => m

def implied (selfId : String) (m : FM) (evs : List Ev) : FM := evs.foldl (seqStep selfId) m

/-- abstraction of an association list -/
def look (m : AL Node) : FM := fun k => m.get k

/-- what the directory of a member list must contain for a type: every well-formed
`type.name` of every member, resolved to that member's own address -/
def specItem (m : Member) (t : String) (s : String) : Option Item :=
  match splitName s with
  | some (t', n) => if t' = t then some { name := n, node := m.id, state := m.state, pid := some (address m, n) } else none
  | none => none

def specTypeList (ms : List Member) (t : String) : List Item :=
  ms.flatMap (fun m => m.services.filterMap (specItem m t))

/-- the working list: the same services restricted to members in working state.
The code leaves `PID` nil on these items (only the per-type list is passed through
`makePID`), which is what the model and this specification record. -/
def specWorkList (ms : List Member) (t : String) : List Item :=
  (specTypeList (ms.filter (fun m => isWork m.state)) t).map (fun it => { it with pid := none })

/-! ## concurrent reads of the directory

`ClusterServices.MakeMembers` first builds four fresh maps with the pure
`MakeMembers` and then assigns the four fields one after the other, without a
lock; readers run on other goroutines.  Modelled: each field assignment and each
field read is one atomic step (word-sized pointer store / load — an assumption
about the Go memory model, recorded in the check's config); the steps of the
updater and of a reader interleave arbitrarily.  That every getter performs
exactly one field read is a fact about the source, regenerated on every run
(`Gen/C08Facts.lean`). -/

inductive Ref | members | typeServices | workingServices | services
  deriving DecidableEq, Repr

def Ref.goName : Ref → String
  | .members => "members" | .typeServices => "typeServices"
  | .workingServices => "workingServices" | .services => "services"

/-- `s.<f> = d.<f>` -/
def Dir.store (cur : Dir) (f : Ref) (d : Dir) : Dir :=
  match f with
  | .members => { cur with members := d.members }
  | .typeServices => { cur with types := d.types }
  | .workingServices => { cur with working := d.working }
  | .services => { cur with services := d.services }

/-- what one load of field `f` hands to a reader -/
def Dir.only (d : Dir) (f : Ref) : Dir := ({} : Dir).store f d

/-- the field assignments of `ClusterServices.MakeMembers`, in source order -/
def storeOrder : List Ref := [.members, .typeServices, .workingServices, .services]

/-- the shared `ClusterServices` after a sequence of field assignments -/
def runStores (v0 : Dir) (sts : List (Ref × Dir)) : Dir :=
  sts.foldl (fun cur st => cur.store st.1 st.2) v0

/-- all field assignments caused by publishing the views `pubs`, in order -/
def storesOf (pubs : List Dir) : List (Ref × Dir) :=
  pubs.flatMap (fun d => storeOrder.map (fun f => (f, d)))

inductive Query
  | serviceList (t : String) | workServiceList (t : String) | workServices | workServiceNames
  | service (n : String) | members
  deriving Repr

/-- the Go getter a query stands for -/
def Query.goName : Query → String
  | .serviceList _ => "GetServiceList" | .workServiceList _ => "GetWorkServiceList"
  | .workServices => "GetWorkServices" | .workServiceNames => "GetWorkServiceNames"
  | .service _ => "GetService" | .members => "GetMembers"

/-- the one field the getter reads -/
def Query.field : Query → Ref
  | .serviceList _ => .typeServices | .workServiceList _ => .workingServices
  | .workServices => .workingServices | .workServiceNames => .workingServices
  | .service _ => .services | .members => .members

inductive Answer
  | list (l : Option (List Item)) | items (l : List Item) | names (l : List String)
  | item (o : Option Item) | members (m : AL Member)
  deriving Repr

def Query.answer : Query → Dir → Answer
  | .serviceList t, d => .list (d.getServiceList t)
  | .workServiceList t, d => .list (d.getWorkServiceList t)
  | .workServices, d => .items d.getWorkServices
  | .workServiceNames, d => .names d.getWorkServiceNames
  | .service n, d => .item (d.getService n)
  | .members, d => .members d.getMembers

/-- a reader: at the moment the updater has performed `k` of its field assignments
the getter loads its field once, then computes on what it loaded -/
def readAt (v0 : Dir) (pubs : List Dir) (k : Nat) (q : Query) : Answer :=
  q.answer ((runStores v0 ((storesOf pubs).take k)).only q.field)

end Cell2v.Directory
