/-!
Executable model for C16 — channel broadcast and front-end fan-out.

Mirrors, statement by statement where it matters:
* `node/builtin/channel/channel.go`   `FrontGroup.Add/FindIndex/Remove` (three slice cases),
  `Channel.getGroup/Add/Leave/PushMessage` (`sync.Map` front ↦ group; a group that
  became empty stays and is still pushed to, with an empty id list);
* `node/builtin/channel/channelservice.go` `Service.AddChannel/GetChannel/DeleteChannel/
  AddToChannel/LeaveFromChannel` (`sync.Map` name ↦ channel; `AllocTempChannel` /
  `FreeTempChannel` are `AddChannel` / `DeleteChannel` on a generated name);
* `node/client/impls/sessions.go` `ClientSessions.AddSession/RemoveSession/PushMsg`
  (ids from `common.SerialIdService`, unknown ids skipped);
* `node/client/impls/utils.go` `PushMessageByIds` → `pushLocal`: a push whose target
  front is the issuing service itself is delivered in place through that service's
  `ClientSessions.PushMsg` with the serialized message;
* `node/builtin/system.go` `Entry.PushMsg` = `ClientSessions.PushMsg` + one callback.
* `channelservice.go` `Service.PushMessageByIds / PushMessageById` and `impls.PushMessageById` (direct pushes,
  section "direct pushes" below); a message the client serializer rejects is pushed with empty data.
* retained `*Channel` handles (section "retained channel handles" below): `DeleteChannel` only unbinds the
  name, the object keeps its groups for whoever holds the pointer; `c.Add / c.Leave / c.PushMessage` on a
  bound or stale handle; `FreeTempChannel(c)` = `DeleteChannel(c.GetName())`.

Core Lean only (linked into `modeld_c16`).  Maps are association lists: `aset`
replaces in place or appends (a `Store`), `adel` removes every entry of the key
(a `Delete`), `aget` finds the first entry (a `Load`).
-/
namespace Cell2v.Channel

abbrev AL (α : Type) := List (String × α)

def aget {α : Type} : AL α → String → Option α
  | [], _ => none
  | (k', v) :: m, k => if k' = k then some v else aget m k

def aset {α : Type} : AL α → String → α → AL α
  | [], k, v => [(k, v)]
  | (k', v') :: m, k, v => if k' = k then (k', v) :: m else (k', v') :: aset m k v

def adel {α : Type} (m : AL α) (k : String) : AL α := m.filter (fun e => e.1 != k)

def akeys {α : Type} (m : AL α) : List String := m.map (·.1)

/-! ### FrontGroup -/

/-- `FrontGroup.FindIndex`; `none` stands for `-1` -/
def findIndex : List Nat → Nat → Option Nat
  | [], _ => none
  | y :: l, x => if x = y then some 0 else (findIndex l x).map (· + 1)

/-- `FrontGroup.Remove`: the three slice cases of the Go code -/
def removeGo (l : List Nat) (x : Nat) : List Nat :=
  match findIndex l x with
  | none => l                                   -- can not find
  | some i =>
    if i = 0 then l.drop 1                      -- g.NetIds[1:]
    else if i = l.length - 1 then l.take i      -- g.NetIds[:i]
    else l.take i ++ l.drop (i + 1)             -- append(g.NetIds[:i], g.NetIds[i+1:]...)

/-! ### Channel -/

structure Chan where
  uid : Nat                 -- identity of the `*Channel` object (creation sequence number)
  groups : AL (List Nat)    -- `groups sync.Map`: front ↦ `FrontGroup.NetIds`
  deriving Repr, DecidableEq

/-- `Channel.Add`: `getGroup(front, true)` then `g.Add(id)` -/
def Chan.add (c : Chan) (f : String) (x : Nat) : Chan :=
  match aget c.groups f with
  | some g => { c with groups := aset c.groups f (g ++ [x]) }
  | none => { c with groups := aset c.groups f ([] ++ [x]) }

/-- `Channel.Leave`: `getGroup(front, false)`; nothing happens without a group -/
def Chan.leave (c : Chan) (f : String) (x : Nat) : Chan :=
  match aget c.groups f with
  | some g => { c with groups := aset c.groups f (removeGo g x) }
  | none => c

/-- one call of `IPushMessager.PushMessageByIds(ns, front, ids, route, msg)` -/
structure Push where
  front : String
  ids : List Nat
  route : String
  msg : String
  deriving Repr, DecidableEq

/-- `Channel.PushMessage`: one call per group (empty groups included), in `Range` order -/
def Chan.pushMessage (c : Chan) (route msg : String) : List Push :=
  c.groups.map fun e => ⟨e.1, e.2, route, msg⟩

/-! ### Service -/

structure Svc where
  chans : AL Chan
  created : Nat             -- number of `Channel` objects created so far
  deriving Repr, DecidableEq

def Svc.addChannel (s : Svc) (name : String) : Svc × Chan :=
  match aget s.chans name with
  | some c => (s, c)
  | none =>
    let c : Chan := ⟨s.created + 1, []⟩
    ({ chans := aset s.chans name c, created := s.created + 1 }, c)

def Svc.getChannel (s : Svc) (name : String) : Option Chan := aget s.chans name

def Svc.deleteChannel (s : Svc) (name : String) : Svc := { s with chans := adel s.chans name }

/-- `AddToChannel`: `AddChannel(name)` then `c.Add(front, id)`; the channel is a
pointer, so the mutation is visible through the map -/
def Svc.addToChannel (s : Svc) (name f : String) (x : Nat) : Svc × Chan :=
  let r := s.addChannel name
  let c' := r.2.add f x
  ({ r.1 with chans := aset r.1.chans name c' }, c')

def Svc.leaveFromChannel (s : Svc) (name f : String) (x : Nat) : Svc :=
  match s.getChannel name with
  | some c => { s with chans := aset s.chans name (c.leave f x) }
  | none => s

/-! ### front-end: ClientSessions -/

structure Front where
  live : List Nat           -- keys of `sessions`, insertion order
  nextId : Nat              -- `SerialIdService.nextId`
  closed : List Nat := []   -- registered connections whose socket has closed: `Push` returns an error
  deriving Repr, DecidableEq

/-- the connections a push can still reach: registered and not closed.  `PushMsg` calls
`Push` on every registered listed id and ignores its error, so a closed connection gets
nothing and the loop goes on with the next id -/
def Front.reachable (fr : Front) : List Nat := fr.live.filter fun i => decide (i ∉ fr.closed)

/-- the socket of a registered connection closes (it stays in the table until `RemoveSession`) -/
def Front.closeSession (fr : Front) (id : Nat) : Front × Bool :=
  if id ∈ fr.live then ({ fr with closed := id :: fr.closed }, true) else (fr, false)

/-- `SerialIdService.AllocId`: returned id and new counter (uint32 wrap, 0 skipped) -/
def allocId (n : Nat) : Nat × Nat :=
  let v := (n + 1) % 2 ^ 32
  if v = 0 then (1, 1) else (v, v)

def Front.addSession (fr : Front) : Front × Nat :=
  let r := allocId fr.nextId
  ({ fr with live := if r.1 ∈ fr.live then fr.live else fr.live ++ [r.1], nextId := r.2 }, r.1)

def Front.removeSession (fr : Front) (id : Nat) : Front × Bool :=
  if id ∈ fr.live then ({ fr with live := fr.live.erase id, closed := fr.closed.filter (· != id) }, true) else (fr, false)

/-- one `session.Session.Push(route, data)` on the connection `id` -/
structure Delivery where
  id : Nat
  route : String
  data : List Nat
  deriving Repr, DecidableEq

/-- `ClientSessions.PushMsg`: every listed id that is a live session gets the push,
in list order, once per occurrence; an unknown id is skipped -/
def pushMsg (live : List Nat) (ids : List Nat) (route : String) (data : List Nat) : List Delivery :=
  (ids.filter (fun i => decide (i ∈ live))).map fun i => ⟨i, route, data⟩

/-! ### whole state, operations, observations -/

structure St where
  localFront : String       -- name of the service that owns the channel service (`ns.Name`)
  svc : Svc
  front : Front
  /-- the issuing service has no "sessions" component (a back-end service): `pushLocal` declines
  (`sc == nil`) and `PushMessageByIds` goes on to the directory, also for its own name -/
  noSessions : Bool := false
  deriving Repr, DecidableEq

def init (localFront : String) : St := { localFront := localFront, svc := ⟨[], 0⟩, front := ⟨[], 1, []⟩ }

/-- the same, for a service without a "sessions" component -/
def initBackend (localFront : String) : St := { init localFront with noSessions := true }

inductive Op
  | addch (c : String)
  | getch (c : String)
  | delch (c : String)
  | join (c f : String) (x : Nat)
  | leave (c f : String) (x : Nat)
  | bcast (c route msg : String)
  | sadd
  | sdel (id : Nat)
  | spush (ids : List Nat) (route : String) (data : List Nat)
  | sclose (id : Nat)
  deriving Repr, DecidableEq

inductive Obs
  | ok
  | chan (uid : Nat)
  | nil
  | pushes (ps : List Push) (dl : List Delivery)
  | added (id : Nat) (live : List Nat)
  | removed (found : Bool) (live : List Nat)
  | delivered (dl : List Delivery)
  deriving Repr, DecidableEq

/-- deliveries caused in place by the push tuples addressed to the issuing service itself -/
def localDeliveries (ser : String → List Nat) (s : St) (ps : List Push) : List Delivery :=
  if s.noSessions then []
  else ps.flatMap fun p => if p.front = s.localFront then pushMsg s.front.reachable p.ids p.route (ser p.msg) else []

/-- `ser` is the client serializer (`config.GetConfig().Serializer.Marshal`) -/
def step (ser : String → List Nat) (s : St) : Op → St × Obs
  | .addch c => let r := s.svc.addChannel c; ({ s with svc := r.1 }, .chan r.2.uid)
  | .getch c =>
    (s, match s.svc.getChannel c with
        | some ch => .chan ch.uid
        | none => .nil)
  | .delch c => ({ s with svc := s.svc.deleteChannel c }, .ok)
  | .join c f x => let r := s.svc.addToChannel c f x; ({ s with svc := r.1 }, .chan r.2.uid)
  | .leave c f x => ({ s with svc := s.svc.leaveFromChannel c f x }, .ok)
  | .bcast c route msg =>
    (s, match s.svc.getChannel c with
        | none => .nil
        | some ch => .pushes (ch.pushMessage route msg) (localDeliveries ser s (ch.pushMessage route msg)))
  | .sadd => let r := s.front.addSession; ({ s with front := r.1 }, .added r.2 r.1.live)
  | .sdel id => let r := s.front.removeSession id; ({ s with front := r.1 }, .removed r.2 r.1.live)
  | .spush ids route data => (s, .delivered (pushMsg s.front.reachable ids route data))
  | .sclose id => let r := s.front.closeSession id; ({ s with front := r.1 }, .removed r.2 r.1.live)

def run (ser : String → List Nat) (s : St) (ops : List Op) : St :=
  ops.foldl (fun s op => (step ser s op).1) s

/-! ### beyond the issuing service: `impls.PushMessageByIds` towards other front-ends -/

/-- the tuples `impls.PushMessageByIds`, called by the service `me`, sends onward as one
`sys.pushmsg` request each: those addressed to another service that the directory `dir`
knows (`pushLocal` declines because `serverId != ns.Name`; an unknown service is logged
and dropped) -/
def forwarded (me : String) (dir : List String) (ps : List Push) : List Push :=
  ps.filter fun p => decide (p.front ≠ me) && decide (p.front ∈ dir)

/-- the same for an issuing service in the state `s`: one without a "sessions" component
declines in `pushLocal` for its own name too, so a tuple addressed to itself is sent onward
(to itself) like any other, provided the directory knows it -/
def forwardedFrom (s : St) (dir : List String) (ps : List Push) : List Push :=
  ps.filter fun p => (decide (p.front ≠ s.localFront) || s.noSessions) && decide (p.front ∈ dir)

/-- what the connections of the front-end service `b` (own `ClientSessions`, live set
`blive`) receive when each forwarded request is handled by `sys.pushmsg` of the service it
names -/
def remoteDeliveries (ser : String → List Nat) (b : String) (blive : List Nat) (sent : List Push) : List Delivery :=
  sent.flatMap fun p => if p.front = b then pushMsg blive p.ids p.route (ser p.msg) else []

/-! ### direct pushes: `channel.Service.PushMessageByIds / PushMessageById`

No channel is involved: the caller's `(front, ids)` go to the push layer as they are —
`Service.PushMessageByIds` is one call of `IPushMessager.PushMessageByIds` and one completion of
the callback; `impls.PushMessageById` is the same path with the one-element list `[]uint32{id}`
(`pushLocal` in place for the issuing service itself, otherwise one `sys.pushmsg` to a service the
directory knows).  What happens to the tuple afterwards is `localDeliveries` / `forwardedFrom` /
`remoteDeliveries`, exactly as for a tuple of a broadcast.

An unserialisable message: `pmsg.Data, _ = Serializer.Marshal(msg)` drops the error, so the push goes
out to the same connections with empty data — in the model that is a serializer with `ser msg = []`
(every theorem quantifies over `ser`). -/

def directPush (f : String) (ids : List Nat) (route msg : String) : List Push := [⟨f, ids, route, msg⟩]

def directPush1 (f : String) (id : Nat) (route msg : String) : List Push := directPush f [id] route msg

/-- the observation of a direct push issued by the service in state `s` -/
def directObs (ser : String → List Nat) (s : St) (ps : List Push) : Obs := .pushes ps (localDeliveries ser s ps)

/-! ### abstract reading of a history (what the property statement talks about) -/

/-- the member list of one (channel, front) pair as a fold over the history:
`none` = no group; join appends; leave erases the first occurrence; deleting the
channel forgets everything -/
def stepView (c f : String) (v : Option (List Nat)) : Op → Option (List Nat)
  | .join c' f' x => if c' = c ∧ f' = f then some (v.getD [] ++ [x]) else v
  | .leave c' f' x => if c' = c ∧ f' = f then v.map (·.erase x) else v
  | .delch c' => if c' = c then none else v
  | _ => v

def members (ops : List Op) (c f : String) : Option (List Nat) := ops.foldl (stepView c f) none

def stepExists (c : String) (b : Bool) : Op → Bool
  | .addch c' => if c' = c then true else b
  | .join c' _ _ => if c' = c then true else b
  | .delch c' => if c' = c then false else b
  | _ => b

def chanExists (ops : List Op) (c : String) : Bool := ops.foldl (stepExists c) false

/-- the ids joined to (c, f) since the channel was last deleted, in join order -/
def stepJoinSeq (c f : String) (j : List Nat) : Op → List Nat
  | .join c' f' x => if c' = c ∧ f' = f then j ++ [x] else j
  | .delch c' => if c' = c then [] else j
  | _ => j

def joinSeq (ops : List Op) (c f : String) : List Nat := ops.foldl (stepJoinSeq c f) []

/-- adds and successful leaves of one id on (c, f) since the channel was last deleted;
a leave is successful when the id is currently listed (`left < adds`) -/
structure Tally where
  adds : Nat
  left : Nat
  deriving Repr, DecidableEq

def stepTally (c f : String) (x : Nat) (t : Tally) : Op → Tally
  | .join c' f' y => if c' = c ∧ f' = f ∧ y = x then { t with adds := t.adds + 1 } else t
  | .leave c' f' y => if c' = c ∧ f' = f ∧ y = x ∧ t.left < t.adds then { t with left := t.left + 1 } else t
  | .delch c' => if c' = c then ⟨0, 0⟩ else t
  | _ => t

def tally (ops : List Op) (c f : String) (x : Nat) : Tally := ops.foldl (stepTally c f x) ⟨0, 0⟩

/-- what the concrete state holds for the pair (c, f): `none` = no channel or no group -/
def view (s : Svc) (c f : String) : Option (List Nat) := (aget s.chans c).bind fun ch => aget ch.groups f

/-- does the operation address the pair (c, f)? -/
def targets (c f : String) : Op → Prop
  | .join c' f' _ => c' = c ∧ f' = f
  | .leave c' f' _ => c' = c ∧ f' = f
  | .delch c' => c' = c
  | _ => False

/-! ### retained channel handles

The Go API hands out `*Channel` (`AddChannel`, `AddToChannel`, `AllocTempChannel` all
return it), and `DeleteChannel` only removes the name from the `sync.Map`: the object
lives on for whoever kept the pointer — it keeps its groups, `c.Add` / `c.Leave` /
`c.PushMessage` still work on it, and the name may meanwhile denote a different
object.  `FreeTempChannel(c)` is `DeleteChannel(c.GetName())`: it removes whatever
object the name denotes *now*.

`HSt` adds to `St` the objects that left the map (`detached`, newest first, each with
the name it was created under).  A handle is the identity `uid` of the object; the
pointer operations mutate the object with that identity wherever it sits. -/

structure HSt where
  st : St
  detached : AL Chan := []
  deriving Repr, DecidableEq

def hinit (localFront : String) : HSt := { st := init localFront, detached := [] }

inductive HOp
  | name (op : Op)                                   -- an operation of `channel.Service`, by name
  | hjoin (u : Nat) (f : String) (x : Nat)           -- `c.Add(f, x)` on the retained handle `u`
  | hleave (u : Nat) (f : String) (x : Nat)          -- `c.Leave(f, x)`
  | hbcast (u : Nat) (route msg : String)            -- `c.PushMessage(route, msg)`
  | hfree (u : Nat)                                  -- `Service.FreeTempChannel(c)` = `DeleteChannel(c.GetName())`
  deriving Repr, DecidableEq

/-- mutate, in place, the object with identity `u` -/
def updObj (m : AL Chan) (u : Nat) (g : Chan → Chan) : AL Chan :=
  m.map fun e => if e.2.uid = u then (e.1, g e.2) else e

/-- the object with identity `u` and the name it was created under -/
def findUid (m : AL Chan) (u : Nat) : Option (String × Chan) := m.find? fun e => e.2.uid == u

/-- what `DeleteChannel` leaves behind: the object that `name` denoted, still intact -/
def detachOf (s : HSt) : Op → AL Chan
  | .delch c =>
    match s.st.svc.getChannel c with
    | some ch => (c, ch) :: s.detached
    | none => s.detached
  | _ => s.detached

def hname (ser : String → List Nat) (s : HSt) (op : Op) : HSt × Obs :=
  let r := step ser s.st op
  ({ st := r.1, detached := detachOf s op }, r.2)

def HSt.updObj (s : HSt) (u : Nat) (g : Chan → Chan) : HSt :=
  { st := { s.st with svc := { s.st.svc with chans := Channel.updObj s.st.svc.chans u g } },
    detached := Channel.updObj s.detached u g }

/-- the object a handle refers to: in the map or detached -/
def HSt.findObj (s : HSt) (u : Nat) : Option (String × Chan) := findUid (s.st.svc.chans ++ s.detached) u

def hstep (ser : String → List Nat) (s : HSt) : HOp → HSt × Obs
  | .name op => hname ser s op
  | .hjoin u f x => (s.updObj u (·.add f x), .ok)
  | .hleave u f x => (s.updObj u (·.leave f x), .ok)
  | .hbcast u route msg =>
    (s, match s.findObj u with
        | none => .nil
        | some e => .pushes (e.2.pushMessage route msg) (localDeliveries ser s.st (e.2.pushMessage route msg)))
  | .hfree u =>
    match s.findObj u with
    | none => (s, .ok)
    | some e => hname ser s (.delch e.1)

def hrun (ser : String → List Nat) (s : HSt) (ops : List HOp) : HSt :=
  ops.foldl (fun s op => (hstep ser s op).1) s

/-- what a detached object holds for the front `f` -/
def detView (s : HSt) (u : Nat) (f : String) : Option (List Nat) :=
  (findUid s.detached u).bind fun e => aget e.2.groups f

/-- the member list of one front of a retained object as a fold over the later history:
only `c.Add` / `c.Leave` through that very handle change it -/
def stepStale (u : Nat) (f : String) (v : Option (List Nat)) : HOp → Option (List Nat)
  | .hjoin u' f' x => if u' = u ∧ f' = f then some (v.getD [] ++ [x]) else v
  | .hleave u' f' x => if u' = u ∧ f' = f then v.map (·.erase x) else v
  | _ => v

/-- the by-name operation a handle operation amounts to while the object is still the one
the name `c` denotes -/
def asNameOp (c : String) : HOp → Op
  | .name op => op
  | .hjoin _ f x => .join c f x
  | .hleave _ f x => .leave c f x
  | .hbcast _ r m => .bcast c r m
  | .hfree _ => .delch c

/-! ### every object, bound or not: what it holds as a fold of the operations that resolved to it -/

/-- what the object with identity `u` (bound to a name or detached) holds for the front `f` -/
def objView (s : HSt) (u : Nat) (f : String) : Option (List Nat) := (s.findObj u).bind fun e => aget e.2.groups f

/-- a membership operation resolved to the object it acts on -/
structure Tgt where
  obj : Nat
  front : String
  isJoin : Bool
  id : Nat
  deriving Repr, DecidableEq

/-- the object a membership operation acts on in the state `s`: `AddToChannel(c, ..)` on the object
`AddChannel(c)` returns (the bound one, or the fresh one it creates), `LeaveFromChannel(c, ..)` on the
object `c` denotes if any, `h.Add` / `h.Leave` on the object of the handle (if it was handed out) -/
def targetOf (s : HSt) : HOp → Option Tgt
  | .name (.join c f x) => some ⟨(s.st.svc.addChannel c).2.uid, f, true, x⟩
  | .name (.leave c f x) => (s.st.svc.getChannel c).map fun ch => ⟨ch.uid, f, false, x⟩
  | .hjoin u f x => if (s.findObj u).isSome then some ⟨u, f, true, x⟩ else none
  | .hleave u f x => if (s.findObj u).isSome then some ⟨u, f, false, x⟩ else none
  | _ => none

def applyT (u : Nat) (f : String) (v : Option (List Nat)) : Option Tgt → Option (List Nat)
  | some t =>
    if t.obj = u ∧ t.front = f then (if t.isJoin then some (v.getD [] ++ [t.id]) else v.map (·.erase t.id)) else v
  | none => v

/-- the resolved membership operations of a history, in order -/
def otrace (ser : String → List Nat) (s : HSt) : List HOp → List (Option Tgt)
  | [] => []
  | op :: ops => targetOf s op :: otrace ser (hstep ser s op).1 ops

end Cell2v.Channel
