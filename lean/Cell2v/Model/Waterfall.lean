/-
C15 — model of utils/waterfall/waterfall_sche.go (`Chain`, `Sche`).

`Sche(sche, tasks, final)` posts `tryExec(0)`; the callback handed to every
task posts `invokeCallback(err, args…)`.  A chain's closures travel through the
scheduler's FIFO channel (`Model/Sche.lean`); `queue` is the projection of that
channel onto this chain (closures of other chains / other posters interleave
freely and do not touch the chain's state).

Labels:
* `run`               the scheduler's consumer executes the chain's oldest queued closure
* `complete i e r`    task `i` (already invoked) calls the chain callback with
                      `(e, r…)` — from any goroutine, at any later time, any
                      number of times: the environment is unconstrained; the
                      "each invoked task completes at most / exactly once"
                      hypotheses of the property are predicates on `calls`.

`hist` (newest first) records task invocations, final invocations and callback
calls; `consumed` counts the executed closures of the chain.

An entry of the task list that is nil (an unset step): `invokeTask` calls it,
the call panics inside the posted closure and `doTask` recovers — in this model
that is an invoked task (`.task i args` marks the call in `invokeTask`) that
never completes; `Props.C15.uncompleted_task_stalls_chain` says what follows.

Modelled, not verified: `Chain` assumes its posts succeed (`SChain` below adds
`Stop`: callback calls on a stopped scheduler are dropped; room in the channel is
still assumed; a task that completes *synchronously* while the
channel is full blocks the consumer on its own queue — see
`Props.C15.self_post_on_full_queue_deadlocks`); `args` are lists of naturals.
-/
namespace Cell2v.Waterfall

abbrev Args := List Nat

/-- closures a chain posts: the initial `tryExec(0)` and `invokeCallback(err, args…)` -/
inductive Clo | start | cb (err : Bool) (args : Args)
  deriving DecidableEq, Repr

inductive Ev
  | task (i : Nat) (args : Args)              -- tasks[i](callback, args…)
  | final (err : Bool) (args : Args)          -- final(err, args…)
  | done (i : Nat) (err : Bool) (res : Args)  -- task i calls callback(err, res…)  (= posts invokeCallback)
  deriving DecidableEq, Repr

structure Chain where
  n : Nat                          -- len(tasks)
  cursor : Nat := 0
  queue : List Clo := [.start]
  invoked : Nat := 0               -- number of task invocations so far
  calls : Nat → Nat := fun _ => 0  -- callback calls made by task i
  consumed : Nat := 0              -- ghost: closures of this chain executed by the scheduler
  hist : List Ev := []             -- newest first

def upd (f : Nat → Nat) (i v : Nat) : Nat → Nat := fun j => if j = i then v else f j

/-- `Chain.tryExec` -/
def tryExec (c : Chain) (index : Nat) (args : Args) : Chain :=
  if index < c.n then { c with invoked := c.invoked + 1, hist := .task index args :: c.hist }
  else { c with hist := .final false args :: c.hist }

/-- `Chain.invokeCallback` (with `next` inlined) -/
def invokeCallback (c : Chain) (err : Bool) (args : Args) : Chain :=
  if err then { c with hist := .final true args :: c.hist }
  else tryExec { c with cursor := c.cursor + 1 } (c.cursor + 1) args

def runClo (c : Chain) : Clo → Chain
  | .start => tryExec c 0 []
  | .cb e a => invokeCallback c e a

inductive Label | run | complete (i : Nat) (err : Bool) (res : Args)
  deriving Repr

def fire (c : Chain) : Label → Option Chain
  | .run => match c.queue with
    | [] => none
    | x :: rest => some (runClo { c with queue := rest, consumed := c.consumed + 1 } x)
  | .complete i e r =>
    if i < c.invoked then
      some { c with calls := upd c.calls i (c.calls i + 1), queue := c.queue ++ [.cb e r], hist := .done i e r :: c.hist }
    else none

def run : Chain → List Label → Option Chain
  | c, [] => some c
  | c, l :: ls => match fire c l with
    | none => none
    | some c' => run c' ls

inductive Reachable (n : Nat) : Chain → Prop
  | init : Reachable n { n := n }
  | step {c c' : Chain} (l : Label) : Reachable n c → fire c l = some c' → Reachable n c'

/-- the observable history, oldest first -/
def Chain.trace (c : Chain) : List Ev := c.hist.reverse

def isFinal : Ev → Bool | .final _ _ => true | _ => false
def isDone : Ev → Bool | .done _ _ _ => true | _ => false
def isTask : Ev → Bool | .task _ _ => true | _ => false

def finals (h : List Ev) : Nat := (h.filter isFinal).length
def dones (h : List Ev) : Nat := (h.filter isDone).length
def tasks (h : List Ev) : Nat := (h.filter isTask).length

def taskIdxs (h : List Ev) : List Nat := h.filterMap fun | .task i _ => some i | _ => none

/-- "each invoked task completes at most once" -/
def AtMostOnce (c : Chain) : Prop := ∀ i, c.calls i ≤ 1
/-- "each invoked task completes exactly once" -/
def ExactlyOnce (c : Chain) : Prop := ∀ i, i < c.invoked → c.calls i = 1

/-! ### `Builder` (`NewBuilder(s).Next(t)….Final(f).Do()`), the object may be used for several chains

Value level (used by the driver): `Next` appends, `Do` hands everything the builder holds to `Sche`; nothing is ever
taken out of a builder, so a second `Do` starts a chain over the tasks so far plus the new ones. -/

structure Builder (α : Type) where
  tasks : List α := []

def Builder.next {α : Type} (b : Builder α) (t : α) : Builder α := { b with tasks := b.tasks ++ [t] }
/-- the task list `Do` passes to `Sche` -/
def Builder.chainTasks {α : Type} (b : Builder α) : List α := b.tasks

/-! Memory level: `b.tasks` is a Go slice (backing array, len, cap); `append` writes in place while `len < cap` and moves
to a fresh array otherwise; `Sche` stores the caller's slice header as it is, so a started chain and the builder share a
backing array.  `Props.C15.started_chain_keeps_its_tasks`: whatever is built afterwards, no started chain's task window
changes (the builder's `len` never shrinks, so every in-place write lands at or beyond each started chain's `len`). -/

structure Sl where
  arr : Nat
  len : Nat
  cap : Nat
  deriving DecidableEq, Repr

structure BMem (α : Type) where
  store : Nat → Nat → Option α := fun _ _ => none   -- backing array → index → cell
  fresh : Nat := 1                                  -- next unused backing array (array 0: `make([]Task, 0)`)
  b : Sl := ⟨0, 0, 0⟩                               -- `Builder.tasks`
  chains : List Sl := []                            -- `Chain.tasks` of the chains started so far, newest first

inductive BOp (α : Type) | next (t : α) | do_

/-- Go `append(b.tasks, t)` / `Sche(b.sche, b.tasks, b.final)` -/
def BMem.step {α : Type} (m : BMem α) : BOp α → BMem α
  | .next t =>
    if m.b.len < m.b.cap then
      { m with store := fun a i => if a = m.b.arr ∧ i = m.b.len then some t else m.store a i,
               b := { m.b with len := m.b.len + 1 } }
    else
      { m with store := fun a i => if a = m.fresh then (if i < m.b.len then m.store m.b.arr i else if i = m.b.len then some t else none)
                                   else m.store a i,
               fresh := m.fresh + 1,
               b := ⟨m.fresh, m.b.len + 1, 2 * m.b.cap + 1⟩ }
  | .do_ => { m with chains := m.b :: m.chains }

def BMem.steps {α : Type} (m : BMem α) : List (BOp α) → BMem α
  | [] => m
  | o :: os => (m.step o).steps os

/-- what a chain holding slice `c` sees as its task list -/
def BMem.view {α : Type} (m : BMem α) (c : Sl) : List (Option α) := (List.range c.len).map (m.store c.arr)

/-- the seeded variant of `Do` that "resets the builder for reuse": `b.tasks = b.tasks[:0]` after starting the chain -/
def BMem.stepReset {α : Type} (m : BMem α) : BOp α → BMem α
  | .do_ => { m with chains := m.b :: m.chains, b := { m.b with len := 0 } }
  | o => m.step o

/-! ### a chain on a scheduler that may be stopped (composition with `Sche.Post` on a closed channel)

`callbackFunc` is `sche.Post(func(){ invokeCallback(err, args…) })`.  On a stopped
scheduler `Post` recovers the send on the closed channel and returns nil
(utils/sche/sche.go, `Post`): the callback call has no effect at all on the chain.
Closures already queued may still be drained by the consumer after `Stop` (any
prefix, `Handler`'s select between the closed task channel and `chanClose`).
`refused` counts the dropped callback calls. -/

structure SChain where
  core : Chain
  stopped : Bool := false
  refused : Nat := 0

inductive SLabel | inner (l : Label) | stop
  deriving Repr

def fireS (s : SChain) : SLabel → Option SChain
  | .stop => some { s with stopped := true }
  | .inner .run => (fire s.core .run).map fun c => { s with core := c }
  | .inner (.complete i e r) =>
    if s.stopped then
      (if i < s.core.invoked then some { s with refused := s.refused + 1 } else none)
    else (fire s.core (.complete i e r)).map fun c => { s with core := c }

def runS : SChain → List SLabel → Option SChain
  | s, [] => some s
  | s, l :: ls => match fireS s l with
    | none => none
    | some s' => runS s' ls

inductive ReachableS (n : Nat) : SChain → Prop
  | init : ReachableS n { core := { n := n } }
  | step {s s' : SChain} (l : SLabel) : ReachableS n s → fireS s l = some s' → ReachableS n s'

end Cell2v.Waterfall
