import Cell2v.Model.ClientServe
/-!
C02 — the front-end as ONE state machine shared by every request (answer to "requests are independent
in the model"): a transition system in which all requests of all connections go through the same

* mailbox of the front service (FIFO `mbox`: client messages posted by the session readers
  — `SessionsImpl.ProcessMessage` → scheduler.Post —, routing-key changes of a session, and the
  replies of back-ends, which `Service.handleResponse` processes on the same goroutine),
* session table (`sessions`: `AddSession` / `RemoveSession` are tasks of the same mailbox, posted by
  `OnSessionCreate` / `OnSessionClose`; a message whose session the owner does not find is dropped —
  sessions.go `ProcessMessage`; `keys`: the routing key stored in the front session, read when the
  message is PROCESSED by the owner, not when it was sent),
* pending table and request-id allocator of the front's `actorex/service.Service`
  (`pending`, `nextId`: `RequestEx` stores the callback closure — which captures `session` and `msg`,
  forwarder.go — under a fresh id; a reply completes the entry stored under ITS id and nothing else;
  the expiry scan completes an entry with `ErrTimeout`; a reply that finds no entry is a "miss
  response" and is dropped),
* and the back-ends' queues (`calls`: `sys.call`/`sys.notify` envelopes in transit or queued at an
  instance; `dones`: results completed there whose `msgs.Response` has not reached the front yet).

Every step of the system is an event `Ev`; a schedule is ANY list of events — the scheduler is an
adversary: it decides when the owner takes the next task, which queued call a back-end handles next
(any order, also across instances), whether a back-end handler completes at all (`lose`) or twice
(`dup`), when a completed reply travels, when a delayed front-local
completion fires, and when the expiry scan hits a pending entry (time is abstract: an entry may
expire at any moment, so "the reply comes late" and "the reply comes in time" are both schedules).

The per-message logic is the one of `Model/ClientServe.lean` (`tryCallCol`, `processForward`,
`splitClientRoute`, `routeSerialisable`, `envelope`, `wireLocal`), cut where the code is asynchronous:
`frontMsg` is `Process`/`Forward` up to the `RequestEx`; `Ev.back` is `sys.call` → `ProcessForwardMsg`
at the instance; the `.reply` task is the callback of `Forward`.

Simplifications (stated, not hidden): ids come from a counter that does not wrap (the wrap at
`MaxReqId` and the re-use of an id that is still pending is C01's property); a response addressed to a
session that was closed meanwhile still appears in `out` (the real `ResponseMID` refuses a closed
session: the exactly-one theorems are about connections that stay open, C05 owns the rest).
-/
namespace Cell2v.ClientServe.Shared
open Cell2v.ClientServe

/-- remove the `i`-th element -/
def pick {α : Type} : Nat → List α → Option (α × List α)
  | _, [] => none
  | 0, x :: xs => some (x, xs)
  | n + 1, x :: xs =>
    match pick n xs with
    | none => none
    | some (y, r) => some (y, x :: r)

/-- remove the first element that satisfies `p` (the lookup + delete of `Service.Handlers[reqId]`) -/
def pickFirst {α : Type} (p : α → Bool) : List α → Option (α × List α)
  | [] => none
  | x :: xs =>
    if p x then some (x, xs)
    else match pickFirst p xs with
      | none => none
      | some (y, r) => some (y, x :: r)

/-- an entry of the front service's pending table: the request id it is stored under and what the
callback closure of `Forward` captured -/
structure PEntry where
  reqId : Nat
  s : Sess
  msg : ClientMsg

/-- a response: the wire sees `(s.sid, e.id, res)`; `s` (the session as it was when the owner processed
the message) and `e` (the envelope) are carried along as the reason WHY it is written — ghost fields,
nothing reads them but `Wr.wire` and the theorems -/
structure Wr where
  s : Sess
  e : ClientMsg
  res : Result

def Wr.wire (x : Wr) : Nat × Nat × Result := (x.s.sid, x.e.id, x.res)

/-- a task in the front service's mailbox -/
inductive Task
  /-- `OnSessionCreate` → `AddSession`: the session is entered in the front's table -/
  | add (sid : Nat)
  /-- `OnSessionClose` → `RemoveSession` -/
  | remove (sid : Nat)
  /-- a message read from connection `sid` (as on the wire) -/
  | msg (sid : Nat) (m : ClientMsg)
  /-- the routing key of session `sid` is set (e.g. a pushed back-session) -/
  | setKey (sid : Nat) (k : String)
  /-- the reply to service request `r` -/
  | reply (r : Nat) (rep : BackReply)

/-- a forwarded envelope on its way to / queued at instance `dest`; `r = none`: `NotifyEx` -/
structure Call where
  dest : String
  r : Option Nat
  f : FwdMsg

structure FSt where
  /-- `ClientSessions.sessions`: the connections the owner has registered -/
  sessions : List Nat := []
  keys : List (Nat × String) := []
  nextId : Nat := 0
  pending : List PEntry := []
  mbox : List Task := []
  calls : List Call := []
  dones : List (Nat × BackReply) := []
  /-- front-local handlers that complete later (timer of the front service) -/
  ltimers : List Wr := []
  /-- responses written, oldest first -/
  out : List Wr := []
  /-- ghost: messages the owner found no session for (`ProcessMessage`: `fs == nil → return`) -/
  dropped : List (Nat × ClientMsg) := []
  inv : List (String × String × String × Nat) := []

inductive Ev
  /-- a connection is accepted: `OnSessionCreate` posts the `AddSession` -/
  | «open» (sid : Nat)
  /-- a connection ends: `OnSessionClose` posts the `RemoveSession` -/
  | close (sid : Nat)
  | send (sid : Nat) (m : ClientMsg)
  | setKey (sid : Nat) (k : String)
  /-- the owner of the front takes the next task of its mailbox -/
  | front
  /-- the `i`-th queued call is handled by its destination -/
  | back (i : Nat)
  /-- the `i`-th completed reply reaches the front's mailbox -/
  | deliver (i : Nat)
  /-- the `i`-th delayed front-local completion fires -/
  | fire (i : Nat)
  /-- the expiry scan completes the `i`-th pending entry with `ErrTimeout` -/
  | expire (i : Nat)
  /-- back-end misbehaviour: the `i`-th queued call is consumed and NEVER completed (an asynchronous
  handler whose continuation dies: timer.Mgr / sche recover and swallow the panic; a lost message) -/
  | lose (i : Nat)
  /-- back-end misbehaviour: the `i`-th completed reply is sent TWICE (a handler that panics after it
  completed: `SafeCall` completes a second time; a handler that calls its completion twice) -/
  | dup (i : Nat)

def keyOf (keys : List (Nat × String)) (sid : Nat) : Option String :=
  (keys.find? (fun x => x.1 == sid)).map (·.2)

/-- the envelope as `Forward` stamps it (`msg.ID`/`FrontId` are not observable; `SessionId` was set by
`SessionsImpl.ProcessMessage` on the owner goroutine) -/
def fwdOf (s : Sess) (e : ClientMsg) : FwdMsg := ⟨s.sid, e.id, e.route, e.pay⟩

/-- `app.RoutePID`'s choice for this session: the instance name the route function returns -/
def destOf (c : Cfg) (s : Sess) (e : ClientMsg) : String := c.route (splitClientRoute e.route).1 s

/-- what the owner decides to do with one client message -/
inductive Outcome
  | nothing
  /-- `ResponseMID` now -/
  | write (x : Wr)
  /-- a front-local handler that completes later through the front's timer -/
  | later (x : Wr)
  /-- `NotifyEx(pid, "sys.notify", msg)` -/
  | notify (cl : Call)
  /-- `RequestEx(pid, "sys.call", msg, callback)`: the callback closes over the session and the envelope -/
  | request (s : Sess) (e : ClientMsg) (dest : String)

/-- `HandlerComponent.Process` → `tryCallCol` | `Forward` (up to the `RequestEx`), on the envelope;
second component: the handler invocations at the front -/
def classify (c : Cfg) (s : Sess) (e : ClientMsg) : Outcome × List (String × String × String × Nat) :=
  let p := splitClientRoute e.route
  if p.1 = c.frontType then
    let r := tryCallCol fixed c c.frontName c.frontType p.2.1 p.2.2 e.id e.pay
    ((match r.done with
      | none => .nothing
      | some (d, res) =>
        if e.id = 0 then .nothing                                             -- ResponseMID refuses id 0
        else if d = 0 then .write ⟨s, e, wireLocal res⟩
        else .later ⟨s, e, wireLocal res⟩),
     invocations (invokeEff c.frontName p.2.1 p.2.2 r.invoked))
  else
    let rt := destOf c s e
    ((match (if rt = "" then none else c.dir rt) with
      | none => if e.id = 0 then .nothing else .write ⟨s, e, .error⟩
      | some _ =>
        if routeSerialisable e.route = false then (if e.id = 0 then .nothing else .write ⟨s, e, .error⟩)
        else if e.id = 0 then .notify ⟨rt, none, fwdOf s e⟩
        else .request s e rt), [])

def applyOutcome (st : FSt) : Outcome → FSt
  | .nothing => st
  | .write x => { st with out := st.out ++ [x] }
  | .later x => { st with ltimers := st.ltimers ++ [x] }
  | .notify cl => { st with calls := st.calls ++ [cl] }
  | .request s e dest =>
    -- `Service.RequestEx`: a fresh id; the callback is stored under it; the envelope is sent
    { st with nextId := st.nextId + 1,
              pending := st.pending ++ [⟨st.nextId, s, e⟩],
              calls := st.calls ++ [⟨dest, some st.nextId, fwdOf s e⟩] }

/-- `ClientSessions.ProcessMessage`: the session (and the routing key stored in it) is looked up NOW -/
def frontMsg (c : Cfg) (st : FSt) (sid : Nat) (m : ClientMsg) : FSt :=
  let s : Sess := ⟨sid, keyOf st.keys sid, true⟩
  let o := classify c s (envelope m)
  applyOutcome { st with inv := st.inv ++ o.2 } o.1

def frontTask (c : Cfg) (st : FSt) : Task → FSt
  | .add sid => { st with sessions := sid :: st.sessions }
  | .remove sid => { st with sessions := st.sessions.filter (fun x => x != sid) }
  | .msg sid m =>
    -- `ClientSessions.ProcessMessage`: `findSession(session.GetId())`; nil → the message is dropped
    if st.sessions.contains sid then frontMsg c st sid m
    else { st with dropped := st.dropped ++ [(sid, m)] }
  | .setKey sid k => { st with keys := (sid, k) :: st.keys }
  | .reply r rep =>
    match pickFirst (fun e => e.reqId == r) st.pending with
    | none => st                                                              -- "miss response"
    | some (e, rest) =>
      if rep.sessionId ≠ e.s.sid ∨ rep.clientReqId ≠ e.msg.id then { st with pending := rest }   -- "missmatch res"
      else { st with pending := rest, out := st.out ++ [⟨e.s, e.msg, rep.res⟩] }

def step (c : Cfg) (st : FSt) : Ev → FSt
  | .open sid => { st with mbox := st.mbox ++ [.add sid] }
  | .close sid => { st with mbox := st.mbox ++ [.remove sid] }
  | .send sid m => { st with mbox := st.mbox ++ [.msg sid m] }
  | .setKey sid k => { st with mbox := st.mbox ++ [.setKey sid k] }
  | .front =>
    match st.mbox with
    | [] => st
    | t :: ts => frontTask c { st with mbox := ts } t
  | .back i =>
    match pick i st.calls with
    | none => st
    | some (cl, rest) =>
      match c.dir cl.dest with
      | none => { st with calls := rest }
      | some inst =>
        if inst.alive = false then { st with calls := rest }
        else
          let o := processForward fixed c cl.dest inst cl.f
          let st := { st with calls := rest, inv := st.inv ++ invocations o.1 }
          match o.2, cl.r with
          | some dr, some r => { st with dones := st.dones ++ [(r, dr.2)] }
          | _, _ => st
  | .deliver i =>
    match pick i st.dones with
    | none => st
    | some (x, rest) => { st with dones := rest, mbox := st.mbox ++ [.reply x.1 x.2] }
  | .fire i =>
    match pick i st.ltimers with
    | none => st
    | some (x, rest) => { st with ltimers := rest, out := st.out ++ [x] }
  | .expire i =>
    match pick i st.pending with
    | none => st
    | some (e, rest) => { st with pending := rest, out := st.out ++ [⟨e.s, e.msg, .error⟩] }
  | .lose i =>
    match pick i st.calls with
    | none => st
    | some (_, rest) => { st with calls := rest }
  | .dup i =>
    match pick i st.dones with
    | none => st
    | some (x, _) => { st with dones := st.dones ++ [x] }

def run (c : Cfg) : FSt → List Ev → FSt
  | st, [] => st
  | st, ev :: evs => run c (step c st ev) evs

/-- messages posted on connection `cn` whose envelope id is `i` -/
def sentCount (cn i : Nat) : List Ev → Nat
  | [] => 0
  | .send sid m :: evs => (if sid = cn ∧ m.id % idWrap = i then 1 else 0) + sentCount cn i evs
  | _ :: evs => sentCount cn i evs

/-- connection `cn` is used the way a real connection can be: nothing is sent on it before it was
opened (the reader goroutine exists only after `OnSessionCreate`), and it is not closed; `o` = it has
been opened already -/
def wellUsed (cn : Nat) : Bool → List Ev → Bool
  | _, [] => true
  | o, .open sid :: evs => wellUsed cn (o || sid == cn) evs
  | o, .close sid :: evs => sid != cn && wellUsed cn o evs
  | o, .send sid _ :: evs => (sid != cn || o) && wellUsed cn o evs
  | o, _ :: evs => wellUsed cn o evs

/-- nothing left to do for the front: no task queued, no request pending, no local completion outstanding -/
def Quiet (st : FSt) : Prop := st.mbox = [] ∧ st.pending = [] ∧ st.ltimers = []

/-- a fair "drain everything" continuation: enough `front`/`back`/`deliver`/`fire`/`expire` rounds -/
def drain : Nat → List Ev
  | 0 => []
  | n + 1 => [.front, .back 0, .deliver 0, .front, .fire 0] ++ drain n

end Cell2v.ClientServe.Shared
