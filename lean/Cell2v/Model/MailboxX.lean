import Cell2v.Model.Mailbox
/-!
C09 — `FineX`: the fine mailbox model (`Model/Mailbox.lean`) extended by the parts of
`run()` that `Fine` leaves out.  The state wraps a `Fine.St`; every `Fine` label is still a
label (`.base l`), so every schedule of `Fine` is a schedule of `FineX`.

* the throughput counter: `i, t := 0, m.dispatcher.Throughput()`, `i++` once per iteration
  (between "run.iter" and "run.pops"), and at the loop head `if i > t { i = 0 }` — a branch
  whose body has no other effect in the code as it is.  `i` is reset by `take`, incremented by
  the iteration step, and wrapped at the loop head after a successful pop (`continue`).
* a panicking handler: `InvokeUserMessage` / `InvokeSystemMessage` panics, the deferred
  `recover()` of `run()` calls `EscalateFailure(r, msg)` and `run()` RETURNS (to "pm.idle"); the
  popped message is gone, the counter was already decremented (`popUPanic`, `popSPanic`).
* the `MaxMsgNumToSmooth` branch: with `userMessages >= 100000` an exhausted frame budget does
  not start a smoothing pause, `run()` calls `runtime.Gosched()` and carries on (`iterGosched`);
  `iterOver` (begin a pause) is enabled only below the bound.  (The plain, unsynchronised read
  of `userMessages` is taken to return the current value.)
-/
namespace Cell2v.Mailbox
namespace FineX

def maxMsgNumToSmooth : Int := 100000

structure St where
  s : Fine.St
  i : Nat := 0                    -- run()'s loop counter
  t : Nat := 99                   -- dispatcher.Throughput()
  wraps : Nat := 0                -- ghost: how often the `i > t` branch was taken
  escU : List Nat := []           -- user messages handed to EscalateFailure, in order
  escS : List (Fine.SK × Nat) := []
  sysSeen : Nat := 0              -- ghost: how many system messages had been pushed when the consumer last popped
                                  -- the system queue ("run.pops", whatever the outcome)
  deriving Repr

inductive Lbl
  | base (l : Fine.Lbl)
  | popUPanic     -- "run.popu": the handler of the popped user message panics
  | popSPanic     -- "run.pops": the handler of the popped (normal) system message panics
  | iterGosched   -- "run.iter": budget exhausted with >= 100000 queued: Gosched, continue
  deriving DecidableEq, Repr

/-- the loop head `if i > t { i = 0 }` -/
def wrap (x : St) : St := if x.i > x.t then { x with i := 0, wraps := x.wraps + 1 } else x

/-- bookkeeping of the loop counter for a base step that `Fine` allowed (`x` is the state before) -/
def count (x : St) (l : Fine.Lbl) (x' : St) : St :=
  match l with
  | .take => { x' with i := 0 }
  | .iterOk => { x' with i := x.i + 1 }
  | .popS => if x.s.sq = [] then { x' with sysSeen := x.s.pushedS.length }
             else wrap { x' with sysSeen := x.s.pushedS.length }
  | .popU => if x.s.uq = [] then x' else wrap x'
  | _ => x'

def fire (x : St) : Lbl → Option St
  | .base l =>
    if l = .iterOver ∧ x.s.um ≥ maxMsgNumToSmooth then none else
    match Fine.fire x.s l with
    | none => none
    | some s' => some (count x l { x with s := s' })
  | .iterGosched =>
    if x.s.um ≥ maxMsgNumToSmooth then
      match Fine.fire x.s .iterOk with
      | none => none
      | some s' => some { x with s := s', i := x.i + 1 }
    else none
  | .popUPanic =>
    match x.s.uq with
    | [] => none
    | id :: _ =>
      match Fine.fire x.s .popU with
      | none => none
      | some s' => some { x with s := { s' with c := .a1 }, escU := x.escU ++ [id] }
  | .popSPanic =>
    match x.s.sq with
    | (.normal, id) :: _ =>
      match Fine.fire x.s .popS with
      | none => none
      | some s' => some { x with s := { s' with c := .a1 }, escS := x.escS ++ [(.normal, id)],
                                 sysSeen := x.s.pushedS.length }
    | _ => none

def init (t : Nat) : St := { s := Fine.init, t := t }

def runL (x : St) : List Lbl → Option St
  | [] => some x
  | l :: ls => match fire x l with
    | none => none
    | some x' => runL x' ls

end FineX
end Cell2v.Mailbox
