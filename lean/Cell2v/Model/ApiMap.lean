/-
C13 — model of the API mapper
  apimapper/formater/formater.go        (IsValidMethod = isValidRequest || isValidNotify)
  apimapper/apientry/container.go       (NewContainer, suitableHandlerMethods, ExtractHandler, CallMethod with its closures
                                         handlerCB / panicCB around `completed` (fix of D23), SafeCall)
  apimapper/apientry/collection.go      (Build/newService, splitRoute, GetArgType/HasMethod, Call)
  apimapper/apientry/caller.go          (CallWithSerialize)
  apimapper/apientry/utils.go           (isExported, makeValueMaybeNil, CheckInvokeCBFunc, ToLowerCamelCase)
  apimapper/registry/api_registry.go    (a name-keyed store of collections; Build builds every one)
  actorex/service/api.go                (APIDispatcher.Dispatch / tryCall / tryCallCol)

A method is described by the raw facts `reflect` reports about it (the harness
dumps them, the model applies its own predicate).  Names, routes and type
identities are byte strings.  Everything that can go wrong inside
`reflect.Value.Call` (wrong context type, wrong message type, a 4th parameter
the completion function is not assignable to, wrong argument count) is the
outcome `recovered` (the panic is caught by `SafeCall`); the one reflect call
*outside* `SafeCall` (`argType.Elem()` in `CallWithSerialize`) is the outcome
`escaped`, so that "nothing escapes as a panic" is a proof obligation.

Modelled, not verified: the serializer is an abstract function
`Decoder : type id → payload → Option value`; Go's method-set rule (a value
entry exposes only value-receiver methods, `reflect` lists only exported
methods, sorted by name) is built into `methodSet`; assignability of a caller-supplied
context / message value to the declared parameter type is `assignableTo`: identity, `*E` to a
named pointer type `type P *E`, else the relation `reflect` reports (dumped by the harness).
-/
namespace Cell2v.ApiMap

abbrev Bytes := List Nat

inductive Kind | ptr | struct | func | iface | slice | map | chan | array | other
  deriving DecidableEq, Repr

/-- `reflect.Type.Elem()` is defined (Array, Chan, Map, Pointer, Slice) — it panics for every other kind -/
def Kind.hasElem : Kind → Bool
  | .ptr | .slice | .map | .chan | .array => true
  | _ => false

/-- what `reflect` says about one parameter type -/
structure TyDesc where
  kind : Kind
  implCtx : Bool        -- t.Implements(api.TypeOfContext)
  cbAssignable : Bool   -- a value of type HandlerCBFunc is assignable to t
  id : Bytes            -- t.String()
  asgFrom : List Bytes := []    -- t'.String() of the OTHER types t' (of the harness's value pool) with t'.AssignableTo(t)
  newId : Option Bytes := none  -- reflect.PtrTo(t.Elem()).String() where that is another type than t (t a NAMED pointer type)
  zero : Option Bytes := none   -- the harness's digest of the zero value of t where that is not a nil pointer (observations only)
  deriving DecidableEq, Repr

def TyDesc.none : TyDesc := ⟨.other, false, false, [], [], Option.none, Option.none⟩

/-- the type of `reflect.New(t.Elem())`, the value `CallWithSerialize` decodes into: `t` itself
for an ordinary pointer type `*E`, the unnamed `*E` for a named pointer type `type P *E` -/
def TyDesc.builtId (t : TyDesc) : Bytes := t.newId.getD t.id

/-- `reflect.Value.Call`'s test `dynamic type AssignableTo(parameter type)`: identity, the Go rule
"`*E` is assignable to `type P *E`" (identical underlying types, one side unnamed), else the dumped relation -/
def assignableTo (dyn : Bytes) (t : TyDesc) : Bool :=
  dyn == t.id || (t.kind == .ptr && dyn == t.builtId) || t.asgFrom.contains dyn

/-- what `reflect` says about one method (`ins[0]` is the receiver) -/
structure Method where
  name : Bytes
  id : Bytes            -- identity of the method body (used in observations only)
  exported : Bool       -- method.PkgPath == ""
  valRecv : Bool        -- the method is in the method set of the value type
  ins : List TyDesc
  deriving DecidableEq, Repr

/-! ## formater.DefaultFormater -/

/-- `isValidRequest`, statement by statement -/
def isValidRequest (m : Method) : Bool :=
  if !m.exported then false
  else if m.ins.length != 4 then false
  else match m.ins[1]?, m.ins[2]?, m.ins[3]? with
    | some t1, some t2, some t3 =>
      if t1.kind != .ptr || !t1.implCtx then false
      else if t2.kind != .ptr then false
      else if t3.kind != .func then false
      else true
    | _, _, _ => false

/-- `isValidNotify` -/
def isValidNotify (m : Method) : Bool :=
  if !m.exported then false
  else if m.ins.length != 3 then false
  else match m.ins[1]?, m.ins[2]? with
    | some t1, some t2 =>
      if t1.kind != .ptr || !t1.implCtx then false
      else if t2.kind != .ptr then false
      else true
    | _, _ => false

def isValidMethod (m : Method) : Bool := isValidRequest m || isValidNotify m

/-! ### the property's own wording of "handler shape" -/

/-- exported, `(receiver, context pointer implementing IContext, message pointer)`
plus optionally a completion function (any func type, as the code has it) -/
def HandlerShaped (m : Method) : Prop :=
  m.exported = true ∧
  ∃ recv ctx msg, ctx.kind = .ptr ∧ ctx.implCtx = true ∧ msg.kind = .ptr ∧
    (m.ins = [recv, ctx, msg] ∨ ∃ cb, cb.kind = .func ∧ m.ins = [recv, ctx, msg, cb])

/-- executable form of `HandlerShaped`, used by the spec monitor (`handlerShapedB_iff`) -/
def handlerShapedB (m : Method) : Bool :=
  m.exported &&
  match m.ins with
  | [_, ctx, msg] => ctx.kind == .ptr && ctx.implCtx && msg.kind == .ptr
  | [_, ctx, msg, cb] => ctx.kind == .ptr && ctx.implCtx && msg.kind == .ptr && cb.kind == .func
  | _ => false

/-- a handler-shaped method takes a completion function iff it has 4 parameters -/
def takesCallback (m : Method) : Bool := m.ins.length == 4

/-! ## containers -/

structure Handler where
  meth : Method
  eid : Nat             -- the registered entry (receiver instance) it belongs to
  ctxT : TyDesc         -- mt.In(1)
  argT : TyDesc         -- mt.In(2)
  isRequest : Bool      -- mt.NumIn() == 4
  deriving DecidableEq, Repr

def mkHandler (eid : Nat) (m : Method) : Handler :=
  { meth := m, eid := eid, ctxT := (m.ins[1]?).getD TyDesc.none, argT := (m.ins[2]?).getD TyDesc.none,
    isRequest := m.ins.length == 4 }

/-- a registered entry with its options -/
structure Entry where
  eid : Nat
  typeName : Bytes                    -- reflect.Indirect(receiver).Type().Name()
  isPtr : Bool                        -- registered as a pointer
  methods : List Method               -- every declared method, in reflect order (sorted by name)
  group : Bytes                       -- options.groupName ("" = not set)
  nameFunc : Option (Bytes → Bytes)   -- options.nameFunc
  isNil : Bool := false               -- a nil interface / typed nil pointer was registered

def applyNF (nf : Option (Bytes → Bytes)) (s : Bytes) : Bytes :=
  match nf with
  | none => s
  | some f => f s

/-- what `typ.NumMethod()/typ.Method(i)` enumerate for the registered value -/
def methodSet (e : Entry) : List Method :=
  e.methods.filter (fun m => m.exported && (e.isPtr || m.valRecv))

/-- first-match lookup in an association list -/
def lookup {α : Type} : List (Bytes × α) → Bytes → Option α
  | [], _ => none
  | (k', v) :: r, k => if k' = k then some v else lookup r k

/-- `suitableHandlerMethods`: the loop over the methods; `methods[mn] = …`
overwrites, which is "cons in front" for a first-match lookup -/
def suitableAux (fmtOK : Bool) (nf : Option (Bytes → Bytes)) (eid : Nat) :
    List (Bytes × Handler) → List Method → List (Bytes × Handler)
  | acc, [] => acc
  | acc, m :: ms =>
    let mn := applyNF nf m.name
    if fmtOK && isValidMethod m then suitableAux fmtOK nf eid ((mn, mkHandler eid m) :: acc) ms
    else suitableAux fmtOK nf eid acc ms

def suitable (fmtOK : Bool) (nf : Option (Bytes → Bytes)) (eid : Nat) (ms : List Method) : List (Bytes × Handler) :=
  suitableAux fmtOK nf eid [] ms

structure Container where
  name : Bytes
  handlers : List (Bytes × Handler)
  deriving DecidableEq

/-- `NewContainer`: group name from the option, else the (renamed) type name -/
def containerName (e : Entry) : Bytes :=
  if e.group ≠ [] then e.group else applyNF e.nameFunc e.typeName

/-- `isExported` (ASCII names: first byte in 'A'..'Z') -/
def isExportedName : Bytes → Bool
  | c :: _ => 65 ≤ c && c ≤ 90
  | [] => false

/-- `ExtractHandler`; `none` = an error is returned and the entry is dropped -/
def extractHandler (fmtOK : Bool) (e : Entry) : Option Container :=
  if e.typeName = [] then none
  else if !isExportedName e.typeName then none
  else
    let hs := suitable fmtOK e.nameFunc e.eid (methodSet e)
    if hs.isEmpty then none else some ⟨containerName e, hs⟩

abbrev Collection := List Container

def findC (col : Collection) (g : Bytes) : Option Container := col.find? (fun c => c.name = g)

/-- `newService`: an already defined group name wins, a failing extraction drops the entry -/
def newService (fmtOK : Bool) (col : Collection) (e : Entry) : Collection :=
  match findC col (containerName e) with
  | some _ => col
  | none =>
    match extractHandler fmtOK e with
    | none => col
    | some c => col ++ [c]

/-- `APICollection.Build` -/
def build (fmtOK : Bool) (es : List Entry) : Collection := es.foldl (newService fmtOK) []

/-! ## `Build` as it can also go: any formater, nil entries (registration-time panics)

`SetFormater` takes any `IAPIFormatter`; `Register` takes any `IAPIEntry`, nil included.  `buildX` is `Build`
with the reflect calls that can panic there: `mt.In(1)`/`mt.In(2)` in `suitableHandlerMethods` on a method with
fewer than three parameters that the formater accepted, and `reflect.Indirect(receiver).Type()` on a nil entry
(in `NewContainer` when no group name is configured, else in `ExtractHandler` — unless the group is already
defined, which returns first).  `Lemmas.buildX_default`: with the default (or no) formater and no nil entry it
is `build` and does not panic. -/

abbrev Formater := Option (Method → Bool)

/-- the default formater, or nil -/
def Formater.ofBool (fmtOK : Bool) : Formater := if fmtOK then some isValidMethod else none

def Formater.accepts (f : Formater) (m : Method) : Bool :=
  match f with
  | none => false
  | some p => p m

/-- `suitableHandlerMethods`; `none` = it panics -/
def suitableAuxX (fmt : Formater) (nf : Option (Bytes → Bytes)) (eid : Nat) :
    List (Bytes × Handler) → List Method → Option (List (Bytes × Handler))
  | acc, [] => some acc
  | acc, m :: ms =>
    if fmt.accepts m then
      if m.ins.length < 3 then none                      -- mt.In(1) / mt.In(2)
      else suitableAuxX fmt nf eid ((applyNF nf m.name, mkHandler eid m) :: acc) ms
    else suitableAuxX fmt nf eid acc ms

/-- what `reflect.PtrTo(c.Type)` enumerates (the "hint: pass a pointer" pass of `ExtractHandler`) -/
def ptrMethodSet (e : Entry) : List Method := if e.isPtr then [] else e.methods.filter (·.exported)

/-- `ExtractHandler`: outer `none` = panic, inner `none` = an error is returned and the entry is dropped -/
def extractHandlerX (fmt : Formater) (e : Entry) : Option (Option Container) :=
  if e.isNil then none                                   -- reflect.Indirect(c.Receiver).Type()
  else if e.typeName = [] then some none
  else if !isExportedName e.typeName then some none
  else
    match suitableAuxX fmt e.nameFunc e.eid [] (methodSet e) with
    | none => none
    | some hs =>
      if hs.isEmpty then
        match suitableAuxX fmt e.nameFunc e.eid [] (ptrMethodSet e) with
        | none => none
        | some _ => some none
      else some (some ⟨containerName e, hs⟩)

/-- `newService` (with `NewContainer`); `none` = panic -/
def newServiceX (fmt : Formater) (col : Collection) (e : Entry) : Option Collection :=
  if e.isNil && e.group = [] then none                   -- NewContainer: reflect.Indirect(s.Receiver).Type().Name()
  else
    match findC col (containerName e) with
    | some _ => some col
    | none =>
      match extractHandlerX fmt e with
      | none => none
      | some none => some col
      | some (some c) => some (col ++ [c])

/-- `APICollection.Build`: (the table as far as it got, it panicked) -/
def buildX (fmt : Formater) : List Entry → Collection → Collection × Bool
  | [], col => (col, false)
  | e :: r, col =>
    match newServiceX fmt col e with
    | none => (col, true)
    | some col' => buildX fmt r col'

/-! ## routes -/

/-- `strings.Split(s, sep)` for a one-byte separator: n separators give n+1 parts -/
def splitOn (sep : Nat) : Bytes → List Bytes
  | [] => [[]]
  | c :: r =>
    if c = sep then [] :: splitOn sep r
    else match splitOn sep r with
      | [] => [[c]]
      | p :: ps => (c :: p) :: ps

/-- `splitRoute`: two segments = group.method, one segment = method of the inner group "_" -/
def splitRoute (route : Bytes) : Option (Bytes × Bytes) :=
  match splitOn 46 route with
  | [a, b] => some (a, b)
  | [a] => some ([95], a)
  | _ => none

def lookupRoute (col : Collection) (g m : Bytes) : Option Handler :=
  (findC col g).bind (fun c => lookup c.handlers m)

def getHandler (col : Collection) (route : Bytes) : Option Handler :=
  (splitRoute route).bind (fun gm => lookupRoute col gm.1 gm.2)

/-- `APICollection.GetArgType` (`HasMethod` = it is non-nil) -/
def getArgType (col : Collection) (route : Bytes) : Option TyDesc := (getHandler col route).map (·.argT)

def hasMethod (col : Collection) (route : Bytes) : Bool := (getArgType col route).isSome

/-! ## calls -/

/-- the context handed to a call: a nil interface or a value of dynamic type `id` -/
inductive CtxArg | nil | ty (id : Bytes)
  deriving DecidableEq, Repr

/-- the `arg any` handed to `Call`: nil, or a value of dynamic type `ty` whose content is `v` -/
inductive ArgV | nil | val (ty : Bytes) (v : Bytes)
  deriving DecidableEq, Repr

inductive Outcome
  | fwErr                                               -- framework code completes the callback (if any) with an error
  | recovered                                           -- reflect.Call panicked inside SafeCall: completes with "panic in rpc"
  | invoked (h : Handler) (ctxSet : Bool) (arg : ArgV)  -- the handler ran once with (ctx, arg, callback)
  | nothing                                             -- logged and returned: callback neither run nor handed over
  | escaped                                             -- a panic leaves the API mapper
  deriving DecidableEq, Repr

/-- `reflect.Value.Call` accepts the argument list built by `CallMethod` -/
def typesOK (h : Handler) (ctx : CtxArg) (arg : ArgV) (withCb : Bool) : Bool :=
  (h.meth.ins.length == (if withCb then 4 else 3)) &&
  (match ctx with | .nil => true | .ty id => assignableTo id h.ctxT) &&
  (match arg with | .nil => true | .val t _ => assignableTo t h.argT) &&
  (!withCb || ((h.meth.ins[3]?).map (·.cbAssignable)).getD false)

/-- `SafeCall` -/
def safeCall (h : Handler) (ctx : CtxArg) (arg : ArgV) (withCb : Bool) : Outcome :=
  if typesOK h ctx arg withCb then .invoked h (ctx != .nil) arg else .recovered

/-- `APIContainer.CallMethod` -/
def callMethod (c : Container) (method : Bytes) (ctx : CtxArg) (arg : ArgV) (hasCb : Bool) : Outcome :=
  match lookup c.handlers method with
  | none => .fwErr
  | some h =>
    if h.isRequest then safeCall h ctx arg true        -- the callback (possibly nil) is the 4th argument
    else if hasCb then .nothing                        -- D11: "call notify with cb": log and return
    else safeCall h ctx arg false

/-- `APICollection.Call` -/
def call (col : Collection) (route : Bytes) (ctx : CtxArg) (arg : ArgV) (hasCb : Bool) : Outcome :=
  match splitRoute route with
  | none => .fwErr
  | some (g, m) =>
    match findC col g with
    | none => .fwErr
    | some c => callMethod c m ctx arg hasCb

/-- the serializer: declared type id → payload → decoded value, `none` = Unmarshal error -/
abbrev Decoder := Bytes → Bytes → Option Bytes

/-- `CallWithSerialize` -/
def callWithSerialize (col : Collection) (ser : Option Decoder) (route : Bytes) (ctx : CtxArg) (data : Bytes)
    (hasCb : Bool) : Outcome :=
  match ser with
  | none => .fwErr
  | some dec =>
    match getArgType col route with
    | none => .fwErr
    | some t =>
      if !t.kind.hasElem then .escaped                 -- argType.Elem() outside SafeCall
      else match dec t.id data with
        | none => .fwErr
        | some v => call col route ctx (.val t.builtId v) hasCb   -- reflect.New(argType.Elem())

/-! ## handler behaviour and completions -/

/-- what a handler does with the completion function it received: completes
`comps` (true = with a value, false = with an error), then possibly panics;
`bad` = its value completions carry something the caller's callback chokes on
(only the service dispatcher's callback does: it panics in `Response`) -/
structure Beh where
  comps : List Bool
  panics : Bool
  bad : Bool := false
  deriving DecidableEq, Repr

inductive Comp | h (ok : Bool) | f
  deriving DecidableEq, Repr

/-- the handler's completions as the callback sees them; `cbPanics` = the callback
panics on a `bad` value completion.  Returns (completions that went through, did a panic cut the handler short) -/
def playComps (cbPanics : Bool) : List Bool → List Comp × Bool
  | [] => ([], false)
  | c :: r =>
    if c && cbPanics then ([], true)
    else let (l, p) := playComps cbPanics r; (Comp.h c :: l, p)

/-- completions of the callback of one call, in order.  A request-shaped handler is handed `CallMethod`'s wrapper
`handlerCB` (call `cbFunc`, THEN remember `completed = true`), and `SafeCall`'s recover path is handed `panicCB`
(`if !completed { cbFunc(e, result) }`): after a panic (of the handler, or of a picky callback inside it) the framework's
own "panic in rpc" completion `.f` is made iff NO completion of the handler went through before (`l` is empty) -/
def completionsG (cbPanics : Bool) (o : Outcome) (hasCb : Bool) (b : Beh) : List Comp :=
  if !hasCb then []
  else match o with
    | .fwErr | .recovered => [.f]
    | .nothing | .escaped => []
    | .invoked h _ _ =>
      if h.isRequest then
        let (l, p) := playComps cbPanics b.comps
        l ++ (if (p || b.panics) && l.isEmpty then [.f] else [])
      else (if b.panics then [.f] else [])

def completions (o : Outcome) (hasCb : Bool) (b : Beh) : List Comp := completionsG false o hasCb b

/-- the code BEFORE the fix of D23 (/repo 7b326e6): the handler was handed `cbFunc` itself and the recover path
completed `cbFunc` unconditionally — a handler that completed and then panicked was completed a second time
(`Props.C13.prefix_complete_then_panic_completed_twice`).  Kept as a definition of its own for that witness only -/
def completionsGPre (cbPanics : Bool) (o : Outcome) (hasCb : Bool) (b : Beh) : List Comp :=
  if !hasCb then []
  else match o with
    | .fwErr | .recovered => [.f]
    | .nothing | .escaped => []
    | .invoked h _ _ =>
      if h.isRequest then
        let (l, p) := playComps cbPanics b.comps
        l ++ (if p || b.panics then [.f] else [])
      else (if b.panics then [.f] else [])

/-- handler discipline the exactly-once guarantee presupposes: the handler completes exactly once (and then returns
OR PANICS: since the fix of D23 the panic is not answered a second time), or panics before completing -/
def Beh.disciplined (b : Beh) : Bool := (b.comps.length == 1) || (b.comps.isEmpty && b.panics)

/-- the discipline hypothesis as it had to be before the fix of D23 (complete-then-panic excluded); implies `disciplined` -/
def Beh.disciplinedPre (b : Beh) : Bool := (b.comps.length == 1 && !b.panics) || (b.comps.isEmpty && b.panics)

/-! ## service dispatcher (actorex/service/api.go) -/

/-- `tryCall`: the first collection that has the route processes the request -/
def dispatchTarget (cols : List Collection) (route : Bytes) : Option Collection :=
  cols.find? (fun c => hasMethod c route)

/-- `Dispatch`: (return value, outcome of the call if one was made) -/
def dispatch (cols : List Collection) (dec : Decoder) (rc : Bytes) (route data : Bytes) (isNotify : Bool) :
    Bool × Option Outcome :=
  match dispatchTarget cols route with
  | none => (false, none)
  | some c => (true, some (callWithSerialize c (some dec) route (.ty rc) data (!isNotify)))

/-- responses sent to the requester, in order -/
def responses (r : Bool × Option Outcome) (isNotify : Bool) (b : Beh) : List Comp :=
  match r.2 with
  | none => if isNotify then [] else [.f]            -- "no method" through Response (dropped for a notify)
  | some o => completionsG b.bad o (!isNotify) b

/-! ## execution semantics: the same code as a program that EMITS EVENTS

The functions above return a summary (`Outcome`) and `completionsG` reads the
completions off it.  Here every function is written statement by statement as a
program in a tiny language with two effects — emitting an event and panicking
(`defer/recover` = `recoverWith`) — so that "the completion function is invoked
exactly once", "the handler runs at most once", "a framework completion carries
an error" are statements about the event list of an execution, and the summary
model is PROVED to agree with it (`Lemmas.callWithSerializeX_refines`).  The
driver prints observations from these executions. -/

/-- a completion function as the code sees it: `none` = nil; `some picky` = a function, `picky` = it panics
(before delivering anything) on a value it cannot take — the service dispatcher's closure does, in `Response` -/
abbrev Cb := Option Bool

inductive Ev
  | cb (byHandler : Bool) (isErr : Bool)              -- the completion function was invoked (by whom, with an error?)
  | run (h : Handler) (ctxSet : Bool) (arg : ArgV)    -- a handler body was entered
  deriving DecidableEq, Repr

/-- an execution: the events emitted, and whether it ended returning or panicking -/
structure Exec where
  evs : List Ev := []
  panicking : Bool := false
  deriving DecidableEq, Repr

def Exec.ret : Exec := {}
def Exec.panic : Exec := ⟨[], true⟩
def Exec.emit (e : Ev) : Exec := ⟨[e], false⟩

/-- `a; b` -/
def Exec.andThen (a b : Exec) : Exec := if a.panicking then a else ⟨a.evs ++ b.evs, b.panicking⟩

/-- `defer func() { if recover() != nil { handler } }(); body` -/
def Exec.recoverWith (body handler : Exec) : Exec :=
  if body.panicking then ⟨body.evs ++ handler.evs, handler.panicking⟩ else body

/-- the completion function `f` is called with (error | value); `bad` = the value is one a picky function chokes on -/
def invokeCb (picky byHandler isErr bad : Bool) : Exec :=
  if picky && !isErr && bad then .panic else .emit (.cb byHandler isErr)

/-- `CheckInvokeCBFunc(cbFunc, errors.New(…), nil)`: nil-check, then the call, always with an error -/
def checkInvokeCB (cb : Cb) : Exec :=
  match cb with
  | none => .ret
  | some picky => invokeCb picky false true false

/-- a function value of type `HandlerCBFunc` as `CallMethod` / `SafeCall` / the handler see it: nil, the caller's
`cbFunc` itself (`picky` as in `Cb`), or one of the two closures `CallMethod` builds around `cbFunc` for a
request-shaped handler — both close over the local variable `completed` (threaded explicitly below) -/
inductive CbF
  | nil
  | plain (picky : Bool)        -- cbFunc
  | handlerCB (picky : Bool)    -- func(e, result) { cbFunc(e, result); completed = true }
  | panicCB (picky : Bool)      -- func(e, result) { if !completed { cbFunc(e, result) } }
  deriving DecidableEq, Repr

def CbF.isNil : CbF → Bool
  | .nil => true
  | _ => false

/-- the function as `CallMethod` received it from its caller -/
def CbF.ofCb : Cb → CbF
  | none => .nil
  | some picky => .plain picky

/-- one call `f(e, result)` with the variable `completed` before it: (what happens, `completed` after it).
`handlerCB`: the assignment `completed = true` is reached only when `cbFunc` RETURNED (a picky `cbFunc` that panics
leaves `completed` as it was); `panicCB`: `cbFunc` is called only while `completed` is false.  (A nil function is
never called: `CheckInvokeCBFunc` and the handlers test for nil first) -/
def CbF.call (f : CbF) (byHandler isErr bad completed : Bool) : Exec × Bool :=
  match f with
  | .nil => (.ret, completed)
  | .plain picky => (invokeCb picky byHandler isErr bad, completed)
  | .handlerCB picky =>
    let x := invokeCb picky byHandler isErr bad
    (x, if x.panicking then completed else true)
  | .panicCB picky =>
    if !completed then (invokeCb picky byHandler isErr bad, completed) else (.ret, completed)

/-- `CheckInvokeCBFunc(f, errors.New(…), nil)` for any function value: nil-check, then the call, always with an error -/
def checkInvokeF (f : CbF) (completed : Bool) : Exec :=
  if f.isNil then .ret else (f.call false true false completed).1

/-- `CheckInvokeCBFunc(f, e, result)` with ANY `(e, result)` — the helper (apientry/utils.go) every handler of the
repository completes through (the framework's own uses above always pass an error): the nil test, then the call.
There is no recover in it: a panic of `f` comes back OUT of the helper into the handler's frame, and `CallMethod`'s
`completed` logic relies on exactly that (a completion that did not go through must reach `SafeCall`'s recover) -/
def checkInvokeAny (f : CbF) (byHandler isErr bad completed : Bool) : Exec × Bool :=
  if f.isNil then (.ret, completed) else f.call byHandler isErr bad completed

/-- the helper with a `defer func() { recover() }()` in front of the call — NOT what the code does; kept for the witness
`Props.C13.recovering_helper_loses_the_completion` only: the panic of `f` ends inside the helper, which returns normally -/
def checkInvokeAnyRecovering (f : CbF) (byHandler isErr bad completed : Bool) : Exec × Bool :=
  let x := checkInvokeAny f byHandler isErr bad completed
  (x.1.recoverWith .ret, x.2)

/-- a handler body that completes through a helper `inv` instead of calling the function itself (same script as `playBody`) -/
def playBodyVia (inv : CbF → Bool → Bool → Bool → Bool → Exec × Bool) (f : CbF) (bad : Bool) : List Bool → Bool → Exec × Bool
  | [], d => (.ret, d)
  | c :: r, d =>
    let x := inv f true (!c) bad d
    if x.1.panicking then x
    else let y := playBodyVia inv f bad r x.2; (x.1.andThen y.1, y.2)

/-- the completions a handler body makes through the function it was handed, in order (user code, scripted by
`Beh.comps`; `c` = with a value); a panic of the function ends the body there.  Threads `completed` -/
def playBody (f : CbF) (bad : Bool) : List Bool → Bool → Exec × Bool
  | [], d => (.ret, d)
  | c :: r, d =>
    let x := f.call true (!c) bad d
    if x.1.panicking then x
    else let y := playBody f bad r x.2; (x.1.andThen y.1, y.2)

/-- a handler body: entered, completes per script, then possibly panics -/
def handlerBody (h : Handler) (ctxSet : Bool) (arg : ArgV) (f : CbF) (b : Beh) (completed : Bool) : Exec × Bool :=
  let y := playBody f b.bad b.comps completed
  ((Exec.emit (.run h ctxSet arg)).andThen (y.1.andThen (if b.panics then .panic else .ret)), y.2)

/-- `handler.Method.Func.Call(args)`: reflect panics on an argument list it rejects (nothing ran: `completed` is
untouched), else the body runs with the 4th argument `f` (a notify-shaped handler has none) -/
def reflectCall (h : Handler) (ctx : CtxArg) (arg : ArgV) (withCb : Bool) (f : CbF) (b : Beh) (completed : Bool) : Exec × Bool :=
  if typesOK h ctx arg withCb then handlerBody h (ctx != .nil) arg (if withCb then f else .nil) b completed else (.panic, completed)

/-- `SafeCall(handler, args, cbFunc)`: `hcb` is the function inside `args` (the handler's 4th argument), `pcb` the
`cbFunc` the deferred recover completes with "panic in rpc" — it sees `completed` as the call left it -/
def safeCallX (h : Handler) (ctx : CtxArg) (arg : ArgV) (withCb : Bool) (hcb pcb : CbF) (b : Beh) (completed : Bool) : Exec :=
  let r := reflectCall h ctx arg withCb hcb b completed
  r.1.recoverWith (checkInvokeF pcb r.2)

/-- `APIContainer.CallMethod`: `panicCB := cbFunc`; for a request-shaped handler `handlerCB := cbFunc` and, when
`cbFunc != nil`, `completed := false` and the two closures; a notify-shaped handler with a completion function is D11 -/
def callMethodX (c : Container) (method : Bytes) (ctx : CtxArg) (arg : ArgV) (cb : Cb) (b : Beh) : Exec :=
  match lookup c.handlers method with
  | none => checkInvokeCB cb
  | some h =>
    if h.isRequest then
      match cb with
      | none => safeCallX h ctx arg true .nil .nil b false                            -- nil to both
      | some picky => safeCallX h ctx arg true (.handlerCB picky) (.panicCB picky) b false
    else if cb.isSome then .ret                          -- D11
    else safeCallX h ctx arg false .nil .nil b false     -- panicCB = cbFunc = nil

/-- `CallMethod` BEFORE the fix of D23 (/repo 7b326e6): the handler and the recover path both got `cbFunc` itself -/
def callMethodXPre (c : Container) (method : Bytes) (ctx : CtxArg) (arg : ArgV) (cb : Cb) (b : Beh) : Exec :=
  match lookup c.handlers method with
  | none => checkInvokeCB cb
  | some h =>
    if h.isRequest then safeCallX h ctx arg true (.ofCb cb) (.ofCb cb) b false
    else if cb.isSome then .ret
    else safeCallX h ctx arg false (.ofCb cb) (.ofCb cb) b false

/-- `APICollection.Call` -/
def callX (col : Collection) (route : Bytes) (ctx : CtxArg) (arg : ArgV) (cb : Cb) (b : Beh) : Exec :=
  match splitRoute route with
  | none => checkInvokeCB cb
  | some (g, m) =>
    match findC col g with
    | none => checkInvokeCB cb
    | some c => callMethodX c m ctx arg cb b

/-- what `serializer.Unmarshal(data, arg)` does: stores a value, returns an error, or PANICS
(`Serializer` is an interface, and `encoding/json` runs the message type's own `UnmarshalJSON`) -/
inductive DecRes | val (v : Bytes) | err | panics
  deriving DecidableEq, Repr

abbrev DecoderX := Bytes → Bytes → DecRes

/-- a serializer that never panics -/
def Decoder.lift (d : Decoder) : DecoderX := fun t p => match d t p with | some v => .val v | none => .err

/-- `CallWithSerialize` -/
def callWithSerializeX (col : Collection) (ser : Option DecoderX) (route : Bytes) (ctx : CtxArg) (data : Bytes)
    (cb : Cb) (b : Beh) : Exec :=
  match ser with
  | none => checkInvokeCB cb
  | some dec =>
    match getArgType col route with
    | none => checkInvokeCB cb
    | some t =>
      if !t.kind.hasElem then .panic                     -- argType.Elem() outside SafeCall
      else match dec t.id data with
        | .panics => .panic                              -- Unmarshal is outside SafeCall too
        | .err => checkInvokeCB cb
        | .val v => callX col route ctx (.val t.builtId v) cb b

/-- the events that are not completions (what is left of an execution whose answers are never sent) -/
def Exec.unsent (x : Exec) : Exec := { x with evs := x.evs.filter fun e => match e with | .run _ _ _ => true | .cb _ _ => false }

/-- `APIDispatcher.Dispatch` with `tryCall`/`tryCallCol`: the completion function of a request is the closure
that answers through `Service.Response`; "no method" is answered through `Response` directly.  `ResponseEx`
returns early for a notify and for a request WITHOUT SENDER (before serialising: so the closure is picky —
panics on an unserialisable value — only when there is a sender), so the `.cb` events of a dispatcher
execution are the `ServiceResponse`s actually sent -/
def dispatchX (cols : List Collection) (dec : DecoderX) (rc : Bytes) (route data : Bytes) (isNotify hasSender : Bool)
    (b : Beh) : Bool × Exec :=
  match dispatchTarget cols route with
  | none => (false, if isNotify || !hasSender then .ret else .emit (.cb false true))
  | some c =>
    let x := callWithSerializeX c (some dec) route (.ty rc) data (if isNotify then none else some hasSender) b
    (true, if hasSender then x else x.unsent)

/-- what `reqReceiver.ReceiveRequest` — the user code a request falls through to — does: there is none,
it ignores the request (the default `Service.ReceiveRequest`), or it answers every request -/
inductive Legacy | absent | silent | answers
  deriving DecidableEq, Repr

/-- the fall-through of `Service.handleRequest` (the body deserialises — a failing `remote.Deserialize` is C07's):
(execution, the legacy receiver was handed the request) -/
def legacyX (legacy : Legacy) (isNotify hasSender : Bool) : Exec × Bool :=
  match legacy with
  | .absent => (.ret, false)
  | .silent => (.ret, true)
  | .answers => (if isNotify || !hasSender then .ret else .emit (.cb true false), true)

/-- `Service.handleRequest`: a routed request goes to the API dispatcher first; if there is no dispatcher, no
route, or `Dispatch` returns false (which it does AFTER answering "no method") it falls through to the legacy receiver -/
def handleRequestX (disp : Option (List Collection)) (dec : DecoderX) (rc : Bytes) (route data : Bytes)
    (isNotify hasSender : Bool) (legacy : Legacy) (b : Beh) : Exec × Bool :=
  match (if route ≠ [] then disp.map (fun cols => dispatchX cols dec rc route data isNotify hasSender b) else none) with
  | some (true, x) => (x, false)
  | some (false, x) =>
    if x.panicking then (x, false)
    else let l := legacyX legacy isNotify hasSender; (x.andThen l.1, l.2)
  | none => legacyX legacy isNotify hasSender

/-- `Service.handleRequest` with the body as `remote.Deserialize(request.Body, request.Type, …)` finds it: the
fall-through deserialises BEFORE it looks for a legacy receiver and `panic(err)`s when that fails (a type name the
receiving process does not know, bytes that are not that type) — also right after `Dispatch` answered "no method".
A request the dispatcher processed never gets there.  `bodyOK = true` is `handleRequestX` -/
def handleRequestXB (bodyOK : Bool) (disp : Option (List Collection)) (dec : DecoderX) (rc : Bytes) (route data : Bytes)
    (isNotify hasSender : Bool) (legacy : Legacy) (b : Beh) : Exec × Bool :=
  if bodyOK then handleRequestX disp dec rc route data isNotify hasSender legacy b
  else
    match (if route ≠ [] then disp.map (fun cols => dispatchX cols dec rc route data isNotify hasSender b) else none) with
    | some (true, x) => (x, false)
    | some (false, x) => (x.andThen .panic, false)
    | none => (.panic, false)

/-! ### reading an execution -/

def compOfEv : Ev → Option Comp
  | .cb true e => some (.h (!e))
  | .cb false _ => some .f
  | .run _ _ _ => none

def runOfEv : Ev → Option (Handler × Bool × ArgV)
  | .run h c a => some (h, c, a)
  | .cb _ _ => none

/-- the completions of an execution, in order -/
def Exec.comps (x : Exec) : List Comp := x.evs.filterMap compOfEv
/-- the handler invocations of an execution, in order -/
def Exec.runs (x : Exec) : List (Handler × Bool × ArgV) := x.evs.filterMap runOfEv

/-! ### completions made AFTER the call returned

A handler may keep the function it was handed and complete from a timer / another goroutine (`late` scripts of the
harness).  What it kept is `CallMethod`'s closure `handlerCB` around the caller's `cbFunc`; it is invoked with NO
`SafeCall` above it: a completion function that panics on the value (the dispatcher's closure: `Response` on an
unserialisable result) panics in that goroutine and nothing is completed. -/

/-- `x` = the execution of the call itself; then the handler that ran in it (request-shaped, handed a non-nil function,
the call returned) plays the script `late` through the function it kept.  Nothing is left to play when no handler ran,
when it is notify-shaped or was handed nil, or when the call panicked -/
def Exec.thenLate (x : Exec) (cb : Cb) (bad : Bool) (late : List Bool) : Exec :=
  match x.runs, cb with
  | [(h, _, _)], some picky =>
    if h.isRequest && !x.panicking then x.andThen (playBody (.handlerCB picky) bad late false).1 else x
  | _, _ => x

/-! ## registry (apimapper/registry/api_registry.go) under concurrency

`AddCollection` runs lookup and insert inside one write-locked critical section
(structural fact regenerated from the source on every run, `Gen/C13Registry`),
so concurrent callers are a sequence of atomic `Registry.add` steps in some
order (sync.RWMutex gives mutual exclusion: trusted base). -/

/-- name → identity of the collection object (identities are allocation numbers) -/
abbrev Registry := List (Bytes × Nat)

/-- `AddCollection` as one atomic step: the existing collection, else a fresh one that is stored -/
def Registry.add (r : Registry) (name : Bytes) : Registry × Nat :=
  match lookup r name with
  | some c => (r, c)
  | none => ((name, r.length) :: r, r.length)

/-- any number of further `AddCollection` calls (any names, any order) -/
def Registry.addMany (r : Registry) (names : List Bytes) : Registry := names.foldl (fun r n => (r.add n).1) r

/-- the non-atomic variant (lookup under the read lock, insert under the write lock
WITHOUT looking again): thread `t` does `look t` then, on a miss, `ins t` -/
inductive RStep | look (t : Nat) | ins (t : Nat)
  deriving DecidableEq, Repr

structure SplitSt where
  reg : Registry := []
  fresh : Nat := 0
  got : List (Nat × Nat) := []        -- thread → collection it returns
  deriving DecidableEq, Repr

def splitStep (name : Bytes) (s : SplitSt) : RStep → SplitSt
  | .look t =>
    match lookup s.reg name with
    | some c => { s with got := (t, c) :: s.got }
    | none => s
  | .ins t =>
    if s.got.any (·.1 == t) then s
    else { reg := (name, s.fresh) :: s.reg, fresh := s.fresh + 1, got := (t, s.fresh) :: s.got }

/-- events of one execution path through `AddCollection` (emitted by harness/c13/extract) -/
inductive REv | lockW | unlockW | deferUnlockW | lockR | unlockR | deferUnlockR | read | write | ret
  deriving DecidableEq, Repr

/-- along one path: every insert into the map happens while the write lock is held
and after a lookup made since that lock was taken.  State = (write lock held, looked up since) -/
def pathAtomic : List REv → Bool × Bool → Bool
  | [], _ => true
  | .lockW :: r, _ => pathAtomic r (true, false)
  | .unlockW :: r, _ => pathAtomic r (false, false)
  | .read :: r, (w, rd) => pathAtomic r (w, rd || w)
  | .write :: r, (w, rd) => w && rd && pathAtomic r (w, rd)
  | _ :: r, st => pathAtomic r st

def addCollectionAtomic (paths : List (List REv)) : Bool :=
  paths.all (fun p => pathAtomic p (false, false)) && paths.any (fun p => p.contains .write)

/-! ## the route table as the property words it (used by the spec monitor; `Props/C13.route_table_eq_spec`) -/

/-- the last element satisfying `p` -/
def lastSuch {α : Type} (p : α → Bool) : List α → Option α
  | [] => none
  | a :: r =>
    match lastSuch p r with
    | some x => some x
    | none => if p a then some a else none

/-- an entry can be registered at all: named exported type with at least one handler-shaped method -/
def eligible (fmtOK : Bool) (e : Entry) : Bool :=
  e.typeName != [] && isExportedName e.typeName && (fmtOK && (methodSet e).any handlerShapedB)

/-- the entry that owns group `g`: the first eligible one registered under that name -/
def owner (fmtOK : Bool) (es : List Entry) (g : Bytes) : Option Entry :=
  es.find? (fun e => containerName e == g && eligible fmtOK e)

/-- the handler behind `g.m`: the owner's handler-shaped method whose renamed name is `m`
(the last one in reflect order if the name function makes several collide) -/
def specHandler (fmtOK : Bool) (es : List Entry) (g m : Bytes) : Option Handler :=
  (owner fmtOK es g).bind fun e =>
    (lastSuch (fun x => handlerShapedB x && applyNF e.nameFunc x.name == m) (methodSet e)).map (mkHandler e.eid)

def specRoute (fmtOK : Bool) (es : List Entry) (route : Bytes) : Option Handler :=
  (splitRoute route).bind fun gm => specHandler fmtOK es gm.1 gm.2

end Cell2v.ApiMap
