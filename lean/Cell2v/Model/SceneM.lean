/-!
Executable model of the MMO scene manager
(`_projects/mmo/server/servers/scenem/{world,sceneline,mgr,sceneobj}.go`).

* `World`  : `scenes` (Go: `map[uint64]*SceneObj`) as a list of scene objects with
  pairwise distinct ids (map assignment = drop the old binding, add the new one);
  `lines` (Go: `map[int32]*SceneLines`) as a function configuration → line list
  (a missing map entry and an empty `SceneLines` are indistinguishable for every
  caller, both are `[]` here).
* `Mgr`    : the world, the per-service keep-alive/load stats, the scene id
  counter and the clock (`common.NowMs`, milliseconds).
* Go map iteration order and `math/rand` are the only sources of
  nondeterminism: `FindIdleService` (ties between equally busy services),
  `updateWorkingState`/`OnServiceLost` (order in which services / scenes are
  visited) and `RandGetScene` (which line).  The functions below take the
  visiting order / the random number as an argument; the theorems quantify over it.

Core Lean only (linked into `modeld_c19`).
-/
namespace Cell2v.SceneM

/-- `SceneObj` (sceneobj.go): the fields the manager itself reads or writes. -/
structure SceneObj where
  sid : Nat
  cfg : Nat
  line : Nat
  svc : Nat
  deriving DecidableEq, Repr, Inhabited

/-- `SceneLine` (sceneline.go) -/
structure Line where
  cfg : Nat
  sid : Nat
  line : Nat
  deriving DecidableEq, Repr, Inhabited

structure World where
  lines : Nat → List Line
  scenes : List SceneObj

def World.empty : World := { lines := fun _ => [], scenes := [] }

/-! ### sceneline.go -/

/-- `FineIdleLineId`: walk the (sorted) lines while they are `0,1,2,…`; the first
index that is not there is the answer. -/
def fineIdleFrom : List Line → Nat → Nat
  | [], i => i
  | l :: ls, i => if l.line != i then i else fineIdleFrom ls (i + 1)

def fineIdle (ls : List Line) : Nat := fineIdleFrom ls 0

/-- `add`: append and re-sort by line id.  On a sorted list (which is all the
code ever has) that is an ordered insert. -/
def insertLine (x : Line) : List Line → List Line
  | [] => [x]
  | l :: ls => if x.line < l.line then x :: l :: ls else l :: insertLine x ls

/-- `remove`: delete the first line with that id (`findIndex` + `slices.Delete`). -/
def removeLine (id : Nat) (ls : List Line) : List Line := ls.eraseP (fun l => l.line == id)

/-! ### world.go -/

def updLines (f : Nat → List Line) (cfg : Nat) (v : List Line) : Nat → List Line :=
  fun c => if c = cfg then v else f c

def World.getScene (w : World) (sid : Nat) : Option SceneObj := w.scenes.find? (fun o => o.sid == sid)

/-- `NewSceneLine` followed by the registration in `OnSceneCreateSucc`. -/
def World.onCreateSucc (w : World) (sid cfg svc : Nat) : World :=
  let ls := w.lines cfg
  let id := fineIdle ls
  { lines := updLines w.lines cfg (insertLine ⟨cfg, sid, id⟩ ls)
    scenes := ⟨sid, cfg, id, svc⟩ :: w.scenes.filter (fun o => o.sid != sid) }

/-- `OnSceneEnd` -/
def World.onSceneEnd (w : World) (sid : Nat) : World :=
  match w.getScene sid with
  | none => w
  | some o =>
    { lines := updLines w.lines o.cfg (removeLine o.line (w.lines o.cfg))
      scenes := w.scenes.filter (fun x => x.sid != sid) }

/-- ids collected by the first loop of `OnServiceLost` -/
def World.scenesOf (w : World) (svc : Nat) : List Nat :=
  (w.scenes.filter (fun o => o.svc == svc)).map (·.sid)

/-- `OnServiceLost`: end every scene of that service (collected first, then ended). -/
def World.onServiceLost (w : World) (svc : Nat) : World :=
  (w.scenesOf svc).foldl World.onSceneEnd w

/-- `ReqSceneByCfgId` with the value `r` drawn by `rand.Int()`:
`RandGetScene` picks line `r % n`; scene id 0 means "none". -/
def World.reqScene (w : World) (cfg r : Nat) : Option SceneObj :=
  let ls := w.lines cfg
  if ls.length = 0 then none
  else
    match ls[r % ls.length]? with
    | none => none
    | some l => if l.sid = 0 then none else w.getScene l.sid

/-! ### mgr.go -/

structure Stat where
  n : Nat            -- ActiveSceneNum
  working : Bool
  last : Nat         -- LastActiveTime
  failed : Nat       -- ActiveFailedTimes
  since : Nat        -- ghost: time of the last refresh (not in the Go code)
  deriving DecidableEq, Repr, Inhabited

structure Mgr where
  world : World
  services : List (Nat × Stat)
  nextId : Nat
  now : Nat

def Mgr.init : Mgr := { world := World.empty, services := [], nextId := 1, now := 0 }

/-- `define.SceneToSceneMKeepAlive` (ms) -/
def keepAlive : Nat := 1000

/-- `GetBusyWeight` with `CPURate = 0` (it is never set), as an order-isomorphic
integer: `0.2·(n/1000)` clamped at `1` ↦ `min n 5000`; not working ↦ `1` ↦ `5000`. -/
def satKey (n : Nat) : Nat := min n 5000

def Stat.busy (key : Nat → Nat) (s : Stat) : Nat := if s.working then key s.n else key 5000

/-- the loop of `FindIdleService` over the services in visiting order `order`;
`acc` = (`idlest`, `curWeight`) -/
def findIdleLoop (key : Nat → Nat) : List (Nat × Stat) → Option (Nat × Nat) → Option (Nat × Nat)
  | [], acc => acc
  | (k, v) :: rest, acc =>
    if !v.working then findIdleLoop key rest acc
    else
      let wgt := v.busy key
      match acc with
      | none => findIdleLoop key rest (some (k, wgt))
      | some (_, cw) => if wgt < cw then findIdleLoop key rest (some (k, wgt)) else findIdleLoop key rest acc

def findIdle (key : Nat → Nat) (order : List (Nat × Stat)) : Option Nat :=
  (findIdleLoop key order none).map (·.1)

/-- `AllocScene`: `(service, scene id)` or nothing; the id counter moves only on success. -/
def Mgr.alloc (m : Mgr) (key : Nat → Nat) (order : List (Nat × Stat)) : Mgr × Option (Nat × Nat) :=
  match findIdle key order with
  | none => (m, none)
  | some s => ({ m with nextId := m.nextId + 1 }, some (s, m.nextId))

def lookupStat (svcs : List (Nat × Stat)) (k : Nat) : Option Stat :=
  (svcs.find? (fun e => e.1 == k)).map (·.2)

/-- `OnServiceRefresh` -/
def Mgr.refresh (m : Mgr) (svc n : Nat) : Mgr :=
  let st : Stat := { n := n, working := true, last := m.now, failed := 0, since := m.now }
  if m.services.any (fun e => e.1 == svc) then
    { m with services := m.services.map (fun e => if e.1 == svc then (e.1, st) else e) }
  else { m with services := m.services ++ [(svc, st)] }

/-- one service in `updateWorkingState` (+ `onServiceKeepAliveFailed`, `onServiceLost`) -/
def tickOne (now : Nat) (acc : List (Nat × Stat) × World) (e : Nat × Stat) : List (Nat × Stat) × World :=
  let (k, v) := e
  if v.working && decide (now ≥ v.last + 3 * keepAlive) then
    let v1 := { v with failed := v.failed + 1, last := now }
    if v1.failed > 3 then (acc.1 ++ [(k, { v1 with working := false })], acc.2.onServiceLost k)
    else (acc.1 ++ [(k, v1)], acc.2)
  else (acc.1 ++ [(k, v)], acc.2)

/-- `updateWorkingState` -/
def Mgr.tick (m : Mgr) : Mgr :=
  let r := m.services.foldl (tickOne m.now) ([], m.world)
  { m with services := r.1, world := r.2 }

/-- `onServiceLost` of the manager for a service it has stats for (else only the world hears of it) -/
def Mgr.lost (m : Mgr) (svc : Nat) : Mgr :=
  { m with services := m.services.map (fun e => if e.1 == svc then (e.1, { e.2 with working := false }) else e)
           world := m.world.onServiceLost svc }

/-! ### histories -/

inductive Ev where
  | create (sid cfg svc : Nat)   -- OnSceneCreateSucc
  | endScene (sid : Nat)         -- OnSceneEnd
  | refresh (svc n : Nat)        -- OnServiceRefresh
  | adv (ms : Nat)               -- the clock moves
  | tick                         -- updateWorkingState
  | lost (svc : Nat)             -- onServiceLost (manager level)
  | wlost (svc : Nat)            -- World.OnServiceLost alone
  | alloc                        -- a successful AllocScene (consumes one scene id)
  | req                          -- ReqSceneByCfgId / a failed AllocScene: no state change
  deriving Repr

def Mgr.step (m : Mgr) : Ev → Mgr
  | .create sid cfg svc => { m with world := m.world.onCreateSucc sid cfg svc }
  | .endScene sid => { m with world := m.world.onSceneEnd sid }
  | .refresh svc n => m.refresh svc n
  | .adv ms => { m with now := m.now + ms }
  | .tick => m.tick
  | .lost svc => m.lost svc
  | .wlost svc => { m with world := m.world.onServiceLost svc }
  | .alloc => { m with nextId := m.nextId + 1 }
  | .req => m

def Mgr.run (m : Mgr) (evs : List Ev) : Mgr := evs.foldl Mgr.step m

/-- the hypothesis of the property: a create-success never names a live scene -/
def Admissible (m : Mgr) : Ev → Prop
  | .create sid _ _ => ∀ o ∈ m.world.scenes, o.sid ≠ sid
  | _ => True

def AdmissibleRun : Mgr → List Ev → Prop
  | _, [] => True
  | m, e :: es => Admissible m e ∧ AdmissibleRun (m.step e) es

/-! ### mgr_createscene.go: `SpawnScene` (used by the public-scene keeper) -/

/-- outcome of the `scene.remote.allocscene` request -/
inductive Reply where
  | ok | err
  deriving DecidableEq, Repr

/-- The events one `SpawnScene(cfg)` amounts to, given the service `AllocScene` chose and how the
request ended (`none`: never answered).  The scene id is consumed in every case; the scene is
registered only when the scene service confirmed it (`if err != nil { …; return }`). -/
def spawnEvents (m : Mgr) (cfg svc : Nat) : Option Reply → List Ev
  | some .ok => [.alloc, .create m.nextId cfg svc]
  | _ => [.alloc]

/-- the same with the `return` missing (seeded mutation C19-ind2-m3): a failed request registers the scene too -/
def spawnEventsNoReturn (m : Mgr) (cfg svc : Nat) : Option Reply → List Ev
  | none => [.alloc]
  | some _ => [.alloc, .create m.nextId cfg svc]

/-! ### the pre-hypothesis behaviour, kept executable: a second create-success for
a live scene id leaks the first line (used by a witness theorem) -/
def dupCreateWorld : World := (World.empty.onCreateSucc 7 100 1).onCreateSucc 7 100 1

end Cell2v.SceneM
