/-!
Executable model of the MMO scene manager
(`_projects/mmo/server/servers/scenem/{world,sceneline,mgr,sceneobj}.go`).

* `World`  : `scenes` (Go: `map[uint64]*SceneObj`) as a list of scene objects with
  pairwise distinct ids (map assignment = drop the old binding, add the new one);
  `lines` (Go: `map[int32]*SceneLines`) as a function configuration → line list
  (a missing map entry and an empty `SceneLines` are indistinguishable for every
  caller, both are `[]` here).
* `Mgr`    : the world, the per-service keep-alive/load stats, the scene id
  counter and the clock (`common.NowMs`, milliseconds).
* Go map iteration order and `math/rand` are the only sources of
  nondeterminism: `FindIdleService` (ties between equally busy services),
  `updateWorkingState`/`OnServiceLost` (order in which services / scenes are
  visited) and `RandGetScene` (which line).  The functions below take the
  visiting order / the random number as an argument; the theorems quantify over it.

Core Lean only (linked into `modeld_c19`).
-/
namespace Cell2v.SceneM

/-- `SceneObj` (sceneobj.go): the fields the manager itself reads or writes. -/
structure SceneObj where
  sid : Nat
  cfg : Nat
  line : Nat
  svc : Nat
  deriving DecidableEq, Repr, Inhabited

/-- `SceneLine` (sceneline.go) -/
structure Line where
  cfg : Nat
  sid : Nat
  line : Nat
  deriving DecidableEq, Repr, Inhabited

structure World where
  lines : Nat → List Line
  scenes : List SceneObj

def World.empty : World := { lines := fun _ => [], scenes := [] }

/-! ### sceneline.go -/

/-- `FineIdleLineId`: walk the (sorted) lines while they are `0,1,2,…`; the first
index that is not there is the answer. -/
def fineIdleFrom : List Line → Nat → Nat
  | [], i => i
  | l :: ls, i => if l.line != i then i else fineIdleFrom ls (i + 1)

def fineIdle (ls : List Line) : Nat := fineIdleFrom ls 0

/-- `add`: append and re-sort by line id.  On a sorted list (which is all the
code ever has) that is an ordered insert. -/
def insertLine (x : Line) : List Line → List Line
  | [] => [x]
  | l :: ls => if x.line < l.line then x :: l :: ls else l :: insertLine x ls

/-- `remove`: delete the first line with that id (`findIndex` + `slices.Delete`). -/
def removeLine (id : Nat) (ls : List Line) : List Line := ls.eraseP (fun l => l.line == id)

/-! ### world.go -/

def updLines (f : Nat → List Line) (cfg : Nat) (v : List Line) : Nat → List Line :=
  fun c => if c = cfg then v else f c

def World.getScene (w : World) (sid : Nat) : Option SceneObj := w.scenes.find? (fun o => o.sid == sid)

/-- `NewSceneLine` followed by the registration in `OnSceneCreateSucc`. -/
def World.onCreateSucc (w : World) (sid cfg svc : Nat) : World :=
  let ls := w.lines cfg
  let id := fineIdle ls
  { lines := updLines w.lines cfg (insertLine ⟨cfg, sid, id⟩ ls)
    scenes := ⟨sid, cfg, id, svc⟩ :: w.scenes.filter (fun o => o.sid != sid) }

/-- `OnSceneEnd` -/
def World.onSceneEnd (w : World) (sid : Nat) : World :=
  match w.getScene sid with
  | none => w
  | some o =>
    { lines := updLines w.lines o.cfg (removeLine o.line (w.lines o.cfg))
      scenes := w.scenes.filter (fun x => x.sid != sid) }

/-- ids collected by the first loop of `OnServiceLost` -/
def World.scenesOf (w : World) (svc : Nat) : List Nat :=
  (w.scenes.filter (fun o => o.svc == svc)).map (·.sid)

/-- `OnServiceLost`: end every scene of that service (collected first, then ended). -/
def World.onServiceLost (w : World) (svc : Nat) : World :=
  (w.scenesOf svc).foldl World.onSceneEnd w

/-- `ReqSceneByCfgId` with the value `r` drawn by `rand.Int()`:
`RandGetScene` picks line `r % n`; scene id 0 means "none". -/
def World.reqScene (w : World) (cfg r : Nat) : Option SceneObj :=
  let ls := w.lines cfg
  if ls.length = 0 then none
  else
    match ls[r % ls.length]? with
    | none => none
    | some l => if l.sid = 0 then none else w.getScene l.sid

/-! ### mgr.go -/

structure Stat where
  n : Nat            -- ActiveSceneNum
  working : Bool
  last : Nat         -- LastActiveTime
  failed : Nat       -- ActiveFailedTimes
  since : Nat        -- ghost: time of the last refresh (not in the Go code)
  deriving DecidableEq, Repr, Inhabited

structure Mgr where
  world : World
  services : List (Nat × Stat)
  nextId : Nat
  now : Nat

def Mgr.init : Mgr := { world := World.empty, services := [], nextId := 1, now := 0 }

/-- `define.SceneToSceneMKeepAlive` (ms) -/
def keepAlive : Nat := 1000

/-- `GetBusyWeight` with `CPURate = 0` (it is never set), as an order-isomorphic
integer: `0.2·(n/1000)` clamped at `1` ↦ `min n 5000`; not working ↦ `1` ↦ `5000`. -/
def satKey (n : Nat) : Nat := min n 5000

def Stat.busy (key : Nat → Nat) (s : Stat) : Nat := if s.working then key s.n else key 5000

/-- the loop of `FindIdleService` over the services in visiting order `order`;
`acc` = (`idlest`, `curWeight`) -/
def findIdleLoop (key : Nat → Nat) : List (Nat × Stat) → Option (Nat × Nat) → Option (Nat × Nat)
  | [], acc => acc
  | (k, v) :: rest, acc =>
    if !v.working then findIdleLoop key rest acc
    else
      let wgt := v.busy key
      match acc with
      | none => findIdleLoop key rest (some (k, wgt))
      | some (_, cw) => if wgt < cw then findIdleLoop key rest (some (k, wgt)) else findIdleLoop key rest acc

def findIdle (key : Nat → Nat) (order : List (Nat × Stat)) : Option Nat :=
  (findIdleLoop key order none).map (·.1)

/-- `AllocScene`: `(service, scene id)` or nothing; the id counter moves only on success. -/
def Mgr.alloc (m : Mgr) (key : Nat → Nat) (order : List (Nat × Stat)) : Mgr × Option (Nat × Nat) :=
  match findIdle key order with
  | none => (m, none)
  | some s => ({ m with nextId := m.nextId + 1 }, some (s, m.nextId))

def lookupStat (svcs : List (Nat × Stat)) (k : Nat) : Option Stat :=
  (svcs.find? (fun e => e.1 == k)).map (·.2)

/-- `OnServiceRefresh` -/
def Mgr.refresh (m : Mgr) (svc n : Nat) : Mgr :=
  let st : Stat := { n := n, working := true, last := m.now, failed := 0, since := m.now }
  if m.services.any (fun e => e.1 == svc) then
    { m with services := m.services.map (fun e => if e.1 == svc then (e.1, st) else e) }
  else { m with services := m.services ++ [(svc, st)] }

/-- one service in `updateWorkingState` (+ `onServiceKeepAliveFailed`, `onServiceLost`) -/
def tickOne (now : Nat) (acc : List (Nat × Stat) × World) (e : Nat × Stat) : List (Nat × Stat) × World :=
  let (k, v) := e
  if v.working && decide (now ≥ v.last + 3 * keepAlive) then
    let v1 := { v with failed := v.failed + 1, last := now }
    if v1.failed > 3 then (acc.1 ++ [(k, { v1 with working := false })], acc.2.onServiceLost k)
    else (acc.1 ++ [(k, v1)], acc.2)
  else (acc.1 ++ [(k, v)], acc.2)

/-- `updateWorkingState` -/
def Mgr.tick (m : Mgr) : Mgr :=
  let r := m.services.foldl (tickOne m.now) ([], m.world)
  { m with services := r.1, world := r.2 }

/-- `onServiceLost` of the manager for a service it has stats for (else only the world hears of it) -/
def Mgr.lost (m : Mgr) (svc : Nat) : Mgr :=
  { m with services := m.services.map (fun e => if e.1 == svc then (e.1, { e.2 with working := false }) else e)
           world := m.world.onServiceLost svc }

/-! ### histories -/

inductive Ev where
  | create (sid cfg svc : Nat)   -- OnSceneCreateSucc
  | endScene (sid : Nat)         -- OnSceneEnd
  | refresh (svc n : Nat)        -- OnServiceRefresh
  | adv (ms : Nat)               -- the clock moves
  | tick                         -- updateWorkingState
  | lost (svc : Nat)             -- onServiceLost (manager level)
  | wlost (svc : Nat)            -- World.OnServiceLost alone
  | alloc                        -- a successful AllocScene (consumes one scene id)
  | req                          -- ReqSceneByCfgId / a failed AllocScene: no state change
  deriving Repr

def Mgr.step (m : Mgr) : Ev → Mgr
  | .create sid cfg svc => { m with world := m.world.onCreateSucc sid cfg svc }
  | .endScene sid => { m with world := m.world.onSceneEnd sid }
  | .refresh svc n => m.refresh svc n
  | .adv ms => { m with now := m.now + ms }
  | .tick => m.tick
  | .lost svc => m.lost svc
  | .wlost svc => { m with world := m.world.onServiceLost svc }
  | .alloc => { m with nextId := m.nextId + 1 }
  | .req => m

def Mgr.run (m : Mgr) (evs : List Ev) : Mgr := evs.foldl Mgr.step m

/-- the hypothesis of the property: a create-success never names a live scene -/
def Admissible (m : Mgr) : Ev → Prop
  | .create sid _ _ => ∀ o ∈ m.world.scenes, o.sid ≠ sid
  | _ => True

def AdmissibleRun : Mgr → List Ev → Prop
  | _, [] => True
  | m, e :: es => Admissible m e ∧ AdmissibleRun (m.step e) es

/-! ### mgr_createscene.go: `SpawnScene` (used by the public-scene keeper) -/

/-- outcome of the `scene.remote.allocscene` request -/
inductive Reply where
  | ok | err
  deriving DecidableEq, Repr

/-- The events one `SpawnScene(cfg)` amounts to, given the service `AllocScene` chose and how the
request ended (`none`: never answered).  The scene id is consumed in every case; the scene is
registered only when the scene service confirmed it (`if err != nil { …; return }`). -/
def spawnEvents (m : Mgr) (cfg svc : Nat) : Option Reply → List Ev
  | some .ok => [.alloc, .create m.nextId cfg svc]
  | _ => [.alloc]

/-- the same with the `return` missing (seeded mutation C19-ind2-m3): a failed request registers the scene too -/
def spawnEventsNoReturn (m : Mgr) (cfg svc : Nat) : Option Reply → List Ev
  | none => [.alloc]
  | some _ => [.alloc, .create m.nextId cfg svc]

/-! ### the manager as a system: `SpawnScene` (mgr_createscene.go), the public-scene keeper's
`trySpawnScene` (publicscenes.go) and the allocation requests in flight

`SpawnScene(cfg)`: `AllocScene` (placement + fresh scene id), then `app.Request("scene.remote.allocscene")`
to the chosen service with a reply callback.  The request table of the manager's `NodeService`
(`ns.Handlers`) is `pending` here: an entry is added when the request was sent, removed when the
answer arrives (so a second answer for the same request finds nothing), and only a successful answer
registers the scene (`OnSceneCreateSucc(info)` with the object `AllocScene` returned, i.e. with the
scene id, configuration and service fixed at allocation time).  A request to a service that is not
in the cluster view fails at once: the id is used up, nothing is sent. -/

/-- one `scene.remote.allocscene` request awaiting its answer -/
structure Pend where
  sid : Nat
  cfg : Nat
  svc : Nat
  deriving DecidableEq, Repr, Inhabited

structure Sys where
  m : Mgr
  routable : List Nat      -- scene services present in the cluster view
  pending : List Pend      -- requests sent and not yet answered, in send order
  waiting : List Nat       -- ids of those requests that the AllocScene handler made for a client still waiting for its answer

def Sys.init : Sys := { m := Mgr.init, routable := [], pending := [], waiting := [] }

/-- what `SpawnScene` did -/
inductive Spawned where
  | noService                   -- `AllocScene` returned nil: `return false`
  | noRoute (sid svc : Nat)     -- allocated, the request failed at once
  | sent (sid svc : Nat)        -- allocated, request sent
  deriving DecidableEq, Repr

/-- `SpawnScene(cfg)`, the service map being visited in `order` -/
def Sys.spawn (s : Sys) (cfg : Nat) (order : List (Nat × Stat)) : Sys × Spawned :=
  match s.m.alloc satKey order with
  | (_, none) => (s, .noService)
  | (m', some (k, sid)) =>
    if s.routable.contains k then
      ({ s with m := m', pending := s.pending ++ [⟨sid, cfg, k⟩] }, .sent sid k)
    else ({ s with m := m' }, .noRoute sid k)

/-- `PublicScenes.trySpawnScene` for a public scene `(cfg, reqNum)`: nothing while the configuration has
at least `reqNum` *confirmed* lines (`GetLineNum`), else one `SpawnScene`.  Second component:
`scene.Spawned` afterwards. -/
def Sys.keeper (s : Sys) (cfg reqNum : Nat) (order : List (Nat × Stat)) : Sys × Nat :=
  let have_ := (s.m.world.lines cfg).length
  if have_ ≥ reqNum then (s, have_)
  else
    match s.spawn cfg order with
    | (_, .noService) => (s, have_)
    | (s', _) => (s', have_ + 1)

/-- what the remote `AllocScene` handler (handler/remote.go) did -/
inductive HAlloc where
  | silent                      -- no service working: `info == nil` is dereferenced inside the waterfall task, the
                                -- scheduler recovers the panic, the client is never answered
  | refused (sid svc : Nat)     -- allocated, the request failed at once, the client got an error
  | sent (sid svc : Nat)        -- allocated, request sent, the client waits
  deriving DecidableEq, Repr

/-- the remote `AllocScene` handler: the same `AllocScene` + `app.Request` + callback as `SpawnScene`
(no nil check), and the client is answered when the request is -/
def Sys.halloc (s : Sys) (cfg : Nat) (order : List (Nat × Stat)) : Sys × HAlloc :=
  match s.spawn cfg order with
  | (_, .noService) => (s, .silent)
  | (s', .noRoute sid k) => (s', .refused sid k)
  | (s', .sent sid k) => ({ s' with waiting := s'.waiting ++ [sid] }, .sent sid k)

/-- the answer to the allocation request for scene `sid` arrives (`ok`: the scene service created it) -/
def Sys.reply (s : Sys) (sid : Nat) (ok : Bool) : Sys :=
  match s.pending.find? (fun p => p.sid == sid) with
  | none => s
  | some p =>
    let s1 := { s with pending := s.pending.filter (fun q => q.sid != sid), waiting := s.waiting.filter (fun w => w != sid) }
    if ok then { s1 with m := s1.m.step (.create p.sid p.cfg p.svc) } else s1

/-- what the waiting client of the handler is told when that answer arrives (`none`: nobody is waiting) -/
def Sys.replyAck (s : Sys) (sid : Nat) (ok : Bool) : Option Bool :=
  if (s.pending.any (fun p => p.sid == sid)) && s.waiting.contains sid then some ok else none

/-- events of the system: no raw create-success and no bare id allocation any more — scenes come into
being only through `SpawnScene`/the keeper/the `AllocScene` handler and a successful answer -/
inductive SEv where
  | route (ks : List Nat)                                   -- the cluster view changes
  | spawn (cfg : Nat) (order : List (Nat × Stat))           -- SpawnScene
  | keeper (cfg reqNum : Nat) (order : List (Nat × Stat))   -- PublicScenes.trySpawnScene
  | halloc (cfg : Nat) (order : List (Nat × Stat))          -- the remote AllocScene handler
  | reply (sid : Nat) (ok : Bool)
  | endScene (sid : Nat)
  | refresh (svc n : Nat)
  | adv (ms : Nat)
  | tick
  | lost (svc : Nat)
  | wlost (svc : Nat)
  deriving Repr

def Sys.lift (s : Sys) (e : Ev) : Sys := { s with m := s.m.step e }

def Sys.step (s : Sys) : SEv → Sys
  | .route ks => { s with routable := ks }
  | .spawn cfg order => (s.spawn cfg order).1
  | .keeper cfg n order => (s.keeper cfg n order).1
  | .halloc cfg order => (s.halloc cfg order).1
  | .reply sid ok => s.reply sid ok
  | .endScene sid => s.lift (.endScene sid)
  | .refresh svc n => s.lift (.refresh svc n)
  | .adv ms => s.lift (.adv ms)
  | .tick => s.lift .tick
  | .lost svc => s.lift (.lost svc)
  | .wlost svc => s.lift (.wlost svc)

def Sys.run (s : Sys) (evs : List SEv) : Sys := evs.foldl Sys.step s

/-- the only side condition on a history: the order in which `FindIdleService` visits the service map
is some permutation of the map's entries -/
def SEv.Ok (s : Sys) : SEv → Prop
  | .spawn _ order => order.Perm s.m.services
  | .keeper _ _ order => order.Perm s.m.services
  | .halloc _ order => order.Perm s.m.services
  | _ => True

/-- `e` is a call that places a scene of configuration `cfg`, visiting the service map in `order` -/
def SEv.places (e : SEv) (cfg : Nat) (order : List (Nat × Stat)) : Prop :=
  e = .spawn cfg order ∨ (∃ n, e = .keeper cfg n order) ∨ e = .halloc cfg order

def OkRun : Sys → List SEv → Prop
  | _, [] => True
  | s, e :: es => e.Ok s ∧ OkRun (s.step e) es

/-- the `Mgr`-level events a system event amounts to -/
def spawnEvs (order : List (Nat × Stat)) : List Ev :=
  match findIdle satKey order with | none => [] | some _ => [.alloc]

def SEv.evs (s : Sys) : SEv → List Ev
  | .route _ => []
  | .spawn _ order => spawnEvs order
  | .keeper cfg n order => if (s.m.world.lines cfg).length ≥ n then [] else spawnEvs order
  | .halloc _ order => spawnEvs order
  | .reply sid ok =>
    match s.pending.find? (fun p => p.sid == sid) with
    | none => []
    | some p => if ok then [.create p.sid p.cfg p.svc] else []
  | .endScene sid => [.endScene sid]
  | .refresh svc n => [.refresh svc n]
  | .adv ms => [.adv ms]
  | .tick => [.tick]
  | .lost svc => [.lost svc]
  | .wlost svc => [.wlost svc]

/-! ### the pre-hypothesis behaviour, kept executable: a second create-success for
a live scene id leaks the first line (used by a witness theorem) -/
def dupCreateWorld : World := (World.empty.onCreateSucc 7 100 1).onCreateSucc 7 100 1

end Cell2v.SceneM
