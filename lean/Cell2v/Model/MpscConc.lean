/-
C09 (component) — CONCURRENT model of actorex/queue/mpsc/mpsc.go (Vyukov's
node-based multi-producer single-consumer queue), at the granularity of one
shared-memory access per step:

    func (q *Queue) Push(x) {
        n := new(node); n.val = x                 -- goroutine-local
        prev := atomic.Swap(&q.head, n)           -- step `swap p x`
        atomic.Store(&prev.next, n)               -- step `link p`
    }
    func (q *Queue) Pop() {                       -- step `pop` (consumer only)
        tail := q.tail                            --   consumer-private
        next := atomic.Load(&tail.next)           --   the ONE shared access
        if next != nil { q.tail = next; v := next.val; next.val = nil; return v }
        return nil
    }
    func (q *Queue) Empty() { return atomic.Load(&q.tail.next) == nil }   -- step `empty`

Any number of producers, arbitrary interleavings: a schedule is a `List Lbl`.
Between its `swap` and its `link` a producer is *in flight* (`St.fl` remembers
its node and the node it received from the swap); during that window its own
node and every node swapped in later are unreachable from `tail`.

A node's address is its allocation index.  Allocation is goroutine-local and the
node becomes shared only by the swap, so allocating "at" the swap (address =
number of nodes swapped in so far, the stub being node 0) loses no behaviour.

`swapped` and `dlv` are ghost logs (values in swap order / in delivery order);
no step reads them.

Core Lean only (linked into `modeld_c09`).
-/
namespace Cell2v.MpscConc

structure Node where
  val : Option Nat := none    -- `none` = Go nil
  next : Option Nat := none   -- address of the next node
  deriving Repr, DecidableEq

/-- a producer between its swap and its link -/
structure Flight where
  p : Nat      -- producer (goroutine) id
  n : Nat      -- its new node
  prev : Nat   -- what the swap returned
  deriving Repr, DecidableEq

structure St where
  heap : List Node        -- every node ever allocated, address = index
  head : Nat              -- q.head
  tail : Nat              -- q.tail (consumer-owned; the consumed stub)
  fl : List Flight        -- producers in flight
  swapped : List Nat      -- ghost: every value, in swap order
  dlv : List Nat          -- ghost: every value returned by Pop, in order
  deriving Repr, DecidableEq

inductive Lbl
  | swap (p x : Nat)   -- producer `p`: allocate, `prev := swap(&head, n)`
  | link (p : Nat)     -- producer `p`: `prev.next = n`
  | pop                -- consumer: `Pop()`
  | empty              -- consumer: `Empty()`
  deriving Repr, DecidableEq

inductive Obs
  | done
  | popped (v : Option Nat)   -- `none` = Pop returned nil
  | isEmpty (b : Bool)
  deriving Repr, DecidableEq

def node (h : List Node) (a : Nat) : Node := (h[a]?).getD {}

/-- `a.next = n` -/
def setNext (h : List Node) (a n : Nat) : List Node := h.set a { node h a with next := some n }
/-- `a.val = nil` -/
def clearVal (h : List Node) (a : Nat) : List Node := h.set a { node h a with val := none }

/-- node `n` belongs to a producer that has not linked it yet -/
def inFl (fl : List Flight) (n : Nat) : Bool := fl.any (·.n == n)
/-- producer `p` is in flight -/
def hasP (fl : List Flight) (p : Nat) : Bool := fl.any (·.p == p)

/-- `New()`: one stub node, head = tail = stub -/
def init : St := { heap := [{}], head := 0, tail := 0, fl := [], swapped := [], dlv := [] }

def fire (s : St) : Lbl → Option (St × Obs)
  | .swap p x =>
    if hasP s.fl p then none      -- a goroutine is sequential: it links before it swaps again
    else
      let n := s.heap.length
      some ({ s with heap := s.heap ++ [{ val := some x, next := none }], head := n,
                     fl := s.fl ++ [{ p := p, n := n, prev := s.head }],
                     swapped := s.swapped ++ [x] }, .done)
  | .link p =>
    match s.fl.find? (·.p == p) with
    | none => none
    | some f => some ({ s with heap := setNext s.heap f.prev f.n, fl := s.fl.filter (·.p != p) }, .done)
  | .pop =>
    match (node s.heap s.tail).next with
    | some nx =>
      let v := (node s.heap nx).val
      some ({ s with tail := nx, heap := clearVal s.heap nx,
                     dlv := match v with | some x => s.dlv ++ [x] | none => s.dlv }, .popped v)
    | none => some (s, .popped none)
  | .empty => some (s, .isEmpty (node s.heap s.tail).next.isNone)

/-- run a schedule, collecting the observations; `none` if some label was not enabled -/
def runL (s : St) : List Lbl → Option (St × List Obs)
  | [] => some (s, [])
  | l :: ls =>
    match fire s l with
    | none => none
    | some (s', o) =>
      match runL s' ls with
      | none => none
      | some (s'', os) => some (s'', o :: os)

/-- the (producer, value) pairs a schedule swaps in, in swap order -/
def swapsOf : List Lbl → List (Nat × Nat)
  | [] => []
  | .swap p x :: ls => (p, x) :: swapsOf ls
  | _ :: ls => swapsOf ls

/-- the values the consumer received, in order -/
def deliveredOf : List Obs → List Nat
  | [] => []
  | .popped (some v) :: os => v :: deliveredOf os
  | _ :: os => deliveredOf os

/-- values reachable from `tail` by following `next` pointers (what the consumer can
get without any further producer step); `k` = fuel -/
def walk (h : List Node) : Nat → Nat → List Nat
  | 0, _ => []
  | k + 1, a =>
    match (node h a).next with
    | none => []
    | some nx => ((node h nx).val).getD 0 :: walk h k nx

def visible (s : St) : List Nat := walk s.heap s.heap.length s.tail

/-- a deliberately WRONG variant, used only as a defect witness: link BEFORE swap
(`h := load(&head); h.next = n; swap(&head, n)`) — two producers can both read the
same `head`, the second store overwrites the first link, one node is lost -/
def fireLinkFirst (s : St) : Lbl → Option (St × Obs)
  | .swap p x =>
    if hasP s.fl p then none
    else
      let n := s.heap.length
      let heap := s.heap ++ [{ val := some x, next := none }]
      some ({ s with heap := setNext heap s.head n, fl := s.fl ++ [{ p := p, n := n, prev := s.head }],
                     swapped := s.swapped ++ [x] }, .done)
  | .link p =>
    match s.fl.find? (·.p == p) with
    | none => none
    | some f => some ({ s with head := f.n, fl := s.fl.filter (·.p != p) }, .done)
  | l => fire s l

def runLinkFirst (s : St) : List Lbl → Option (St × List Obs)
  | [] => some (s, [])
  | l :: ls =>
    match fireLinkFirst s l with
    | none => none
    | some (s', o) =>
      match runLinkFirst s' ls with
      | none => none
      | some (s'', os) => some (s'', o :: os)

end Cell2v.MpscConc
