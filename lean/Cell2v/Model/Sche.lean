/-
C15 — model of utils/sche/sche.go (`Sche`) with its consumer
(`Sche.Handler` / the `RunService` loop, both a single goroutine that
receives from `chanTask` and calls `DoTask`).

State: the bounded FIFO `chanTask`, the execution log, and per poster
goroutine the sequence number of its next `Post` call and its (at most one)
outstanding channel send.  Any number of posters (`Nat`-indexed), any capacity.

Labels = atomic steps, arbitrary interleaving:
* `call p k`     poster `p` enters `Post` with a fresh closure (allocates the
                 task).  With `selfBlockDefend` on and `len(chanTask) >=
                 QueueSize-10` the send is handed to a helper goroutine and
                 `Post` returns at once (`detached`); otherwise the send
                 becomes `p`'s outstanding send.
* `send p`       `p`'s outstanding `s.chanTask <- t` completes: appended when
                 there is room, *not enabled* when the channel is full (the
                 sender stays blocked), and on a closed channel the send
                 panics, `Post`'s deferred `recover` swallows it and `Post`
                 returns nil (`failed`).  Without the recover the poster
                 crashes (`crashedPosters`).
* `sendDetached i`  the same for a helper goroutine of the overflow path.
* `consume`      the consumer receives the head of the channel and runs
                 `doTask`: the closure is logged; a panicking closure is
                 recovered (consumer goes on) — without the recover the
                 consumer goroutine is gone (`crashed`).
* `stop`         `Sche.Stop`: `close(chanTask)` (buffered tasks can still be
                 received afterwards, which is what Go does).
* `quit`         the consumer sees `chanClose` and returns.

Modelled, not verified: Go channel semantics (bounded FIFO; a send is one
atomic step; blocked senders may resume in *any* order — weaker than the
runtime's FIFO wake-up, so the theorems do not depend on it); the task id
allocator; the logger.  A second `Stop` (close of a closed channel) is outside
the model.
-/
namespace Cell2v.Sche

/-- kind of a posted closure: returns normally, panics, or (harness only)
parks the consumer until released -/
inductive Kind | normal | panics | hold
  deriving DecidableEq, Repr

structure Item where
  poster : Nat
  seq : Nat
  kind : Kind
  deriving DecidableEq, Repr

structure Cfg where
  cap : Nat                  -- QueueSize
  defend : Bool              -- selfBlockDefend (overflow path compiled in)
  recoverTask : Bool := true -- doTask defers a recover
  recoverPost : Bool := true -- Post defers a recover
  deriving Repr

inductive Consumer | running | crashed | quit
  deriving DecidableEq, Repr

structure St where
  chan : List Item := []
  log : List Item := []             -- closures executed, in execution order
  next : Nat → Nat := fun _ => 0    -- sequence number of the poster's next Post call
  out : Nat → Option Item := fun _ => none   -- the poster's outstanding send
  acc : Nat → Nat := fun _ => 0     -- ghost: number of the poster's sends that completed (Post returned the task)
  detached : List Item := []        -- overflow path: sends owned by helper goroutines
  failed : List Item := []          -- sends that hit the closed channel (Post recovers and returns nil)
  lost : List Item := []            -- overflow path: Post returned the task, the helper's send hit the closed channel
  crashedPosters : List Nat := []   -- only without Post's recover
  stopped : Bool := false
  consumer : Consumer := .running

inductive Label
  | call (p : Nat) (k : Kind)
  | send (p : Nat)
  | sendDetached (i : Nat)
  | consume
  | stop
  | quit
  deriving Repr

def upd {α : Type} (f : Nat → α) (p : Nat) (v : α) : Nat → α := fun q => if q = p then v else f q

def fire (c : Cfg) (s : St) : Label → Option St
  | .call p k =>
    if s.out p ≠ none ∨ p ∈ s.crashedPosters then none
    else
      let it : Item := ⟨p, s.next p, k⟩
      if c.defend ∧ s.chan.length ≥ c.cap - 10 then
        some { s with next := upd s.next p (s.next p + 1), detached := s.detached ++ [it] }
      else
        some { s with next := upd s.next p (s.next p + 1), out := upd s.out p (some it) }
  | .send p =>
    match s.out p with
    | none => none
    | some it =>
      if s.stopped then
        some { s with out := upd s.out p none, failed := s.failed ++ [it],
                      crashedPosters := if c.recoverPost then s.crashedPosters else p :: s.crashedPosters }
      else if s.chan.length < c.cap then
        some { s with out := upd s.out p none, chan := s.chan ++ [it], acc := upd s.acc p (s.acc p + 1) }
      else none
  | .sendDetached i =>
    match s.detached[i]? with
    | none => none
    | some it =>
      if s.stopped then some { s with detached := s.detached.eraseIdx i, lost := s.lost ++ [it] }
      else if s.chan.length < c.cap then
        some { s with detached := s.detached.eraseIdx i, chan := s.chan ++ [it] }
      else none
  | .consume =>
    if s.consumer ≠ .running then none
    else match s.chan with
      | [] => none
      | x :: rest =>
        some { s with chan := rest, log := s.log ++ [x],
                      consumer := if x.kind = .panics ∧ c.recoverTask = false then .crashed else .running }
  | .stop => if s.stopped then none else some { s with stopped := true }
  | .quit => if s.stopped ∧ s.consumer = .running then some { s with consumer := .quit } else none

/-- run a label sequence (none as soon as a label is not enabled) -/
def run (c : Cfg) : St → List Label → Option St
  | s, [] => some s
  | s, l :: ls => match fire c s l with
    | none => none
    | some s' => run c s' ls

/-- all interleavings: states reachable from the initial state -/
inductive Reachable (c : Cfg) : St → Prop
  | init : Reachable c {}
  | step {s s' : St} (l : Label) : Reachable c s → fire c s l = some s' → Reachable c s'

/-- sequence numbers of poster `p`'s closures in a list, in list order -/
def proj (p : Nat) (l : List Item) : List Nat := (l.filter (fun x => x.poster = p)).map (·.seq)

def outSeq (s : St) (p : Nat) : List Nat := match s.out p with | some it => [it.seq] | none => []

/-- how often the closure `(p, k)` occurs in a list -/
def occ (p k : Nat) (l : List Item) : Nat := (l.filter (fun x => x.poster = p ∧ x.seq = k)).length

end Cell2v.Sche
