/-
C05 — statement-level model of `ClientSession.Close()` (pomelonet/server/session/session.go:163):

    s.mutex.Lock(); defer s.mutex.Unlock()
    select { case <-s.chanClose: return
             default: s.SetStatus(StatusClosed); close(s.chanClose); close(s.chSend) }
    s.conn.Close()
    s.GetImpl().OnSessionClose(s)

Every effect inside the critical section is a step of its own (the session model `Session.fire` groups them into
`cCheck` and `cFin`), any number of callers (reader / writer / heartbeat defers, kicks), and — running freely beside
them — pushers (`Push`: status test, then `pushToSend`: a send on `chSend`, whose panic on a closed channel is
recovered) and status readers.  Core Lean only.
-/
namespace Cell2v.CloseFine

/-- where the caller that holds the mutex is -/
inductive Ph
  | none      -- nobody holds the mutex
  | locked    -- Lock() returned, about to `select` on chanClose
  | marked    -- SetStatus(StatusClosed) done
  | latched   -- close(chanClose) done
  | sendShut  -- close(chSend) done
  | connShut  -- conn.Close() returned
  | posted    -- OnSessionClose returned; the deferred Unlock is next
  deriving DecidableEq, Repr

structure St where
  ph : Ph := .none
  waiting : Nat := 0          -- callers blocked in Lock()
  returned : Nat := 0         -- calls of Close() that have returned
  statusClosed : Bool := false
  chanClose : Bool := false   -- closed?
  chSend : Bool := false      -- closed?
  closePanics : Nat := 0      -- `close` of an already closed channel (would crash the process)
  connCloses : Nat := 0
  removes : Nat := 0          -- OnSessionClose calls
  pushersIn : Nat := 0        -- pushers that passed the status test and have not sent yet
  sendq : Nat := 0
  recovered : Nat := 0        -- sends on the closed chSend (panic recovered in pushToSend)
  refused : Nat := 0          -- pushes refused by the status test
  deriving DecidableEq, Repr

inductive Lbl
  | call        -- somebody calls Close()
  | lock        -- a waiting caller gets the mutex
  | test        -- the select on chanClose: closed -> return (unlock), else SetStatus(StatusClosed)
  | latch       -- close(chanClose)
  | shutSend    -- close(chSend)
  | shutConn    -- conn.Close()
  | post        -- OnSessionClose
  | unlock      -- deferred Unlock, Close returns
  | pushTest    -- Push: `if s.GetStatus() == StatusClosed { return closed }`
  | pushSend    -- pushToSend: `s.chSend <- p` (recover)
  deriving DecidableEq, Repr

def fire (s : St) : Lbl → Option St
  | .call => some { s with waiting := s.waiting + 1 }
  | .lock => if s.ph = .none ∧ s.waiting > 0 then some { s with ph := .locked, waiting := s.waiting - 1 } else none
  | .test =>
    if s.ph = .locked then
      (if s.chanClose then some { s with ph := .none, returned := s.returned + 1 }
       else some { s with ph := .marked, statusClosed := true })
    else none
  | .latch =>
    if s.ph = .marked then
      some { s with ph := .latched, chanClose := true, closePanics := s.closePanics + (if s.chanClose then 1 else 0) }
    else none
  | .shutSend =>
    if s.ph = .latched then
      some { s with ph := .sendShut, chSend := true, closePanics := s.closePanics + (if s.chSend then 1 else 0) }
    else none
  | .shutConn => if s.ph = .sendShut then some { s with ph := .connShut, connCloses := s.connCloses + 1 } else none
  | .post => if s.ph = .connShut then some { s with ph := .posted, removes := s.removes + 1 } else none
  | .unlock => if s.ph = .posted then some { s with ph := .none, returned := s.returned + 1 } else none
  | .pushTest =>
    if s.statusClosed then some { s with refused := s.refused + 1 } else some { s with pushersIn := s.pushersIn + 1 }
  | .pushSend =>
    if s.pushersIn > 0 then
      (if s.chSend then some { s with pushersIn := s.pushersIn - 1, recovered := s.recovered + 1 }
       else some { s with pushersIn := s.pushersIn - 1, sendq := s.sendq + 1 })
    else none

def runL (s : St) : List Lbl → Option St
  | [] => some s
  | l :: ls => match fire s l with
    | none => none
    | some s' => runL s' ls

/-- what holds in every reachable state, phase by phase -/
def FInv (s : St) : Prop :=
  s.closePanics = 0 ∧
  match s.ph with
  | .none | .locked => s.chanClose = s.chSend ∧ (s.chanClose = true → s.statusClosed = true) ∧
                       s.connCloses = (if s.chanClose then 1 else 0) ∧ s.removes = s.connCloses
  | .marked => s.statusClosed = true ∧ s.chanClose = false ∧ s.chSend = false ∧ s.connCloses = 0 ∧ s.removes = 0
  | .latched => s.statusClosed = true ∧ s.chanClose = true ∧ s.chSend = false ∧ s.connCloses = 0 ∧ s.removes = 0
  | .sendShut => s.statusClosed = true ∧ s.chanClose = true ∧ s.chSend = true ∧ s.connCloses = 0 ∧ s.removes = 0
  | .connShut => s.statusClosed = true ∧ s.chanClose = true ∧ s.chSend = true ∧ s.connCloses = 1 ∧ s.removes = 0
  | .posted => s.statusClosed = true ∧ s.chanClose = true ∧ s.chSend = true ∧ s.connCloses = 1 ∧ s.removes = 1

/-- the steps of the callers themselves (no new call, no pusher) -/
def internal : List Lbl := [.lock, .test, .latch, .shutSend, .shutConn, .post, .unlock]

/-- no caller can move -/
def stuck (s : St) : Bool := internal.all (fun l => (fire s l).isNone)

/-- steps the callers still have to make, at most -/
def work (s : St) : Nat :=
  7 * s.waiting + match s.ph with
    | .none => 0 | .locked => 6 | .marked => 5 | .latched => 4 | .sendShut => 3 | .connShut => 2 | .posted => 1

/-- the version WITHOUT the latch re-test under the mutex (every caller runs the whole body): kept for the defect witness -/
def fireNoTest (s : St) : Lbl → Option St
  | .test => if s.ph = .locked then some { s with ph := .marked, statusClosed := true } else none
  | l => fire s l

def runNoTest (s : St) : List Lbl → Option St
  | [] => some s
  | l :: ls => match fireNoTest s l with
    | none => none
    | some s' => runNoTest s' ls

end Cell2v.CloseFine
