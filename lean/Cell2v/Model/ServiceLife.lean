import Cell2v.Model.Service
/-
C01 — the requesting actor over its whole life: restarts by the supervisor.

`Model/Service.lean` is ONE `Service` object (`init`).  A panic that reaches the actor's mailbox —
a completion callback panicking under `handleResponse`, a synchronous serialisation-failure /
no-route callback panicking in ordinary handler code, handler code itself (`handleRequest`'s
`panic(err)`) — is escalated to the supervisor, which restarts the actor: `factory.go`'s producer
builds a NEW `Service` (`NewService`: empty `Handlers`, `nextId = 0`, `timerCheckExpired = 0`)
under the SAME pid, on the same run service.  The old object is unreachable for messages from then
on (every `ServiceResponse`, also those answering the old object's requests, is handled by the new
one), but its expiry-timer closure stays registered with the run service's `timer.Mgr`: it keeps
scanning the old table once per second and times the orphaned requests out.  A panic inside an
expiry scan never gets that far (`timer.Mgr.do` recovers: `Op.panic`).

`Life` = the live incarnation + the orphaned ones (newest first).  The clock is shared.
-/
namespace Cell2v.Service

structure Life where
  cur : State
  old : List State
  deriving Repr

/-- a `Service` object built by the producer at (shared) time `now` -/
def fresh (M now : Nat) : State := step (init M 0) (.advance now)

def Life.start (M : Nat) : Life := ⟨init M 0, []⟩

/-- the goroutine's stack is gone: whatever callback / handler was running is abandoned -/
def unwound (s : State) : State := { s with base := .idle, nest := 0 }

/-- a panic on the service goroutine.  Inside an expiry scan the timer manager recovers it
(`panicScan`, same incarnation goes on); anywhere else the supervisor restarts the actor. -/
def crash (l : Life) : Life :=
  match l.cur.base with
  | .inTick _ _ => { l with cur := panicScan l.cur }
  | _ => { cur := fresh l.cur.M l.cur.now, old := unwound l.cur :: l.old }

def modNth (f : State → State) : Nat → List State → List State
  | _, [] => []
  | 0, s :: t => f s :: t
  | k + 1, s :: t => s :: modNth f k t

inductive LOp
  | live (op : Op)              -- the live incarnation does `op` (`advance`: the shared clock)
  | orphan (k : Nat) (op : Op)  -- orphan `k`: its timer fires, its callbacks run / return / panic; never a message
  | crash
  deriving Repr

/-- may an orphaned object do this?  No mailbox message reaches it; the clock is not its own. -/
def orphanOp : Op → Bool
  | .response _ _ => false
  | .advance _ => false
  | _ => true

def lstep (l : Life) : LOp → Life
  | .live op =>
    { cur := step l.cur op,
      old := match op with
        | .advance dt => l.old.map (fun s => step s (.advance dt))   -- one clock for all
        | _ => l.old }
  | .orphan k op => if orphanOp op then { l with old := modNth (fun s => step s op) k l.old } else l
  | .crash => crash l

def lrun (l : Life) (ops : List LOp) : Life := ops.foldl lstep l

end Cell2v.Service
