/-
C06 — model of the pomelo wire codec
  pomelonet/common/conn/message/message_encoder.go   (Encode / Decode)
  pomelonet/common/conn/codec/{pomelo_packet_encoder,pomelo_packet_decoder,utils}.go

Bytes are naturals (each < 256 on well-formed input; the decoder model is total
on arbitrary lists).  Every Go index/slice expression is a *checked* access
(`idx?`, `slice?`) whose failure is the outcome `oob` = "Go would panic here",
so that `decode never panics` is a real proof obligation (`Props/C06`), not a
by-product of Lean's totality.

Modelled, not verified: `compress/zlib` is the abstract pair `Env.deflate`,
`Env.inflate`; the route dictionary is the pair of finite maps `routes`/`codes`.

Further down: `SetDictionary` with `strings.TrimSpace` (`trimWs`), the window of
results of one long-lived packet decoder (`decodeShared`), and the Data branch
of `ClientSession.processPacket` + `SessionsImpl.ProcessMessage` (`sessionData`,
pomelonet/server/session/session.go, node/client/impls/pomelo/sessionsimpl.go).
-/
namespace Cell2v.Codec

abbrev Bytes := List Nat

/-! ## message layer -/

inductive MType | request | notify | response | push
  deriving DecidableEq, Repr

def MType.code : MType → Nat
  | .request => 0 | .notify => 1 | .response => 2 | .push => 3
def MType.ofCode : Nat → Option MType
  | 0 => some .request | 1 => some .notify | 2 => some .response | 3 => some .push | _ => none
def MType.hasId : MType → Bool
  | .request | .response => true | _ => false
def MType.routable : MType → Bool
  | .response => false | _ => true

structure Msg where
  typ : MType
  id : Nat
  route : Bytes
  data : Bytes
  err : Bool
  deriving DecidableEq, Repr

structure Env where
  routes : Bytes → Option Nat          -- route -> code
  codes : Nat → Option Bytes           -- code -> route
  deflate : Bytes → Bytes
  inflate : Bytes → Option Bytes       -- none = error
  compress : Bool

inductive DErr | invalid | wrongType | noRoute | inflate
  deriving DecidableEq, Repr

inductive Out (α : Type) | ok (a : α) | err (e : DErr) | oob
  deriving DecidableEq, Repr

def b2n (b : Bool) : Nat := if b then 1 else 0

/-- base-128 little-endian id, as the `for` loop of `Encode` -/
def encVar (n : Nat) : Bytes :=
  if n < 128 then [n] else (n % 128 + 128) :: encVar (n / 128)
termination_by n
decreasing_by omega

/-- `Decode`'s id loop: `(id, bytes consumed)`; an unterminated id leaves the
offset where it was (consumed = 0) but keeps the accumulated value; the sum is
taken mod 2^64 (`uint` arithmetic; a shift ≥ 64 contributes 0). -/
def decVarAux : Bytes → Nat → Nat → Nat → (Nat × Nat)
  | [], acc, _, _ => (acc, 0)
  | b :: bs, acc, k, i =>
    let acc' := (acc + (b % 128) * 2 ^ (7 * k)) % 2 ^ 64
    if b < 128 then (acc', i + 1) else decVarAux bs acc' (k + 1) (i + 1)

def decVar (bs : Bytes) : Nat × Nat := decVarAux bs 0 0 0

def encodeMsg (E : Env) (m : Msg) : Bytes :=
  let comp := (E.routes m.route).isSome
  let d := E.deflate m.data
  let gz := E.compress && decide (d.length < m.data.length)
  let flag := m.typ.code * 2 + b2n comp + 32 * b2n m.err + 16 * b2n gz
  let idb := if m.typ.hasId then encVar m.id else []
  let rb := if m.typ.routable then
      (match E.routes m.route with
       | some c => [c / 256 % 256, c % 256]
       | none => m.route.length % 256 :: m.route) else []
  flag :: (idb ++ rb ++ (if gz then d else m.data))

/-- Go `data[i]` -/
def idx? (bs : Bytes) (i : Nat) : Option Nat := bs[i]?
/-- Go `data[lo:hi]` on a slice whose capacity equals its length -/
def slice? (bs : Bytes) (lo hi : Nat) : Option Bytes :=
  if lo ≤ hi ∧ hi ≤ bs.length then some ((bs.drop lo).take (hi - lo)) else none

/-- `message.Decode`, statement by statement (with the bounds checks of the
repaired code; each remaining access is still a checked one). -/
def decodeMsg (E : Env) (data : Bytes) : Out Msg :=
  if data.length < 2 then .err .invalid else
  match idx? data 0 with
  | none => .oob
  | some flag =>
    match MType.ofCode (flag / 2 % 8) with
    | none => .err .wrongType
    | some t =>
      let (id, used) := if t.hasId then decVar (data.drop 1) else (0, 0)
      let offset := 1 + used
      let e := flag / 32 % 2 == 1
      let fin (route : Bytes) (offset : Nat) : Out Msg :=
        match slice? data offset data.length with
        | none => .oob
        | some body =>
          if flag / 16 % 2 == 1 then
            (match E.inflate body with
             | some d => .ok ⟨t, id, route, d, e⟩
             | none => .err .inflate)
          else .ok ⟨t, id, route, body, e⟩
      if t.routable then
        if flag % 2 == 1 then
          if offset + 2 > data.length then .err .invalid else
          match slice? data offset (offset + 2) with
          | some [b0, b1] =>
            (match E.codes (b0 * 256 + b1) with
             | some r => fin r (offset + 2)
             | none => .err .noRoute)
          | _ => .oob
        else
          if offset ≥ data.length then .err .invalid else
          match idx? data offset with
          | none => .oob
          | some rl =>
            if offset + 1 + rl > data.length then .err .invalid else
            match slice? data (offset + 1) (offset + 1 + rl) with
            | none => .oob
            | some r => fin r (offset + 1 + rl)
      else fin [] offset

/-- the same decoder WITHOUT the three bounds checks: the code before the
`fix:` commit (kept to state and replay the D1 witnesses). -/
def decodeMsgUnchecked (E : Env) (data : Bytes) : Out Msg :=
  if data.length < 2 then .err .invalid else
  match idx? data 0 with
  | none => .oob
  | some flag =>
    match MType.ofCode (flag / 2 % 8) with
    | none => .err .wrongType
    | some t =>
      let (id, used) := if t.hasId then decVar (data.drop 1) else (0, 0)
      let offset := 1 + used
      let e := flag / 32 % 2 == 1
      let fin (route : Bytes) (offset : Nat) : Out Msg :=
        match slice? data offset data.length with
        | none => .oob
        | some body =>
          if flag / 16 % 2 == 1 then
            (match E.inflate body with
             | some d => .ok ⟨t, id, route, d, e⟩
             | none => .err .inflate)
          else .ok ⟨t, id, route, body, e⟩
      if t.routable then
        if flag % 2 == 1 then
          match slice? data offset (offset + 2) with
          | some [b0, b1] =>
            (match E.codes (b0 * 256 + b1) with
             | some r => fin r (offset + 2)
             | none => .err .noRoute)
          | _ => .oob
        else
          match idx? data offset with
          | none => .oob
          | some rl =>
            match slice? data (offset + 1) (offset + 1 + rl) with
            | none => .oob
            | some r => fin r (offset + 1 + rl)
      else fin [] offset

/-- the fields the protocol carries for a message type -/
def carried (m : Msg) : Msg :=
  { m with id := if m.typ.hasId then m.id else 0, route := if m.typ.routable then m.route else [] }

/-! ## packet layer -/

structure Packet where
  typ : Nat
  body : Bytes
  deriving DecidableEq, Repr

inductive PErr | invalidHeader | wrongType | exceed
  deriving DecidableEq, Repr

def maxPacketSize : Nat := 2 ^ 24

def intToBytes (n : Nat) : Bytes := [n / 65536 % 256, n / 256 % 256, n % 256]

/-- `PomeloPacketEncoder.Encode` (repaired: a body of exactly 2^24 bytes is rejected) -/
def frame (p : Packet) : Except PErr Bytes :=
  if p.typ < 1 ∨ p.typ > 5 then .error .wrongType
  else if p.body.length ≥ maxPacketSize then .error .exceed
  else .ok (p.typ :: intToBytes p.body.length ++ p.body)

/-- the header `frame` writes, as a function of type and body LENGTH only (lets the
driver answer for 16 MB bodies without materialising them; `Props/C06.frame_eq_header`) -/
def frameHeader (typ len : Nat) : Except PErr Bytes :=
  if typ < 1 ∨ typ > 5 then .error .wrongType
  else if len ≥ maxPacketSize then .error .exceed
  else .ok (typ :: intToBytes len)

/-- the encoder before the D13 `fix:` commit (`len(data) > MaxPacketSize`) -/
def frameUnfixed (p : Packet) : Except PErr Bytes :=
  if p.typ < 1 ∨ p.typ > 5 then .error .wrongType
  else if p.body.length > maxPacketSize then .error .exceed
  else .ok (p.typ :: intToBytes p.body.length ++ p.body)

/-- `ParseHeader` -/
def parseHeader (h : Bytes) : Except PErr (Nat × Nat) :=
  match h with
  | [t, a, b, c] =>
    if t < 1 ∨ t > 5 then .error .wrongType
    else
      let size := (a * 256 + b) * 256 + c
      if size > maxPacketSize then .error .exceed else .ok (size, t)
  | _ => .error .invalidHeader

/-- the `for size <= buf.Len()` loop of `PomeloPacketDecoder.Decode`; `buf` is
what is left in the buffer after the header `(size, typ)` was consumed. -/
def decLoop (size typ : Nat) (buf : Bytes) : Except PErr (List Packet) :=
  if size ≤ buf.length then
    if (buf.drop size).length < 4 then .ok [⟨typ, buf.take size⟩]
    else
      match parseHeader ((buf.drop size).take 4) with
      | .error e => .error e
      | .ok (s', t') =>
        match decLoop s' t' ((buf.drop size).drop 4) with
        | .error e => .error e
        | .ok ps => .ok (⟨typ, buf.take size⟩ :: ps)
  else .ok []
termination_by buf.length
decreasing_by
  simp only [List.length_drop] at *
  omega

/-- `PomeloPacketDecoder.Decode` -/
def decodePackets (data : Bytes) : Except PErr (List Packet) :=
  if data.length < 4 then .ok []
  else
    match parseHeader (data.take 4) with
    | .error e => .error e
    | .ok (s, t) => decLoop s t (data.drop 4)

end Cell2v.Codec

namespace Cell2v.Codec

/-! ## route dictionary (`message.SetDictionary`) -/

/-- the two Go maps `routes` / `codes`, kept as one list of (route, code) pairs -/
abbrev Dict := List (Bytes × Nat)

def Dict.routes (d : Dict) (r : Bytes) : Option Nat := (d.find? (fun e => e.1 == r)).map (·.2)
def Dict.codes (d : Dict) (c : Nat) : Option Bytes := (d.find? (fun e => e.2 == c)).map (·.1)

/-- one iteration of the `for route, code := range dict` loop: duplicate route or
duplicate code ⇒ error (the call returns, entries added so far stay) -/
def Dict.add1 (d : Dict) (r : Bytes) (c : Nat) : Option Dict :=
  if d.any (fun e => e.1 == r) then none
  else if d.any (fun e => e.2 == c) then none
  else some (d ++ [(r, c)])

/-- `SetDictionary` over the entries in the order Go's map iteration yields them;
`trim` is `strings.TrimSpace`.  Returns the new dictionary and whether the call succeeded. -/
def setDictionary (trim : Bytes → Bytes) (d : Dict) : List (Bytes × Nat) → Dict × Bool
  | [] => (d, true)
  | (r, c) :: rest =>
    match d.add1 (trim r) c with
    | none => (d, false)
    | some d' => setDictionary trim d' rest

/-- codec environment over a dictionary -/
def Dict.env (d : Dict) (deflate : Bytes → Bytes) (inflate : Bytes → Option Bytes) (compress : Bool) : Env :=
  { routes := d.routes, codes := d.codes, deflate := deflate, inflate := inflate, compress := compress }

end Cell2v.Codec

namespace Cell2v.Codec

/-! ## `strings.TrimSpace` on dictionary keys

Modelled for the blanks the generator puts around dictionary keys: ASCII space,
`\t`, `\n`, `\r`.  (Go's `TrimSpace` also removes `\v`, `\f` and the Unicode
spaces U+0085, U+00A0, …; the generator only produces ASCII keys without `\v`/`\f`,
on which the two agree.) -/

def isBlank (b : Nat) : Bool := b == 32 || b == 9 || b == 10 || b == 13

def trimRight (bs : Bytes) : Bytes := (bs.reverse.dropWhile isBlank).reverse

/-- leading blanks dropped, then trailing blanks dropped -/
def trimWs (bs : Bytes) : Bytes := trimRight (bs.dropWhile isBlank)

/-! ## results of earlier `Decode` calls (one long-lived `PomeloPacketDecoder`)

The server keeps ONE packet decoder per component; what a call returned is still
in use (queued on the owner's scheduler) when the next frame is decoded.  The
model of that usage: the last `winCap` results are kept, newest first. -/

def winCap : Nat := 8

def winPush {α : Type} (w : List α) (x : α) : List α := (x :: w).take winCap

/-- one `Decode` call on the long-lived decoder: the window afterwards and the result -/
def decodeShared (w : List (Except PErr (List Packet))) (data : Bytes) :
    List (Except PErr (List Packet)) × Except PErr (List Packet) :=
  (winPush w (decodePackets data), decodePackets data)

/-! ## session layer: one Data packet on a working `ClientSession`

`processPacket` (Data branch) + `SessionsImpl.ProcessMessage`: `message.Decode`
error ⇒ the read loop returns and the session is closed; a value ⇒ the owner gets
`ClientMsg{ClientReqId: uint32(ID), Route, Data}`.  `crash` = a checked access
failed = Go panic on the reader goroutine (no recover there: the process dies). -/

inductive SessOut
  | delivered (reqId : Nat) (route data : Bytes)
  | closed
  | crash
  deriving DecidableEq, Repr

def sessionData (E : Env) (body : Bytes) : SessOut :=
  match decodeMsg E body with
  | .ok m => .delivered (m.id % 2 ^ 32) m.route m.data
  | .err _ => .closed
  | .oob => .crash

end Cell2v.Codec

namespace Cell2v.Codec

/-! ## stream layer: `tcpPlayerConn.GetNextMessage` (pomelonet/server/acceptor/tcp_acceptor.go)

The client's bytes reach the server in arbitrary fragments (TCP segments); the
acceptor reassembles one framed packet per call with two
`ioutil.ReadAll(io.LimitReader(conn, n))` reads.  `…F` = on a fragmented
connection, without `F` = on the plain byte string. `readStream` calls
`GetNextMessage` until it does not return a message (`fuel` bounds the number of
calls; `s.length + 1` always suffices: `Props/C06.stream_fuel_enough`). -/

inductive GOut | msg (m : Bytes) | closed | err
  deriving DecidableEq, Repr

inductive SEnd | closed | err | fuel
  deriving DecidableEq, Repr

/-- `ioutil.ReadAll(io.LimitReader(conn, n))` on a connection that delivers the byte stream in the
fragments `fs` (one `Read` never crosses a fragment boundary): bytes read, fragments left -/
def readN : List Bytes → Nat → Bytes × List Bytes
  | [], _ => ([], [])
  | f :: fs, n =>
    if n = 0 then ([], f :: fs)
    else if f.length ≤ n then
      let r := readN fs (n - f.length)
      (f ++ r.1, r.2)
    else (f.take n, f.drop n :: fs)

/-- `tcpPlayerConn.GetNextMessage` on a fragmented connection -/
def getNextMessageF (fs : List Bytes) : GOut × List Bytes :=
  let h := readN fs 4
  if h.1.length = 0 then (.closed, h.2)
  else match parseHeader h.1 with
    | .error _ => (.err, h.2)
    | .ok (size, _) =>
      let b := readN h.2 size
      if b.1.length < size then (.err, b.2) else (.msg (h.1 ++ b.1), b.2)

/-- the same on the plain byte string (everything the client will ever send) -/
def getNextMessage (s : Bytes) : GOut × Bytes :=
  let h := s.take 4
  if h.length = 0 then (.closed, s.drop 4)
  else match parseHeader h with
    | .error _ => (.err, s.drop 4)
    | .ok (size, _) =>
      let b := (s.drop 4).take size
      if b.length < size then (.err, (s.drop 4).drop size) else (.msg (h ++ b), (s.drop 4).drop size)

def readStreamF : Nat → List Bytes → List Bytes × SEnd
  | 0, _ => ([], .fuel)
  | fuel + 1, fs =>
    match getNextMessageF fs with
    | (.msg m, rest) => let r := readStreamF fuel rest; (m :: r.1, r.2)
    | (.closed, _) => ([], .closed)
    | (.err, _) => ([], .err)

def readStream : Nat → Bytes → List Bytes × SEnd
  | 0, _ => ([], .fuel)
  | fuel + 1, s =>
    match getNextMessage s with
    | (.msg m, rest) => let r := readStream fuel rest; (m :: r.1, r.2)
    | (.closed, _) => ([], .closed)
    | (.err, _) => ([], .err)

end Cell2v.Codec

namespace Cell2v.Codec

/-! ## `Encode` as the Go METHOD: it also modifies the message it is handed

`MessagesEncoder.Encode` (message_encoder.go): with `DataCompression` on and a deflated body that is
shorter, `message.Data = d` — the caller's object now carries the DEFLATED bytes.  `encodeMsgM` returns
the bytes and the message as it is after the call (`encodeMsg` is its first component). -/

def encodeMsgM (E : Env) (m : Msg) : Bytes × Msg :=
  let d := E.deflate m.data
  let gz := E.compress && decide (d.length < m.data.length)
  (encodeMsg E m, { m with data := if gz then d else m.data })

/-! ## the whole path: messages → `Encode` → Data packets → byte stream → frames → packets → `Decode` -/

/-- what the sender puts on the wire for a list of messages: one Data packet (type 4) per message -/
def sendMsgs (E : Env) (ms : List Msg) : List Packet := ms.map fun m => ⟨4, encodeMsg E m⟩

/-- what the receiver makes of one frame handed over by `GetNextMessage`: packet decoder, then
`message.Decode` of every packet body -/
def recvFrame (E : Env) (fr : Bytes) : Except PErr (List (Out Msg)) :=
  match decodePackets fr with
  | .error e => .error e
  | .ok ps => .ok (ps.map fun p => decodeMsg E p.body)

/-! ## the packet decoder's second caller: `Client.readPackets` (pomelonet/client/client.go)

One long-lived `bytes.Buffer` accumulates what the socket delivers; each round hands the whole buffer to
`PomeloPacketDecoder.Decode`, drops `Σ (HeadLength + p.Length)` bytes and keeps the rest for the next
round; a decode error is logged, nothing is dropped and no packet is returned. -/

def packetsLen (ps : List Packet) : Nat := (ps.map fun p => 4 + p.body.length).sum

/-- one `readPackets` round on buffer `buf` when the socket delivers `frag` (a read shorter than the
1024-byte scratch): the buffer afterwards and the packets returned -/
def clientRead (buf frag : Bytes) : Bytes × List Packet :=
  let b := buf ++ frag
  match decodePackets b with
  | .ok ps => (b.drop (packetsLen ps), ps)
  | .error _ => (b, [])

/-- the `readServerMessages` loop: everything pushed to `packetChan`, in order -/
def clientReadLoop : Bytes → List Bytes → List Packet
  | _, [] => []
  | buf, f :: fs => (clientRead buf f).2 ++ clientReadLoop (clientRead buf f).1 fs

/-- `cut=a,b,c` of the harness (positions strictly inside the stream, ascending): the fragments -/
def cutAt : Bytes → Nat → List Nat → List Bytes
  | b, _, [] => [b]
  | b, last, p :: ps =>
    if last < p ∧ p - last < b.length then b.take (p - last) :: cutAt (b.drop (p - last)) p ps
    else cutAt b last ps

end Cell2v.Codec

namespace Cell2v.Codec

/-! ## the session's read loop as a state machine (`ClientSession.read` + `processPacket`, session.go)

Everything that runs on the recover-less reader goroutine for client-controlled bytes: per frame handed over by
`GetNextMessage` the packet decoder, then `processPacket` for every packet of the frame.  `jsonOk` is
`json.Unmarshal(body, &HandshakeData{}) == nil` (encoding/json is not modelled; the harness supplies the
accepted bodies).  Status values as in session.go: Start < Handshake < Working < Closed. -/

inductive SStatus | start | handshake | working | closed
  deriving DecidableEq, Repr

def SStatus.code : SStatus → Nat
  | .start => 1 | .handshake => 2 | .working => 3 | .closed => 4

/-- result of `processPacket`: go on (new status, what the owner was handed) | error return (the read loop
returns and the deferred `Close` runs) | a checked access failed (= Go panic) -/
inductive PRes
  | cont (st : SStatus) (ev : List SessOut)
  | stop
  | crash
  deriving DecidableEq, Repr

def processPacket (E : Env) (jsonOk : Bytes → Bool) (st : SStatus) (p : Packet) : PRes :=
  if p.typ = 1 then                                  -- Handshake: response written, body must be JSON
    if jsonOk p.body then .cont .handshake [] else .stop
  else if p.typ = 2 then .cont .working []            -- HandshakeAck: Working, whatever the status was
  else if p.typ = 4 then                              -- Data
    if st.code < 3 then .cont st []                   -- not yet acknowledged: silently ignored
    else match decodeMsg E p.body with
      | .ok m => .cont st [.delivered (m.id % 2 ^ 32) m.route m.data]
      | .err _ => .stop
      | .oob => .crash
  else .cont st []                                    -- Heartbeat, Kick: nothing the owner sees

/-- the `for i := range packets` loop of one frame: events so far and how it ended -/
def processPackets (E : Env) (jsonOk : Bytes → Bool) : SStatus → List Packet → List SessOut × Option SStatus × Bool
  | st, [] => ([], some st, false)
  | st, p :: ps =>
    match processPacket E jsonOk st p with
    | .cont st' ev => let r := processPackets E jsonOk st' ps; (ev ++ r.1, r.2.1, r.2.2)
    | .stop => ([], none, false)
    | .crash => ([], none, true)

/-- the read loop over the frames the connection hands over; the list ends with `.closed` when the session
closed itself, with `.crash` when the reader goroutine panicked, with neither when the frames ran out -/
def sessFrames (E : Env) (jsonOk : Bytes → Bool) : SStatus → List Bytes → List SessOut
  | _, [] => []
  | st, f :: fs =>
    match decodePackets f with
    | .error _ => [.closed]
    | .ok ps =>
      match processPackets E jsonOk st ps with
      | (ev, some st', _) => ev ++ sessFrames E jsonOk st' fs
      | (ev, none, false) => ev ++ [.closed]
      | (ev, none, true) => ev ++ [.crash]

end Cell2v.Codec

namespace Cell2v.Codec

/-! ## `ParseHeader` with checked accesses (utils.go)

```go
if len(header) != HeadLength { return 0, 0x00, packet.ErrInvalidPomeloHeader }
typ := header[0]
if typ < packet.Handshake || typ > packet.Kick { return 0, 0x00, packet.ErrWrongPomeloPacketType }
size := BytesToInt(header[1:])
if size > MaxPacketSize { return 0, 0x00, ErrPacketSizeExcced }
```
`none` = an index/slice expression out of range = Go panic. -/

/-- `BytesToInt`: big-endian fold -/
def bytesToInt (b : Bytes) : Nat := b.foldl (fun acc x => acc * 256 + x) 0

def parseHeaderC (h : Bytes) : Option (Except PErr (Nat × Nat)) :=
  if h.length ≠ 4 then some (.error .invalidHeader) else
  match idx? h 0 with
  | none => none
  | some t =>
    if t < 1 ∨ t > 5 then some (.error .wrongType) else
    match slice? h 1 h.length with
    | none => none
    | some tl =>
      let size := bytesToInt tl
      if size > maxPacketSize then some (.error .exceed) else some (.ok (size, t))

end Cell2v.Codec

namespace Cell2v.Codec

/-! ## memory model for what `PomeloPacketDecoder.Decode` returns

A returned `packet.Packet` carries `Data []byte`: a SLICE — (buffer, offset, length) — not a value.  The heap is a
list of buffers, each tagged by who can reach it for writing: buffers of the caller (read buffers, which are recycled)
and buffers private to a `Decode` call (`buf := bytes.NewBuffer(nil); buf.Write(data)`: a fresh copy per call;
`buf.Next(size)` returns slices of it).  `decodeRefs` is the Go loop with the buffer's read offset explicit. -/

inductive Owner | caller | decoder
  deriving DecidableEq, Repr

structure Buf where
  owner : Owner
  bytes : Bytes
  deriving DecidableEq, Repr

abbrev Heap := List Buf

/-- `packet.Packet{Type: typ, Length: len, Data: heap[buf][off : off+len]}` -/
structure PRef where
  typ : Nat
  buf : Nat
  off : Nat
  len : Nat
  deriving DecidableEq, Repr

/-- the packet a reference reads as when its buffer holds `data` -/
def PRef.on (r : PRef) (data : Bytes) : Packet := ⟨r.typ, (data.drop r.off).take r.len⟩

/-- what a kept `*packet.Packet` reads as NOW -/
def Heap.deref (h : Heap) (r : PRef) : Option Packet := (h[r.buf]?).map fun b => r.on b.bytes

def decRefLoop (id size typ : Nat) (data : Bytes) (off : Nat) : Except PErr (List PRef) :=
  if size ≤ data.length - off then
    if data.length - (off + size) < 4 then .ok [⟨typ, id, off, size⟩]
    else
      match parseHeader ((data.drop (off + size)).take 4) with
      | .error e => .error e
      | .ok (s', t') =>
        match decRefLoop id s' t' data (off + size + 4) with
        | .error e => .error e
        | .ok rs => .ok (⟨typ, id, off, size⟩ :: rs)
  else .ok []
termination_by data.length - off
decreasing_by omega

/-- the slices `Decode` returns when its private buffer has id `id` and holds `data` -/
def decodeRefs (id : Nat) (data : Bytes) : Except PErr (List PRef) :=
  if data.length < 4 then .ok []
  else
    match parseHeader (data.take 4) with
    | .error e => .error e
    | .ok (s, t) => decRefLoop id s t data 4

/-- `Decode(heap[inp])`: a fresh decoder-private copy is allocated, the result points into it -/
def decodeH (h : Heap) (inp : Nat) : Heap × Except PErr (List PRef) :=
  match h[inp]? with
  | none => (h, .ok [])
  | some b => (h ++ [⟨.decoder, b.bytes⟩], decodeRefs h.length b.bytes)

/-- what can happen to the heap afterwards: the caller overwrites (recycles) one of ITS buffers with anything,
allocates a new one, or calls `Decode` again on any buffer -/
inductive HOp
  | write (id : Nat) (bytes : Bytes)
  | alloc (bytes : Bytes)
  | decode (inp : Nat)

def Heap.step (h : Heap) : HOp → Heap
  | .write id bs =>
    match h[id]? with
    | some ⟨.caller, _⟩ => h.set id ⟨.caller, bs⟩
    | _ => h
  | .alloc bs => h ++ [⟨.caller, bs⟩]
  | .decode inp => (decodeH h inp).1

end Cell2v.Codec
