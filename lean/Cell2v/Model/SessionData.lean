/-!
Executable model for C10 — session data set by any service is what routing and
later handlers see.

Mirrors, statement by statement where it matters (code as of fix 9c7adaf):
* `node/client/session/sessiondata.go`  `SessionData.Set/Get/Has/ToJson/FromJsonStr/UpdateFromJson`
  (a Go map; `json.Unmarshal` into the EXISTING map = key-wise merge; a marshal
  error — a value JSON can not represent — yields no bytes, an unmarshal error
  changes nothing);
* `node/client/session/frontsession.go` `NewFrontSession` (reserved keys `_ServerId`,
  `_NetId`), `Bind/GetID/Set/Get/ToJson`, `PushSession/QuerySession` (no-ops that succeed);
* `node/client/session/backsession.go`  `InitBackSession` (`Data[_ID] = envelope ID`),
  `Set` (NewData + dirty), `Get` (NewData first), `PushSession` (only when dirty; clears
  dirty BEFORE looking the front up; sends ALL of NewData), `QuerySession` → `FromJson`
  (merge into Data, `ServerId`/`NetId` re-read through `Get`, dirty untouched), `ToJson`
  (Data overlaid with NewData);
* `node/client/impls/sessions.go` `ClientSessions.AddSession/RemoveSession/PushSession`
  (unknown session → nothing), `node/builtin/system.go` `sys.pushsession` / `sys.querysession`
  (unknown session → `ErrorNoSession`), `node/app/serviceutils.go` `QuerySession`
  (unknown front → `ErrorNoService`);
* `node/client/impls/handler.go` `Process` (own type → local handler on the FrontSession,
  else `Forward`), `ProcessForwardMsg` (`InitBackSession(bs, ns, msg.FrontId, msg.SessionId, msg.ID)`),
  `node/client/impls/forwarder.go` `Forward` (`RoutePID(serviceType, fs)`; no target → error
  response for a request; `msg.ID = fs.GetID()`, `msg.FrontId = front name`;
  `msg.SessionId` is the connection id stamped by `SessionsImpl.ProcessMessage`).

Values are abstract (`JVal`): `norm` is the JSON round trip (`encoding/json` marshal +
unmarshal into `interface{}`: ints become float64, typed slices become `[]interface{}`,
invalid UTF-8 is replaced …), `rep` tells whether `json.Marshal` accepts the value,
`asStr` is the Go type assertion `.(string)`, `asNetF` the assertion `.(float64)` on a
connection id.  Core Lean only (linked into `modeld_c10`).
-/
namespace Cell2v.SessionData

/-! ### values -/

class JVal (V : Type) where
  /-- JSON round trip of a value -/
  norm : V → V
  /-- `json.Marshal` succeeds -/
  rep : V → Bool
  /-- a Go `string` value -/
  str : String → V
  /-- `v.(string)` -/
  asStr : V → Option String
  /-- the `uint32` connection id stored by `NewFrontSession` -/
  net : Nat → V
  /-- `v.(float64)` read back as a connection id (`BackSession.FromJson`) -/
  asNetF : V → Option Nat

/-! ### association lists (Go maps; keys unique by construction) -/

def lget {κ α : Type} [DecidableEq κ] : List (κ × α) → κ → Option α
  | [], _ => none
  | (k', v) :: m, k => if k' = k then some v else lget m k

/-- `m[k] = v`: replace in place or append -/
def lset {κ α : Type} [DecidableEq κ] : List (κ × α) → κ → α → List (κ × α)
  | [], k, v => [(k, v)]
  | (k', v') :: m, k, v => if k' = k then (k', v) :: m else (k', v') :: lset m k v

/-- `delete(m, k)` -/
def ldel {κ α : Type} [DecidableEq κ] (m : List (κ × α)) (k : κ) : List (κ × α) :=
  m.filter (fun e => !decide (e.1 = k))

abbrev Key := String
abbrev AL (V : Type) := List (Key × V)

def KeyUId : Key := "_ID"
def KeyNetId : Key := "_NetId"
def KeyServerId : Key := "_ServerId"

/-- `for k, v := range newData { d.data[k] = v }` -/
def amerge {V : Type} (m kvs : AL V) : AL V := kvs.foldl (fun m e => lset m e.1 e.2) m

namespace SData
variable {V : Type} [JVal V]

/-- `SessionData.ToJson` followed by the receiver's `json.Unmarshal`: the normalised
pairs, or nothing when some value is not representable (marshal error ⇒ no bytes ⇒
unmarshal error) -/
def toJson (m : AL V) : Option (AL V) :=
  if m.all (fun e => JVal.rep e.2) then some (m.map fun e => (e.1, JVal.norm e.2)) else none

/-- `SessionData.UpdateFromJson` / `FromJsonStr` (both merge into the existing map) -/
def updateFromJson (m : AL V) (j : Option (AL V)) : AL V :=
  match j with
  | some kvs => amerge m kvs
  | none => m

end SData

/-! ### FrontSession -/

/-- a connection: (front service name, connection id) -/
abbrev Conn := String × Nat

/-- `NewFrontSession(serverId, session)` -/
def frontNew {V : Type} [JVal V] (c : Conn) : AL V :=
  lset (lset [] KeyServerId (JVal.str c.1)) KeyNetId (JVal.net c.2)

/-- `FrontSession.GetID`: `s.Get(KeyUId, "").(string)`; `none` = the assertion panics -/
def frontGetID {V : Type} [JVal V] (m : AL V) : Option String :=
  JVal.asStr ((lget m KeyUId).getD (JVal.str ""))

/-! ### BackSession -/

structure Back (V : Type) where
  /-- the service the object lives in ("" = bare object of the pure layer) -/
  ns : String
  serverId : String
  netId : Nat
  dirt : Bool
  data : AL V
  newData : AL V

namespace Back
variable {V : Type} [JVal V]

/-- `NewBS` + `InitBackSession(s, ns, serverId, netId, ID)` -/
def init (ns serverId : String) (netId : Nat) (id : String) : Back V :=
  { ns := ns, serverId := serverId, netId := netId, dirt := false,
    data := lset [] KeyUId (JVal.str id), newData := [] }

/-- `BackSession.Set` -/
def set (b : Back V) (k : Key) (v : V) : Back V :=
  { b with newData := lset b.newData k v, dirt := true }

/-- `BackSession.Get` (`none` = the default is returned) -/
def get? (b : Back V) (k : Key) : Option V :=
  match lget b.newData k with
  | some v => some v
  | none => lget b.data k

/-- `BackSession.GetID` -/
def getID (b : Back V) : Option String := JVal.asStr ((b.get? KeyUId).getD (JVal.str ""))

/-- `BackSession.ToJson`: Data overlaid with NewData, marshalled -/
def toJson (b : Back V) : Option (AL V) := SData.toJson (amerge b.data b.newData)

/-- the connection a push / query of this session addresses -/
def target (b : Back V) : Conn := (b.serverId, b.netId)

/-- `BackSession.FromJson(d)` with `d` = the text `j` stands for.  The flag tells that a
type assertion panicked (the object keeps what was assigned before). -/
def fromJson (b : Back V) (j : Option (AL V)) : Back V × Bool :=
  let b1 := { b with data := SData.updateFromJson b.data j }
  match JVal.asStr ((b1.get? KeyServerId).getD (JVal.str "n")) with
  | none => (b1, true)
  | some sid =>
    let b2 := { b1 with serverId := sid }
    match lget b2.data KeyNetId with
    | none => (b2, false)
    | some _ =>
      match JVal.asNetF ((b2.get? KeyNetId).getD (JVal.net 0)) with
      | none => (b2, true)
      | some n => ({ b2 with netId := n }, false)

/-- `FromJson` before fix 9c7adaf (D16): ended with `s.dirt = false` -/
def fromJsonPre (b : Back V) (j : Option (AL V)) : Back V × Bool :=
  let r := b.fromJson j
  if r.2 then r else ({ r.1 with dirt := false }, false)

end Back

/-! ### the node: fronts with their sessions, back services, handles -/

structure Cfg where
  /-- (name, type, is front) of every service in the cluster view -/
  services : List (String × String × Bool)
  /-- route rules: service type ↦ session key whose string value names the instance -/
  routeKey : List (String × Key)

def Cfg.typeOf (cfg : Cfg) (name : String) : Option String :=
  (cfg.services.find? (fun s => s.1 = name)).map (·.2.1)

def Cfg.isFront (cfg : Cfg) (name : String) : Bool :=
  cfg.services.any (fun s => s.1 = name && s.2.2)

structure State (V : Type) where
  /-- connection ids handed out per front (`SerialIdService`, as ordinals) -/
  next : List (String × Nat)
  /-- live front sessions (of the node's fronts and the pure layer's bare objects) -/
  fronts : List (Conn × AL V)
  /-- BackSession objects the handlers kept or made (`keep`, `mk`, `p.mkb`) -/
  handles : List (String × Back V)
  /-- services of `Cfg.services` that are currently NOT in the cluster view (`Cluster.UpdateClusterTopology`
  without them): `GetServicePID` finds nothing.  The node STATE a member is published with
  (Init / Working / Retiring / Retired) is not part of this state: `GetServicePID`, which push, query and
  forward-by-rule use, does not look at it.  Only the default route does; it is handed to `step` as `dr`
  (`defaultRoute cfg view`). -/
  away : List String := []
  /-- connections whose socket is closed (`ClientSession.Close`: client gone, `Kick`) while their
  `RemoveSession` is still QUEUED on the front-end's scheduler: `IsClosed()` is true, the session is
  still in `ClientSessions.sessions`.  Emptied at the end of every turn (`flush`). -/
  closing : List Conn := []

def State.init {V : Type} : State V := { next := [], fronts := [], handles := [], away := [], closing := [] }

/-- `ClientSession.Close()`: status closed, `OnSessionClose` posts the removal (once) -/
def markClosing {V : Type} (s : State V) (c : Conn) : State V :=
  if s.closing.contains c then s else { s with closing := c :: s.closing }

/-- `app.GetServicePID(name) != nil` for a front-end: it is known and a cluster member -/
def State.reach {V : Type} (s : State V) (cfg : Cfg) (name : String) : Bool :=
  cfg.isFront name && !s.away.contains name

/-- the type of a service `GetServicePID` finds -/
def State.memberType {V : Type} (s : State V) (cfg : Cfg) (name : String) : Option String :=
  if s.away.contains name then none else cfg.typeOf name

/-- what happened to front maps, in order -/
inductive Ev (V : Type) where
  | opened (c : Conn)
  | closed (c : Conn)
  /-- `kvs` were stored key by key into the map of `c` -/
  | write (c : Conn) (kvs : AL V)
  /-- a client message of `c` was forwarded to `target` with envelope (ID, FrontId, SessionId) -/
  | fwd (c : Conn) (target : String) (id : String) (frontId : String) (sessionId : Nat)

/-- one statement of a handler, acting on the session object the handler holds -/
inductive SOp (V : Type) where
  | get (k : Key)
  | set (k : Key) (v : V)
  | bind (uid : String)
  | id
  | push
  /-- `PushSession(nil)`: the handler does not wait for the callback and goes on (typically: answers) in
  the same turn.  The push message is sent at once, so on the back→front channel it precedes
  whatever the handler sends afterwards (its response, a query): modelled as delivered at once. -/
  | pushNW
  | query
  | json
  | keep (h : String)
  /-- `IServerSession.Kick()`: a FrontSession closes its socket at once (`s.Session.Close()`), a BackSession
  asks its front-end to (`x.sys.kick`, no callback; `ClientSessions.Kick` → `FrontSession.Kick`).  Either way
  the session stays in the front-end's map until the queued `RemoveSession` runs: after the current turn. -/
  | kick
  /-- harness device, no effect on any session: the front-end is busy until this turn of the handler ends,
  so what the handler sends reaches it as one batch -/
  | busy
  /-- `cs.CloneBackSession(from)`, the clone kept under handle `h`: a NEW session object for the same
  connection — same service, front-end name and connection id, `Data[_ID] = from.GetID()` (which prefers a
  locally bound uid); nothing else of Data, nothing of NewData, not dirty -/
  | clone (h : String)
  -- pure layer (bare objects)
  | pushTo (c : Conn)      -- `F.Data.UpdateFromJson(B.NewData.ToJson())`
  | fromF (c : Conn)       -- `B.FromJson(F.ToJson())`
  | updRaw                 -- `F.Data.UpdateFromJson(<not a JSON object>)`
  | fromRaw                -- `B.FromJson(<not a JSON object>)`

inductive Res (V : Type) where
  | absent | val (v : V) | ok | err | panic | json (j : Option (AL V)) | id (s : String)
  | nokeep | nons | badop
  deriving DecidableEq

/-- the session object a script runs on -/
inductive Sess (V : Type) where
  | front (c : Conn)
  | back (b : Back V)

/-- the connection whose map a statement of this session may write -/
def Sess.target {V : Type} : Sess V → Conn
  | .front c => c
  | .back b => b.target

structure SR (V : Type) where
  st : State V
  sess : Sess V
  kept : Option String
  res : Res V
  evs : List (Ev V)

section
variable {V : Type} [JVal V]

/-- deliver a push payload to connection `c` (`ClientSessions.PushSession`) -/
def deliver (s : State V) (c : Conn) (j : Option (AL V)) : State V × List (Ev V) :=
  match lget s.fronts c, j with
  | some m, some kvs => ({ s with fronts := lset s.fronts c (amerge m kvs) }, [Ev.write c kvs])
  | _, _ => (s, [])

/-- one statement on a FrontSession (front-local handler) -/
def sstepFront (cfg : Cfg) (s : State V) (c : Conn) (kept : Option String) (op : SOp V) : SR V :=
  match lget s.fronts c with
  | none => ⟨s, .front c, kept, .badop, []⟩
  | some m =>
    let setKV (k : Key) (v : V) : SR V :=
      ⟨{ s with fronts := lset s.fronts c (lset m k v) }, .front c, kept, .ok, [Ev.write c [(k, v)]]⟩
    match op with
    | .get k => ⟨s, .front c, kept, (match lget m k with | some v => .val v | none => .absent), []⟩
    | .set k v => setKV k v
    | .bind uid => setKV KeyUId (JVal.str uid)
    | .id => ⟨s, .front c, kept, (match frontGetID m with | some u => .id u | none => .panic), []⟩
    | .push | .pushNW | .query => ⟨s, .front c, kept, (if cfg.isFront c.1 then .ok else .nons), []⟩
    | .json => ⟨s, .front c, kept, .json (SData.toJson m), []⟩
    | .keep _ => ⟨s, .front c, kept, .nokeep, []⟩
    | .clone _ => ⟨s, .front c, kept, .nokeep, []⟩
    | .kick => if cfg.isFront c.1 then ⟨markClosing s c, .front c, kept, .ok, []⟩ else ⟨s, .front c, kept, .nons, []⟩
    | .busy => ⟨s, .front c, kept, (if cfg.isFront c.1 then .ok else .nons), []⟩
    | .updRaw => ⟨s, .front c, kept, .ok, []⟩
    | .pushTo _ | .fromF _ | .fromRaw => ⟨s, .front c, kept, .badop, []⟩

/-- `BackSession.PushSession` up to its callback -/
def backPush (cfg : Cfg) (s : State V) (b : Back V) : State V × Back V × Res V × List (Ev V) :=
  if !b.dirt then (s, b, .ok, [])
  else
    let b' := { b with dirt := false }
    if !s.reach cfg b.serverId then (s, b', .err, [])        -- `GetServicePID` finds nothing
    else
      let (s', evs) := deliver s b.target (SData.toJson b.newData)
      (s', b', .ok, evs)

/-- `BackSession.QuerySession` up to its callback -/
def backQuery (cfg : Cfg) (s : State V) (b : Back V) : Back V × Res V :=
  if !s.reach cfg b.serverId then (b, .err)                  -- `ErrorNoService`
  else match lget s.fronts b.target with
    | none => (b, .err)                                      -- `ErrorNoSession`
    | some m =>
      let r := b.fromJson (SData.toJson m)
      (r.1, if r.2 then .panic else .ok)

/-- `BackSession.Kick` → `sys.kick` → `ClientSessions.Kick`: unknown front / unknown session → nothing -/
def backKick (cfg : Cfg) (s : State V) (b : Back V) : State V :=
  if !s.reach cfg b.serverId then s
  else match lget s.fronts b.target with
    | none => s
    | some _ => markClosing s b.target

/-- one statement on a BackSession -/
def sstepBack (cfg : Cfg) (s : State V) (b : Back V) (kept : Option String) (op : SOp V) : SR V :=
  match op with
  | .get k => ⟨s, .back b, kept, (match b.get? k with | some v => .val v | none => .absent), []⟩
  | .set k v => ⟨s, .back (b.set k v), kept, .ok, []⟩
  | .bind uid => ⟨s, .back (b.set KeyUId (JVal.str uid)), kept, .ok, []⟩
  | .id => ⟨s, .back b, kept, (match b.getID with | some u => .id u | none => .panic), []⟩
  | .json => ⟨s, .back b, kept, .json b.toJson, []⟩
  | .push =>
    if b.ns = "" then ⟨s, .back b, kept, .nons, []⟩
    else
      let (s', b', r, evs) := backPush cfg s b
      ⟨s', .back b', kept, r, evs⟩
  | .pushNW =>
    if b.ns = "" then ⟨s, .back b, kept, .nons, []⟩
    else
      let (s', b', _, evs) := backPush cfg s b
      ⟨s', .back b', kept, .ok, evs⟩
  | .query =>
    if b.ns = "" then ⟨s, .back b, kept, .nons, []⟩
    else
      let (b', r) := backQuery cfg s b
      ⟨s, .back b', kept, r, []⟩
  | .keep h =>
    if b.ns = "" then ⟨s, .back b, kept, .nokeep, []⟩
    else match kept with
      | some _ => ⟨s, .back b, kept, .nokeep, []⟩
      | none => ⟨s, .back b, some h, .ok, []⟩
  | .kick =>
    if b.ns = "" then ⟨s, .back b, kept, .nons, []⟩
    else ⟨backKick cfg s b, .back b, kept, .ok, []⟩
  | .busy => ⟨s, .back b, kept, (if b.ns = "" then .nons else .ok), []⟩
  | .clone h =>
    if b.ns = "" then ⟨s, .back b, kept, .nokeep, []⟩
    else match lget s.handles h with
      | some _ => ⟨s, .back b, kept, .nokeep, []⟩
      | none =>
        match b.getID with
        | none => ⟨s, .back b, kept, .panic, []⟩                 -- `from.GetID()` type-asserts
        | some uid => ⟨{ s with handles := lset s.handles h (Back.init b.ns b.serverId b.netId uid) }, .back b, kept, .ok, []⟩
  | .pushTo c =>
    match lget s.fronts c with
    | none => ⟨s, .back b, kept, .badop, []⟩
    | some _ =>
      let (s', evs) := deliver s c (SData.toJson b.newData)
      ⟨s', .back b, kept, .ok, evs⟩
  | .fromF c =>
    match lget s.fronts c with
    | none => ⟨s, .back b, kept, .badop, []⟩
    | some m =>
      let r := b.fromJson (SData.toJson m)
      ⟨s, .back r.1, kept, (if r.2 then .panic else .ok), []⟩
  | .fromRaw =>
    let r := b.fromJson none
    ⟨s, .back r.1, kept, (if r.2 then .panic else .ok), []⟩
  | .updRaw => ⟨s, .back b, kept, .badop, []⟩

def sstep (cfg : Cfg) (s : State V) (sess : Sess V) (kept : Option String) (op : SOp V) : SR V :=
  match sess with
  | .front c => sstepFront cfg s c kept op
  | .back b => sstepBack cfg s b kept op

structure ScriptR (V : Type) where
  st : State V
  sess : Sess V
  kept : Option String
  res : List (Res V)
  evs : List (Ev V)

/-- a handler's script, statement after statement (push / query continue in their callbacks) -/
def runScript (cfg : Cfg) (s : State V) (sess : Sess V) (kept : Option String) : List (SOp V) → ScriptR V
  | [] => ⟨s, sess, kept, [], []⟩
  | op :: ops =>
    let r := sstep cfg s sess kept op
    let t := runScript cfg r.st r.sess r.kept ops
    ⟨t.st, t.sess, t.kept, r.res :: t.res, r.evs ++ t.evs⟩

/-- store the session object under the handle it was kept as -/
def storeKept (s : State V) (sess : Sess V) (kept : Option String) : State V :=
  match kept, sess with
  | some h, .back b => { s with handles := lset s.handles h b }
  | _, _ => s

inductive Resp where
  | ok | err | none
  deriving DecidableEq, Repr

inductive Op (V : Type) where
  | openC (front : String)
  | closeC (c : Conn)
  /-- a client message of `c` for `<svcType>.zoo.run` (request) / `.tell` (notify) -/
  | req (c : Conn) (svcType : String) (notify : Bool) (script : List (SOp V))
  /-- `NewBackSession(ns, serverId, netId, uid)` made inside service `at` -/
  | mk (h : String) (at_ : String) (c : Conn) (uid : String)
  /-- code of the handle's service continues with the kept session -/
  | on (h : String) (script : List (SOp V))
  | snap
  /-- `Cluster.UpdateClusterTopology`: the services in `away` are not members, every other service is,
  published with the node state `states` gives it (0 Init, 1 Working, 2 Retiring, 3 Retired), in this order -/
  | topo (away : List String) (states : List (String × Nat))
  -- pure layer
  | pMkf (c : Conn)
  | pMkb (h : String) (c : Conn) (uid : String)
  | pOnF (c : Conn) (script : List (SOp V))
  | pOnB (h : String) (script : List (SOp V))

/-- what the routed back-end handler sees of the envelope -/
structure Envelope where
  uid : String
  frontId : String
  sessionId : Nat
  deriving DecidableEq, Repr

inductive Obs (V : Type) where
  | ok | closed | badop | nohandle
  | opened (n : Nat)
  /-- nothing ran: no target / swallowed panic -/
  | noTarget (resp : Resp)
  | ran (at_ : String) (env : Option Envelope) (rs : List (Res V)) (resp : Resp)
  | script (rs : List (Res V))
  | snap (l : List (Conn × Option (AL V)))

/-- the route rule: `RouteBySessionKey(svcType, key)` on the front map -/
def routeName (cfg : Cfg) (m : AL V) (svcType : String) : String :=
  match lget cfg.routeKey svcType with
  | none => ""
  | some rk => (JVal.asStr ((lget m rk).getD (JVal.str ""))).getD ""

/-- the cluster view: the members in the order `Cluster.UpdateClusterTopology` got them, each with the node
state it is published with (0 Init, 1 Working, 2 Retiring, 3 Retired); `none` = the initial view (every
service of the configuration, Working, in configuration order) -/
abbrev View := Option (List (String × Nat))

def viewOf (cfg : Cfg) : View → List (String × Nat)
  | some v => v
  | none => cfg.services.map fun x => (x.1, 1)

/-- `app.defaultRoute` (the route function of every service type nobody registered a rule for):
`GetWorkServices(type).Items[0].Name` — the first WORKING member of that type in view order, whatever the
session holds; none → `route.NoService` (no service of that name exists) -/
def defaultRoute (cfg : Cfg) (vw : View) (svcType : String) : String :=
  match (viewOf cfg vw).find? (fun e => cfg.typeOf e.1 == some svcType && e.2 == 1) with
  | some e => e.1
  | none => "no_service"

/-- `RoutePID(serviceType, fs)`: the registered rule reads the session, the default route the cluster view
(`dr` = `defaultRoute cfg view` at the moment of the request) -/
def targetName (cfg : Cfg) (dr : String → String) (m : AL V) (svcType : String) : String :=
  match lget cfg.routeKey svcType with
  | none => dr svcType
  | some _ => routeName cfg m svcType

structure StepR (V : Type) where
  st : State V
  obs : Obs V
  evs : List (Ev V)

def stepReq (cfg : Cfg) (dr : String → String) (s : State V) (c : Conn) (svcType : String) (ntf : Bool) (script : List (SOp V)) : StepR V :=
  match lget s.fronts c with
  | none => ⟨s, .closed, []⟩
  | some m =>
    if !cfg.isFront c.1 then ⟨s, .closed, []⟩
    else if cfg.typeOf c.1 = some svcType then
      -- `HandlerComponent.Process`: own type, the handler gets the FrontSession
      let t := runScript cfg s (.front c) none script
      ⟨t.st, .ran c.1 none t.res (if ntf then .none else .ok), t.evs⟩
    else
      -- `ForwarderComponent.Forward`
      let name := targetName cfg dr m svcType
      match s.memberType cfg name with
      | none => ⟨s, .noTarget (if ntf then .none else .err), []⟩
      | some ty =>
        if ty ≠ svcType then ⟨s, .noTarget .none, []⟩          -- delivered to a service of another type: dropped there
        else match frontGetID m with
          | none => ⟨s, .noTarget .none, []⟩                    -- `fs.GetID()` panics inside the posted task
          | some uid =>
            let b : Back V := Back.init name c.1 c.2 uid
            let t := runScript cfg s (.back b) none script
            ⟨storeKept t.st t.sess t.kept, .ran name (some ⟨uid, c.1, c.2⟩) t.res (if ntf then .none else .ok),
              Ev.fwd c name uid c.1 c.2 :: t.evs⟩

def insertConn {α : Type} (e : Conn × α) : List (Conn × α) → List (Conn × α)
  | [] => [e]
  | x :: l => if e.1.2 < x.1.2 then e :: x :: l else x :: insertConn e l

def snapOf (cfg : Cfg) (s : State V) : List (Conn × Option (AL V)) :=
  (cfg.services.filter (·.2.2)).flatMap fun f =>
    ((s.fronts.filter (fun e => e.1.1 = f.1)).foldr insertConn []).map fun e => (e.1, SData.toJson e.2)

def step (cfg : Cfg) (dr : String → String) (s : State V) : Op V → StepR V
  | .openC f =>
    if !cfg.isFront f then ⟨s, .badop, []⟩
    else
      let n := (lget s.next f).getD 0 + 1
      ⟨{ s with next := lset s.next f n, fronts := lset s.fronts (f, n) (frontNew (f, n)) }, .opened n, [Ev.opened (f, n)]⟩
  | .closeC c =>
    match lget s.fronts c with
    | none => ⟨s, .closed, []⟩
    | some _ =>
      if !cfg.isFront c.1 then ⟨s, .closed, []⟩
      else ⟨markClosing s c, .ok, []⟩      -- the reader sees EOF: `Close()`, the removal is queued
  | .req c svcType ntf script => stepReq cfg dr s c svcType ntf script
  | .mk h at_ c uid =>
    match cfg.typeOf at_, lget s.handles h with
    | some _, none => ⟨{ s with handles := lset s.handles h (Back.init at_ c.1 c.2 uid) }, .ok, []⟩
    | _, _ => ⟨s, .badop, []⟩
  | .on h script =>
    match lget s.handles h with
    | none => ⟨s, .nohandle, []⟩
    | some b =>
      if b.ns = "" then ⟨s, .nohandle, []⟩
      else
        let t := runScript cfg s (.back b) (some h) script
        ⟨storeKept t.st t.sess t.kept, .script t.res, t.evs⟩
  | .snap => ⟨s, .snap (snapOf cfg s), []⟩
  | .topo away _ => ⟨{ s with away := away }, .ok, []⟩
  | .pMkf c =>
    if cfg.isFront c.1 then ⟨s, .badop, []⟩
    else ⟨{ s with fronts := lset s.fronts c (frontNew c) }, .ok, [Ev.opened c]⟩
  | .pMkb h c uid =>
    match lget s.handles h with
    | some _ => ⟨s, .badop, []⟩
    | none => ⟨{ s with handles := lset s.handles h (Back.init "" c.1 c.2 uid) }, .ok, []⟩
  | .pOnF c script =>
    match lget s.fronts c with
    | none => ⟨s, .nohandle, []⟩
    | some _ =>
      if cfg.isFront c.1 then ⟨s, .nohandle, []⟩
      else
        let t := runScript cfg s (.front c) none script
        ⟨t.st, .script t.res, t.evs⟩
  | .pOnB h script =>
    match lget s.handles h with
    | none => ⟨s, .nohandle, []⟩
    | some b =>
      if b.ns ≠ "" then ⟨s, .nohandle, []⟩
      else
        let t := runScript cfg s (.back b) (some h) script
        ⟨storeKept t.st t.sess t.kept, .script t.res, t.evs⟩

/-! ### the end of a turn: the queued removals run

`step` is what the front-end and the services do up to the point where the front-end's scheduler
queue is drained: `ClientSessions.RemoveSession` of every connection closed meanwhile runs then —
`delete(s.sessions, id)`, after which the close handlers (`HandlerComponent.OnSessionRemove`,
`onCloseCB`) are handed the FrontSession with its data as of that moment. -/

/-- `RemoveSession` of one connection: (state, what the close handlers saw so far) -/
def removeOne (acc : State V × List (Conn × AL V)) (c : Conn) : State V × List (Conn × AL V) :=
  match lget acc.1.fronts c with
  | some m => ({ acc.1 with fronts := ldel acc.1.fronts c }, acc.2 ++ [(c, m)])
  | none => acc

/-- all queued removals, oldest first (`closing` is newest first) -/
def flush (s : State V) : State V × List (Conn × AL V) :=
  s.closing.foldr (fun c acc => removeOne acc c) ({ s with closing := [] }, [])

/-- an answer relayed to a connection whose socket is closed is lost (`ClientSession.ResponseMID`: "closed") -/
def silence (closing : List Conn) : Op V → Obs V → Obs V
  | .req c _ _ _, .ran a e rs .ok => if closing.contains c then .ran a e rs .none else .ran a e rs .ok
  | _, o => o

structure TurnR (V : Type) where
  st : State V
  obs : Obs V
  evs : List (Ev V)
  /-- the connections removed at the end of the turn, each with the map its close handlers saw -/
  gone : List (Conn × AL V)

/-- one operation including the end of the turn -/
def stepF (cfg : Cfg) (dr : String → String) (s : State V) (op : Op V) : TurnR V :=
  let r := step cfg dr s op
  let f := flush r.st
  ⟨f.1, silence r.st.closing op r.obs, r.evs ++ f.2.map (fun e => Ev.closed e.1), f.2⟩

/-! ### a connection whose first message is handed over before the front-end has registered it

`SessionsImpl.OnSessionCreate` posts `AddSession` to the front-end's scheduler, `SessionsImpl.ProcessMessage`
posts the message; both are called on the connection's READER goroutine.  While the front-end is busy (inside a
task of its own) both wait in its queue, in that order: the first message of a fresh connection is handed over
before the connection has an id.  The front-end then runs the two tasks one after the other: `AddSession`
assigns the id, and the posted message task reads the id of its session WHEN IT RUNS
(`cmsg.SessionId = session.GetId()` inside the closure), so the message is a message of exactly the
connection registered just before. -/

/-- the front-end's queue holds [`AddSession` of a new connection of `f`, its first message] and, with
`closeAfter`, [`RemoveSession`] behind them (the client hung up right after its first message: the reader saw
EOF, `Close()` set the closed flag and posted the removal before the front-end got to any of it): result of both
turns (events of both, the removals at the end of the second) and the connection that was registered -/
def stepOpenReq (cfg : Cfg) (dr : String → String) (s : State V) (f : String) (svcType : String) (ntf : Bool)
    (script : List (SOp V)) (closeAfter : Bool := false) : TurnR V × Option Conn :=
  let r1 := stepF cfg dr s (.openC f)
  match r1.obs with
  | .opened n =>
    let s1 := if closeAfter then markClosing r1.st (f, n) else r1.st
    let r2 := stepF cfg dr s1 (.req (f, n) svcType ntf script)
    (⟨r2.st, r2.obs, r1.evs ++ r2.evs, r1.gone ++ r2.gone⟩, some (f, n))
  | _ => (r1, none)

/-- a whole history: final state and the events in order -/
def nextView (vw : View) : Op V → View
  | .topo _ sts => some sts
  | _ => vw

def run (cfg : Cfg) (vw : View) (s : State V) : List (Op V) → State V × List (Ev V)
  | [] => (s, [])
  | op :: ops =>
    let r := stepF cfg (defaultRoute cfg vw) s op
    let t := run cfg (nextView vw op) r.st ops
    (t.1, r.evs ++ t.2)

end

/-! ### the concrete values of the driver: tokens `raw~nrm` -/

/-- a value as the harness names it: strings carry the hex of their bytes, connection ids
their ordinal, everything else the token of the raw value, the token of its JSON round
trip and whether `json.Marshal` accepts it -/
inductive Tok where
  | str (raw nrm : String)
  | net (n : Nat) (isF : Bool)
  | other (raw nrm : String) (rep : Bool)
  deriving DecidableEq, Repr

instance : JVal Tok where
  norm
    | .str _ n => .str n n
    | .net n _ => .net n true
    | .other _ n r => .other n n r
  rep
    | .other _ _ r => r
    | _ => true
  str s := .str s s
  asStr
    | .str r _ => some r
    | _ => none
  net n := .net n false
  asNetF
    | .net n true => some n
    | _ => none

end Cell2v.SessionData
