/-
C15 — model of how a `runservice.RunService` obtains its scheduler:
`NewRunService(name)` computes `name = makeName(name)` (an empty name becomes
"rs<AllocId()>") and takes `rsScheMgr.GetSche(name)` (create-if-missing in the
process-wide `sche.Mgr`); `RunService.Stop` stops the scheduler and
`DelSche(makeName(r.Name))` removes the registration.

`raw = true` is the variant in which `GetSche` is called with the caller's raw
name (all anonymous services then look up the key ""), kept for the witness.

Modelled, not verified: id wrap-around at 2^32; an explicit name of the form
"rs<n>" colliding with a generated one (keys are kept apart by construction).
-/
namespace Cell2v.ScheMgr

inductive Key | anon (n : Nat) | named (s : String)
  deriving DecidableEq, Repr

structure Svc where
  key : Key     -- r.Name
  sche : Nat    -- identity of the *Sche object it posts to / consumes from
  deriving DecidableEq, Repr

structure St where
  nextId : Nat := 1               -- idService.nextId
  nextSche : Nat := 0             -- Sche objects allocated so far
  reg : List (Key × Nat) := []    -- Mgr.sches
  stopped : List Nat := []        -- Sche objects whose channel is closed
  svcs : List Svc := []           -- every service created so far
  deriving Repr

def lookup (reg : List (Key × Nat)) (k : Key) : Option Nat := (reg.find? (fun e => e.1 = k)).map (·.2)

/-- `Mgr.GetSche(name)`: lookup-or-create under ONE critical section -/
def getSche (s : St) (k : Key) : St × Nat :=
  match lookup s.reg k with
  | some sc => (s, sc)
  | none => ({ s with nextSche := s.nextSche + 1, reg := (k, s.nextSche) :: s.reg }, s.nextSche)

/-- the split variant: the lookup (under a read lock) … -/
def lookupPhase (s : St) (k : Key) : Option Nat := lookup s.reg k
/-- … and, for a caller that saw a miss, create-and-store under the write lock WITHOUT looking again -/
def createPhase (s : St) (k : Key) : St × Nat :=
  ({ s with nextSche := s.nextSche + 1, reg := (k, s.nextSche) :: s.reg }, s.nextSche)

/-- any number of `GetSche` calls, in the order they enter the critical section -/
def getMany : St → List Key → St × List (Key × Nat)
  | s, [] => (s, [])
  | s, k :: ks =>
    let r := getSche s k
    let rest := getMany r.1 ks
    (rest.1, (k, r.2) :: rest.2)

/-- `NewRunService(name)`; `none` = the empty name -/
def new (raw : Bool) (s : St) (name : Option String) : St × Svc :=
  let key : Key := match name with | some n => .named n | none => .anon (s.nextId + 1)
  let nid : Nat := match name with | some _ => s.nextId | none => s.nextId + 1
  let lk : Key := if raw then (match name with | some n => .named n | none => .named "") else key
  match lookup s.reg lk with
  | some sc => ({ s with nextId := nid, svcs := s.svcs ++ [⟨key, sc⟩] }, ⟨key, sc⟩)
  | none => ({ s with nextId := nid, nextSche := s.nextSche + 1, reg := (lk, s.nextSche) :: s.reg,
                      svcs := s.svcs ++ [⟨key, s.nextSche⟩] }, ⟨key, s.nextSche⟩)

/-- `RunService.Stop`: stops the scheduler and removes the registration before it returns (synchronously) -/
def stop (s : St) (v : Svc) : St :=
  { s with stopped := v.sche :: s.stopped, reg := s.reg.filter (fun e => e.1 ≠ v.key) }

/-- the variant in which the registration is only removed later (by the exiting loop goroutine):
what `Stop` leaves behind when it returns -/
def stopDeferred (s : St) (v : Svc) : St := { s with stopped := v.sche :: s.stopped }

inductive Op | new (name : Option String) | stop (i : Nat)
  deriving Repr

def step (raw : Bool) (s : St) : Op → St
  | .new name => (new raw s name).1
  | .stop i => match s.svcs[i]? with
    | some v => stop s v
    | none => s

def run (raw : Bool) (s : St) (ops : List Op) : St := ops.foldl (step raw) s

inductive Reachable : St → Prop
  | init : Reachable {}
  | step {s : St} (op : Op) : Reachable s → Reachable (step false s op)

end Cell2v.ScheMgr
