/-!
Executable model of the MMO centre's `PlayerMgr` (C18):
`_projects/mmo/server/servers/center/{playermgr,player,transactionlock,kickwait,define}.go`
and `common/statewithtimeout.go`, statement by statement where it matters.
Core Lean only (linked into `modeld_c18`).

Time is an explicit `now : Nat` (milliseconds).  The state is a function
`uid → Acct` (everything the centre keeps per account: the `players` entry, the
parked kick-wait login, the offline requests not yet answered by the logic
server, the number of login requests issued so far) plus the two globals
`now` and `KickWaitTaskMgr.nextCheckExpired`.
-/
namespace Cell2v.Center

/-! ### constants of `define.go` / `playermgr.go` / `kickwait.go` -/
def LoginTimeout : Nat := 2 * 60 * 1000
def LogoutTimeout : Nat := 30 * 60 * 1000
def LockTimeout : Nat := 3 * 60 * 1000        -- TransactionLockTimeout
def LockLoginTimeout : Nat := 5 * 60 * 1000   -- TransactionLockLoginTimeout
def TaskExpiry : Nat := 30 * 1000
def ScanInterval : Nat := 3 * 1000
def TimerPeriod : Nat := 1000                 -- the period of the timer registered by `PlayerMgr.Start`

/-- player status (`Init` and `Abnormal` are never stored in a record: `NewPlayer` is
always followed by `SetState(Logining, …)`, nothing sets `Abnormal`) -/
inductive PState | logining | logined | switchLine | logouting | waitRemove
  deriving DecidableEq, Repr

/-- transaction kinds -/
inductive Reason | login | logout | reonline | switchLine
  deriving DecidableEq, Repr

/-- `PlayerTransactionLock` -/
structure Lock where
  held : Bool
  reason : Reason
  timeout : Nat
  deriving DecidableEq, Repr

/-- `Lock(reason, timeout)`: refuses while held and unexpired (`now < t.timeout`),
force-unlocks after expiry. -/
def Lock.tryLock (l : Lock) (now : Nat) (r : Reason) (d : Nat) : Option Lock :=
  if l.held && decide (now < l.timeout) then none else some ⟨true, r, now + d⟩

/-- `Unlock(reason)`: only when held with the same reason. -/
def Lock.unlock (l : Lock) (r : Reason) : Lock × Bool :=
  if !l.held then (l, false)
  else if r ≠ l.reason then (l, false)
  else ({ l with held := false }, true)

/-- `Player` (the fields the transitions depend on).  `front`: 0 = "", 1/2 = the two
front-ends of the directory, 3 = a front-end unknown to the directory.  `net = 0`
is `IsSessionClosed`.  `logic`: `none` = "", `some true` = a logic server in the
directory, `some false` = one that is not. -/
structure Player where
  front : Nat
  net : Nat
  logic : Option Bool
  state : PState
  stTimeout : Nat            -- 0 = never (StateWithTimeout)
  lock : Lock
  deriving DecidableEq, Repr

/-- `KickWaitTask`; `id` identifies the login request whose callback it holds -/
structure Task where
  id : Nat
  front : Nat
  net : Nat
  start : Nat
  deriving DecidableEq, Repr

structure Acct where
  player : Option Player := none
  task : Option Task := none
  pend : List Nat := []       -- send times of offline requests awaiting the logic server's reply
  nextId : Nat := 0           -- login requests issued so far for this account
  dropped : List Nat := []    -- ghost: parked login requests the expiry scan forgot without answering them
  deriving Repr

/-- answers given to login callbacks -/
inductive Code | ok | re (lg : Option Bool) | already | busy
  deriving DecidableEq, Repr

/-- what an entry point emits: an acknowledgement `(login id, its connection's net id, code)`,
a kick request to a front-end, an offline request to the logic server -/
inductive Ev
  | ack (id net : Nat) (c : Code)
  | kick (front net : Nat)
  | off
  deriving DecidableEq, Repr

/-! ### `ReqLogin` -/

/-- `doReconnect` -/
def doReconnect (now : Nat) (a : Acct) (p : Player) (id f n : Nat) : Acct × List Ev :=
  match p.lock.tryLock now .reonline LockTimeout with
  | none => (a, [.ack id n .busy])
  | some l => ({ a with player := some { p with lock := l, front := f, net := n } }, [.ack id n (.re p.logic)])

/-- `KickWaitTaskMgr.AddTask`: a parked login is cancelled (kick of its connection, SystemBusy) and replaced -/
def addTask (now : Nat) (a : Acct) (id f n : Nat) : Acct × List Ev :=
  let evs := match a.task with
    | some t => [Ev.kick t.front t.net, Ev.ack t.id t.net .busy]
    | none => []
  ({ a with task := some ⟨id, f, n, now⟩ }, evs)

/-- `PlayerMgr.ReqLogin(uid, frontId, netId, kickPrev, cb)`; `id` names the callback -/
def reqLogin (now : Nat) (a : Acct) (id f n : Nat) (k : Bool) : Acct × List Ev :=
  match a.player with
  | some p =>
    if p.net = 0 then
      if p.state = .logined then doReconnect now a p id f n
      else (a, [.ack id n .already])
    else
      let evk := if k then [Ev.kick p.front p.net] else []
      if p.state = .logined then
        let r := addTask now a id f n
        (r.1, evk ++ r.2)
      else (a, evk ++ [.ack id n .already])
  | none =>
    -- NewPlayer; SetState(Logining, LoginTimeout); TransactionLock(Login) on a fresh lock always succeeds
    let p : Player := { front := f, net := n, logic := none, state := .logining, stTimeout := now + LoginTimeout,
                        lock := ⟨true, .login, now + LockLoginTimeout⟩ }
    ({ a with player := some p }, [.ack id n .ok])

/-- the `login` entry point: a new request id, then `ReqLogin` -/
def loginOp (now : Nat) (a : Acct) (f n : Nat) (k : Bool) : Acct × List Ev :=
  let id := a.nextId + 1
  reqLogin now { a with nextId := id } id f n k

/-! ### the other entry points.  The `Bool` component says that
`kickWaitMgr.OnSessionClose(uid)` runs synchronously at the end of the call (the offline
request could not be routed: its callback fires at once). -/

/-- `sendOnOfflineAndCheckKickWait`: routable logic server → a pending request, else the callback runs at once -/
def sendOffline (now : Nat) (a : Acct) (lg : Option Bool) : Acct × List Ev × Bool :=
  if lg = some true then ({ a with pend := a.pend ++ [now] }, [.off], false)
  else (a, [], true)

/-- `OnClientSessionClosed` -/
def closedOp (now : Nat) (a : Acct) : Acct × List Ev × Bool :=
  match a.player with
  | none => (a, [], false)
  | some p =>
    let p' := { p with front := 0, net := 0 }
    let a' := { a with player := some p' }
    if p'.state = .logined then sendOffline now a' p'.logic else (a', [], false)

/-- `OnLogicLogined` -/
def loginedOp (now : Nat) (a : Acct) (lg : Bool) : Acct × List Ev × Bool :=
  match a.player with
  | none => (a, [], false)
  | some p =>
    let p' := { p with logic := some lg, state := .logined, stTimeout := 0, lock := (p.lock.unlock .login).1 }
    let a' := { a with player := some p' }
    if p'.net = 0 then sendOffline now a' (some lg) else (a', [], false)

/-- `OnLogicReOnline` -/
def reonlineOp (a : Acct) : Acct :=
  match a.player with
  | none => a
  | some p => { a with player := some { p with lock := (p.lock.unlock .reonline).1 } }

/-- `ReqLogout` -/
def logoutReqOp (now : Nat) (a : Acct) : Acct × Bool :=
  match a.player with
  | none => (a, false)
  | some p =>
    match p.lock.tryLock now .logout LockTimeout with
    | none => (a, false)
    | some l => ({ a with player := some { p with lock := l, state := .logouting, stTimeout := now + LogoutTimeout } }, true)

def kickIfOpen (p : Player) : List Ev := if p.net = 0 then [] else [.kick p.front p.net]

/-- `OnLogicLogout` -/
def logoutDoneOp (a : Acct) : Acct × List Ev :=
  match a.player with
  | none => (a, [])
  | some p =>
    ({ a with player := some { p with lock := (p.lock.unlock .logout).1, state := .waitRemove, stTimeout := 0 } }, kickIfOpen p)

/-- `OnLogicAbnormalLogout` -/
def abnormalOp (a : Acct) : Acct × List Ev :=
  match a.player with
  | none => (a, [])
  | some p => ({ a with player := some { p with state := .waitRemove, stTimeout := 0 } }, kickIfOpen p)

/-- `ReqSwitchLine` -/
def swBeginOp (now : Nat) (a : Acct) : Acct × Bool :=
  match a.player with
  | none => (a, false)
  | some p =>
    if p.state ≠ .logined then (a, false)
    else match p.lock.tryLock now .switchLine LockTimeout with
      | none => (a, false)
      | some l => ({ a with player := some { p with lock := l, state := .switchLine, stTimeout := 0 } }, true)

/-- `OnSwitchLineEnd` -/
def swEndOp (a : Acct) : Acct × Bool :=
  match a.player with
  | none => (a, false)
  | some p =>
    if p.state ≠ .switchLine then (a, false)
    else
      let r := p.lock.unlock .switchLine
      if !r.2 then (a, false)
      else ({ a with player := some { p with lock := r.1, state := .logined, stTimeout := 0 } }, true)

/-- one account's share of the periodic `update`: `updatePlayer` (state timeout of
Logining / Logouting → WaitRemove) and then removal of a WaitRemove record -/
def tickAcct (now : Nat) (a : Acct) : Acct :=
  match a.player with
  | none => a
  | some p =>
    let timedOut := decide (p.stTimeout > 0) && decide (now ≥ p.stTimeout)
    let st := if timedOut && (p.state = .logining || p.state = .logouting) then PState.waitRemove else p.state
    if st = .waitRemove then { a with player := none } else a

/-- `KickWaitTask.Do` followed by `removeTask` (in `KickWaitTaskMgr.OnSessionClose`) -/
def runTask (now : Nat) (a : Acct) : Acct × List Ev :=
  match a.task with
  | none => (a, [])
  | some t =>
    let r := reqLogin now a t.id t.front t.net false
    ({ r.1 with task := none }, r.2)

def Task.expired (t : Task) (now : Nat) : Bool := decide (now > t.start + TaskExpiry)

/-- what `tryRemoveExpired` may do to an account: forget its parked login (never answered) -/
def dropExpired (now : Nat) (a : Acct) : Acct :=
  match a.task with
  | some t => if t.expired now then { a with task := none, dropped := t.id :: a.dropped } else a
  | none => a

/-! ### global state -/

def upd {α : Type} (f : Nat → α) (k : Nat) (v : α) : Nat → α := fun x => if x = k then v else f x

structure State where
  accts : Nat → Acct := fun _ => {}
  now : Nat := 0
  nextCheck : Nat := 0

/-- The instants in `(a, b]` at which the periodic timer registered by `PlayerMgr.Start` at time 0 fires
(`timer.Mgr.AddTimer(1 s)`: `time.AfterFunc`, re-armed after each callback), in order. -/
def firings (a b : Nat) : List Nat :=
  (List.range (b / TimerPeriod - a / TimerPeriod)).map fun i => (a / TimerPeriod + i + 1) * TimerPeriod

/-- The entry points, plus the clock.  `adv` lets time pass with nothing else happening (the periodic update
is then the explicit `tick`); `advT` lets time pass with the 1 s timer of `PlayerMgr.Start` running: `update`
runs at every firing on the way, reading the clock at that instant.  `pick` (only meaningful when the expiry scan of the
kick-wait manager runs during the operation) names the account whose expired parked login
the scan removes: the code keeps only the last expired entry of a Go map iteration, so
which one goes is the runtime's choice. -/
inductive Op
  | login (u f n : Nat) (k : Bool)
  | closed (u : Nat) (pick : Option Nat)
  | logined (u : Nat) (lg : Bool) (pick : Option Nat)
  | reonline (u : Nat)
  | logoutReq (u : Nat)
  | logoutDone (u : Nat)
  | abnormal (u : Nat)
  | swBegin (u : Nat)
  | swEnd (u : Nat)
  | offReply (u : Nat) (pick : Option Nat)
  | tick
  | adv (ms : Nat)
  | advT (ms : Nat)
  deriving Repr

/-- output of one operation: the return value (if the entry point has one) and what it emitted -/
structure Out where
  ret : Option Bool := none
  evs : List Ev := []
  deriving Repr

/-- `KickWaitTaskMgr.tryRemoveExpired` -/
def scan (s : State) (pick : Option Nat) : State :=
  if s.now < s.nextCheck then s
  else
    let s' := { s with nextCheck := s.now + ScanInterval }
    match pick with
    | some v => { s' with accts := upd s'.accts v (dropExpired s.now (s'.accts v)) }
    | none => s'

/-- `KickWaitTaskMgr.OnSessionClose(uid)` -/
def kwClose (s : State) (u : Nat) (pick : Option Nat) : State × List Ev :=
  let s1 := scan s pick
  let r := runTask s1.now (s1.accts u)
  ({ s1 with accts := upd s1.accts u r.1 }, r.2)

def setAcct (s : State) (u : Nat) (a : Acct) : State := { s with accts := upd s.accts u a }

def fire (s : State) (u : Nat) (pick : Option Nat) (evs : List Ev) (f : Bool) : State × Out :=
  if f then
    let r := kwClose s u pick
    (r.1, { evs := evs ++ r.2 })
  else (s, { evs := evs })

def step (s : State) : Op → State × Out
  | .login u f n k =>
    let r := loginOp s.now (s.accts u) f n k
    (setAcct s u r.1, { evs := r.2 })
  | .closed u pick =>
    let r := closedOp s.now (s.accts u)
    fire (setAcct s u r.1) u pick r.2.1 r.2.2
  | .logined u lg pick =>
    let r := loginedOp s.now (s.accts u) lg
    fire (setAcct s u r.1) u pick r.2.1 r.2.2
  | .reonline u => (setAcct s u (reonlineOp (s.accts u)), {})
  | .logoutReq u =>
    let r := logoutReqOp s.now (s.accts u)
    (setAcct s u r.1, { ret := some r.2 })
  | .logoutDone u =>
    let r := logoutDoneOp (s.accts u)
    (setAcct s u r.1, { evs := r.2 })
  | .abnormal u =>
    let r := abnormalOp (s.accts u)
    (setAcct s u r.1, { evs := r.2 })
  | .swBegin u =>
    let r := swBeginOp s.now (s.accts u)
    (setAcct s u r.1, { ret := some r.2 })
  | .swEnd u =>
    let r := swEndOp (s.accts u)
    (setAcct s u r.1, { ret := some r.2 })
  | .offReply u pick =>
    match (s.accts u).pend with
    | [] => (s, {})
    | _ :: rest =>
      let a := s.accts u
      fire (setAcct s u { a with pend := rest }) u pick [] true
  | .tick => ({ s with accts := fun u => tickAcct s.now (s.accts u) }, {})
  | .adv ms => ({ s with now := s.now + ms }, {})
  | .advT ms =>
    ({ s with accts := fun u => (firings s.now (s.now + ms)).foldl (fun a t => tickAcct t a) (s.accts u),
              now := s.now + ms }, {})

/-- the account an operation addresses (`tick`/`adv`: none) -/
def Op.uid : Op → Option Nat
  | .login u .. | .closed u _ | .logined u .. | .reonline u | .logoutReq u | .logoutDone u
  | .abnormal u | .swBegin u | .swEnd u | .offReply u _ => some u
  | .tick | .adv _ | .advT _ => none

/-- one recorded step of a history: the operation, the clock when it was issued, what came out -/
structure Step where
  op : Op
  out : Out
  deriving Repr

/-- run a history from the initial state; the trace is in execution order -/
def runFrom (s : State) : List Op → State × List Step
  | [] => (s, [])
  | op :: ops =>
    let r := step s op
    let rest := runFrom r.1 ops
    (rest.1, ⟨op, r.2⟩ :: rest.2)

def run (ops : List Op) : State × List Step := runFrom {} ops

/-! ### the pre-fix / defective variants used by witness theorems -/

/-- a `ReqLogin` that forgets to look at the player's state before reconnecting
(a plausible slip: the `Logined` test dropped) -/
def reqLoginNoStateCheck (now : Nat) (a : Acct) (id f n : Nat) (k : Bool) : Acct × List Ev :=
  match a.player with
  | some p => if p.net = 0 then doReconnect now a p id f n else reqLogin now a id f n k
  | none => reqLogin now a id f n k

end Cell2v.Center
