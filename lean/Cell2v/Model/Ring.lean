/-
C09 (component) — sequential models of the two queues the mailbox is built on.

* `Ring`  : actorex/queue/goring/queue.go (`goring.Queue`, the user queue): a
            growing ring buffer.  `push` / `pop` / `popMany` follow the Go
            methods statement by statement (the mutex and the atomic length
            counter are single-threaded no-ops here), including the doubling
            copy loop `newBuff[i] = buffer[(tail+i) % mod]`, `head = 0`,
            `tail = mod`.  Values are `Nat`; a slot is `Option Nat` (`none` =
            Go `nil`).
* `Mpsc`  : actorex/queue/mpsc/mpsc.go as a sequential structure: a heap of
            nodes (`val`, `next`), `head` (producer end) and `tail` (consumer
            end, the stub) pointers.

Go differences that are outside the model: `x % 0` panics in Go (Lean: `x % 0 = x`),
so everything is stated for `mod ≥ 1` (`goring.New(n)`, `n ≥ 1`); a negative
`PopMany` count panics in Go (`make` with negative length) — counts are `Nat`.
Out-of-range slice accesses would panic in Go; here `get` returns `none` and
`List.set` is a no-op, so the refinement theorems (which say the pushed value
is stored and the popped value is the oldest one) rule them out.

Core Lean only (linked into `modeld_c09`).
-/
namespace Cell2v.Ring

/-- `buffer[i]` -/
def get (b : List (Option Nat)) (i : Nat) : Option Nat := (b[i]?).getD none

structure Ring where
  buf : List (Option Nat)   -- content.buffer
  head : Nat                -- content.head
  tail : Nat                -- content.tail
  mod : Nat                 -- content.mod
  len : Nat                 -- q.len
  deriving Repr, DecidableEq

/-- `goring.New(initialSize)` -/
def new (n : Nat) : Ring := { buf := List.replicate n none, head := 0, tail := 0, mod := n, len := 0 }

/-- the resize loop: `for i := 0; i < mod; i++ { newBuff[i] = buffer[(tail+i) % mod] }` -/
def copyLoop (buf : List (Option Nat)) (tail mod : Nat) (newBuff : List (Option Nat)) : List (Option Nat) :=
  (List.range mod).foldl (fun nb i => nb.set i (get buf ((tail + i) % mod))) newBuff

/-- `Push(item)` -/
def push (q : Ring) (x : Nat) : Ring :=
  let tail := (q.tail + 1) % q.mod                         -- c.tail = (c.tail + 1) % c.mod
  if tail = q.head then                                    -- if c.tail == c.head {
    let newLen := q.mod * 2                                --   newLen := c.mod * fillFactor
    let newBuff := List.replicate newLen none              --   newBuff := make([]interface{}, newLen)
    let newBuff := copyLoop q.buf tail q.mod newBuff       --   for i ... newBuff[i] = c.buffer[(c.tail+i) % c.mod]
    -- newContent{buffer: newBuff, head: 0, tail: c.mod, mod: newLen}; len++; buffer[tail] = item
    { buf := newBuff.set q.mod (some x), head := 0, tail := q.mod, mod := newLen, len := q.len + 1 }
  else
    -- len++; buffer[tail] = item
    { q with tail := tail, buf := q.buf.set tail (some x), len := q.len + 1 }

/-- `Pop()`: `none` = `(nil, false)`; `some v` = `(v, true)` where `v` is the slot content -/
def pop (q : Ring) : Option (Option Nat) × Ring :=
  if q.len = 0 then (none, q)                              -- if q.Empty() { return nil, false }
  else
    let head := (q.head + 1) % q.mod                       -- c.head = (c.head + 1) % c.mod
    let res := get q.buf head                              -- res := c.buffer[c.head]
    (some res, { q with head := head, buf := q.buf.set head none, len := q.len - 1 })

/-- the `PopMany` loop: `pos := (head+1+i) % mod; buffer[i] = c.buffer[pos]; c.buffer[pos] = nil` -/
def popLoop (head mod count : Nat) (buf : List (Option Nat)) : List (Option Nat) × List (Option Nat) :=
  (List.range count).foldl
    (fun (st : List (Option Nat) × List (Option Nat)) i =>
      let pos := (head + 1 + i) % mod
      (st.1 ++ [get st.2 pos], st.2.set pos none))
    ([], buf)

/-- `PopMany(count)` -/
def popMany (q : Ring) (count : Nat) : Option (List (Option Nat)) × Ring :=
  if q.len = 0 then (none, q)                              -- if q.Empty() { return nil, false }
  else
    let count := if count ≥ q.len then q.len else count    -- if count >= q.len { count = q.len }
    let r := popLoop q.head q.mod count q.buf
    (some r.1, { q with len := q.len - count, buf := r.2, head := (q.head + count) % q.mod })

/-- position of the `i`-th oldest element -/
def idx (q : Ring) (i : Nat) : Nat := (q.head + 1 + i) % q.mod

/-- content of the slot of the `i`-th oldest element -/
def slot (q : Ring) (i : Nat) : Option Nat := get q.buf (idx q i)

/-- the queued elements, oldest first -/
def abs (q : Ring) : List Nat := (List.range q.len).map fun i => (slot q i).getD 0

/-- well-formedness: the live window `head+1 .. head+len` (mod `mod`) holds values,
every other slot is `nil` (popped items are not retained), `tail` is the last live
position, and there is always at least one free slot (`len ≤ mod - 1`). -/
def WF (q : Ring) : Prop :=
  1 ≤ q.mod ∧ q.buf.length = q.mod ∧ q.head < q.mod ∧ q.len < q.mod ∧
  q.tail = (q.head + q.len) % q.mod ∧
  ∀ i, i < q.mod → ((slot q i).isSome = true ↔ i < q.len)

/-! ### operation sequences -/

inductive Op
  | push (x : Nat)
  | pop
  | popMany (k : Nat)
  | length
  deriving Repr, DecidableEq

inductive Obs
  | done
  | popped (r : Option (Option Nat))
  | many (r : Option (List (Option Nat)))
  | len (n : Nat)
  deriving Repr, DecidableEq

def step (q : Ring) : Op → Ring × Obs
  | .push x => (push q x, .done)
  | .pop => let r := pop q; (r.2, .popped r.1)
  | .popMany k => let r := popMany q k; (r.2, .many r.1)
  | .length => (q, .len q.len)

/-- the specification: a plain list used as a FIFO -/
def specStep (l : List Nat) : Op → List Nat × Obs
  | .push x => (l ++ [x], .done)
  | .pop => match l with
    | [] => ([], .popped none)
    | x :: r => (r, .popped (some (some x)))
  | .popMany k => match l with
    | [] => ([], .many none)
    | _ :: _ => (l.drop k, .many (some ((l.take k).map some)))
  | .length => (l, .len l.length)

/-- run a sequence, collecting the observations -/
def run {σ : Type} (f : σ → Op → σ × Obs) (s : σ) (ops : List Op) : σ × List Obs :=
  ops.foldl (fun (st : σ × List Obs) op => let r := f st.1 op; (r.1, st.2 ++ [r.2])) (s, [])

end Cell2v.Ring

/-! ## mpsc as a sequential structure -/
namespace Cell2v.Mpsc

structure Node where
  next : Option Nat := none   -- address of the next node
  val : Option Nat := none
  deriving Repr, DecidableEq

structure Q where
  heap : List Node   -- every node ever allocated, address = index
  head : Nat         -- q.head (last pushed node)
  tail : Nat         -- q.tail (the consumed stub)
  deriving Repr, DecidableEq

def node (h : List Node) (a : Nat) : Node := (h[a]?).getD ⟨none, none⟩

/-- `n.next = a` -/
def Node.withNext (n : Node) (a : Nat) : Node := ⟨some a, n.val⟩
/-- `n.val = nil` -/
def Node.clearVal (n : Node) : Node := ⟨n.next, none⟩

/-- `New()`: one stub node, head = tail = stub -/
def new : Q := { heap := [⟨none, none⟩], head := 0, tail := 0 }

/-- `Push(x)`: `n := new(node); n.val = x; prev := swap(&q.head, n); prev.next = n` -/
def push (q : Q) (x : Nat) : Q :=
  let n := q.heap.length
  let heap := q.heap ++ [⟨none, some x⟩]
  let prev := q.head
  { q with heap := heap.set prev ((node heap prev).withNext n), head := n }

/-- `Pop()`: `next := tail.next; if next != nil { q.tail = next; v := next.val; next.val = nil; return v }; return nil` -/
def pop (q : Q) : Option Nat × Q :=
  match (node q.heap q.tail).next with
  | some nx =>
    let v := (node q.heap nx).val
    (v, { q with tail := nx, heap := q.heap.set nx (node q.heap nx).clearVal })
  | none => (none, q)

/-- `Empty()` -/
def empty (q : Q) : Bool := (node q.heap q.tail).next.isNone

/-- queued values, oldest first: the nodes after the stub (sequential allocation
makes the chain `tail+1, …, head`) -/
def abs (q : Q) : List Nat := (List.range (q.head - q.tail)).map fun i => ((node q.heap (q.tail + 1 + i)).val).getD 0

def WF (q : Q) : Prop :=
  q.heap.length = q.head + 1 ∧ q.tail ≤ q.head ∧
  (∀ a, a < q.head → (node q.heap a).next = some (a + 1)) ∧
  (node q.heap q.head).next = none ∧
  ∀ a, q.tail < a → a ≤ q.head → ((node q.heap a).val).isSome = true

end Cell2v.Mpsc
