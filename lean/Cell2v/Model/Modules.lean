/-
C11 — model of the module list and of the application start/stop guard
  baseapp/module/modulelist.go   (ModList.Filter / doNow / next / finish)
  baseapp/app.go                 (App.Start / App.Stop state guard)
and the tiny statement language into which the translator
`harness/extract/c11` turns the bodies of the shipped modules' Start/Stop
(`Gen/C11Modules.lean`).

`Filter` creates two closures over one captured `index`; `next` is handed to
every module.  `next(false)` calls `finish(false)` and returns; `next(true)`
moves the index and calls `doNow`, whose last action is `doFunc(mods[index], next)`
or `finish(true)`.  Nothing follows these calls inside `next`/`doNow`, so — as long as
`finish` returns normally and does not re-enter the list (a panicking `finish` unwinds
into the innermost `doFunc` recover of a synchronous chain but kills the goroutine of a
delayed completion; a re-entering one blocks on Filter's lock in a synchronous chain) — a
nested (synchronous) completion and a completion that arrives later from another
goroutine have the same effect: the observable log is a function of the
*chronological sequence of `next` calls*.  The model is therefore a state
machine driven by completion events `(w, b)` = "module `w` invoked `next(b)`"
(`w` is a ghost tag: `next` cannot know its caller).

A `finish` that panics is modelled further down (`Chain`: the stack of nested Start/Stop calls of one goroutine,
each under its `doFunc`'s deferred recover) and proved to change nothing but that stack.

Modelled, not verified: calls of `next` are serialised (two goroutines calling
`next` at the same instant race on `index` in Go; under the discipline "one
completion per started module" only one module is outstanding, so this cannot
happen); the module list does not change during a phase (but see `grun`); `finish`
does not re-enter the list from inside a synchronous chain.
-/
namespace Cell2v.Modules

/-- observable events of one `Filter` invocation (one phase) -/
inductive Ev
  | enter (i : Nat)            -- doFunc(mods[i], next): Start/Stop of module i is entered
  | call (w : Nat) (b : Bool)  -- module w invokes next(b)
  | finish (b : Bool)          -- finish(b)
  | oob                        -- mods[index] out of range = Go panic (proved unreachable)
  deriving DecidableEq, Repr

/-- closure state of one `Filter` invocation -/
structure ML where
  n : Nat      -- len(m.mods)
  fwd : Bool   -- startOrder
  idx : Int    -- the captured `index`
  deriving DecidableEq, Repr

/-- `doNow()` -/
def ML.doNow (s : ML) : List Ev :=
  if s.fwd then
    if s.idx ≥ s.n then [.finish true]
    else if 0 ≤ s.idx then [.enter s.idx.toNat] else [.oob]
  else
    if s.idx < 0 then [.finish true]
    else if s.idx < s.n then [.enter s.idx.toNat] else [.oob]

/-- `next(succ)` -/
def ML.next (s : ML) (b : Bool) : ML × List Ev :=
  if !b then (s, [.finish false])
  else
    let s' := { s with idx := if s.fwd then s.idx + 1 else s.idx - 1 }
    (s', s'.doNow)

/-- `Filter(startOrder, doFunc, finish)` up to and including its final `doNow()` -/
def filter (n : Nat) (fwd : Bool) : ML × List Ev :=
  let s : ML := ⟨n, fwd, if fwd then 0 else (n : Int) - 1⟩
  if n = 0 then (s, [.finish true]) else (s, s.doNow)

/-- feed a chronological sequence of completion events -/
def runFrom (s : ML) (tr : List Ev) : List (Nat × Bool) → ML × List Ev
  | [] => (s, tr)
  | (w, b) :: cs => runFrom (s.next b).1 (tr ++ .call w b :: (s.next b).2) cs

/-- the whole observable log of one phase -/
def run (n : Nat) (fwd : Bool) (cs : List (Nat × Bool)) : List Ev :=
  (runFrom (filter n fwd).1 (filter n fwd).2 cs).2

/-! ### ModList.Start / ModList.Stop: the closure handed to `Filter` as `doFunc`

`ModList.Start/Stop` do not hand `next` to the module: `doFunc` wraps it.  Per entered module it
keeps two flags, `reported` and `failedByPanic`; a deferred `recover()` handler turns a panic of
the module's Start/Stop *before the module reported anything* into `next(false)` (once: it sets
`failedByPanic`), a report that arrives after that is dropped, and a panic *after* a report is only
logged (D21, /repo b70026f; before that fix a recovered panic called nothing and the module got the
bare `next`: `wcallsOld`).  A module is entered at most once per phase (`order_unconditional`), so
the flags are kept per module index. -/

/-- what a module does, as seen by `doFunc` -/
inductive MAct
  | report (w : Nat) (b : Bool)   -- module w invokes the callback it was handed, with `b`
  | panic (w : Nat)               -- module w's Start/Stop panics (recovered by doFunc's deferred handler)
  deriving DecidableEq, Repr

def MAct.who : MAct → Nat
  | .report w _ => w
  | .panic w => w

/-- the flags of the `doFunc` invocations of one phase -/
structure Wrap where
  reported : List Nat := []   -- modules whose `reported` is true
  dead : List Nat := []       -- modules whose `failedByPanic` is true
  deriving DecidableEq, Repr

/-- one module action: the new flags and the `next` call the wrapper makes, if any -/
def Wrap.step (ws : Wrap) : MAct → Wrap × Option (Nat × Bool)
  | .report w b =>
    if ws.dead.contains w then (ws, none)                           -- if failedByPanic { return }
    else ({ ws with reported := w :: ws.reported }, some (w, b))    -- reported = true; next(succ)
  | .panic w =>
    if ws.reported.contains w then (ws, none)                       -- recovered, logged
    else ({ ws with dead := w :: ws.dead }, some (w, false))        -- if !reported { failedByPanic = true; next(false) }

/-- the flags after a chronological sequence of module actions -/
def wstate (ws : Wrap) : List MAct → Wrap
  | [] => ws
  | a :: as => wstate (ws.step a).1 as

/-- the `next` calls the wrappers make for a chronological sequence of module actions -/
def wcallsFrom (ws : Wrap) : List MAct → List (Nat × Bool)
  | [] => []
  | a :: as => (ws.step a).2.toList ++ wcallsFrom (ws.step a).1 as

def wcalls (acts : List MAct) : List (Nat × Bool) := wcallsFrom {} acts

/-- the observable log of one `ModList.Start` (`fwd`) / `ModList.Stop` phase driven by module actions -/
def wrun (n : Nat) (fwd : Bool) (acts : List MAct) : List Ev := run n fwd (wcalls acts)

/-- before the D21 fix: the module holds the bare `next`; a recovered panic calls nothing -/
def wcallsOld : List MAct → List (Nat × Bool)
  | [] => []
  | .report w b :: as => (w, b) :: wcallsOld as
  | .panic _ :: as => wcallsOld as

def wrunOld (n : Nat) (fwd : Bool) (acts : List MAct) : List Ev := run n fwd (wcallsOld acts)

/-- the hypothesis on the modules at the level of what they do: every action is made by a module
that has been entered, a module reports at most once, and its Start/Stop panics at most once (a Go
function is unwound once). -/
def MDisciplined (n : Nat) (fwd : Bool) (acts : List MAct) : Prop :=
  ∀ p a q, acts = p ++ a :: q →
    Ev.enter a.who ∈ wrun n fwd p ∧
    (∀ w b, a = .report w b → ∀ b', MAct.report w b' ∉ p) ∧
    (∀ w, a = .panic w → MAct.panic w ∉ p)

/-- every entered module has reported or has panicked -/
def MComplete (n : Nat) (fwd : Bool) (acts : List MAct) : Prop :=
  ∀ m, Ev.enter m ∈ wrun n fwd acts → (∃ b, MAct.report m b ∈ acts) ∨ MAct.panic m ∈ acts

def MAct.isReportOf (w : Nat) : MAct → Bool
  | .report w' _ => w' == w
  | .panic _ => false

def MAct.isPanicOf (w : Nat) : MAct → Bool
  | .panic w' => w' == w
  | .report _ _ => false

/-- the actions of module `w` executing a Start/Stop body: the reports `bs` its path makes, possibly cut
short by a panic (of any of its statements) after `k` of them -/
def bodyActs (w : Nat) (bs : List Bool) : Option Nat → List MAct
  | none => bs.map (.report w)
  | some k => (bs.take k).map (.report w) ++ [.panic w]

/-! ### a module list that grows while a phase runs

`doNow` reads `len(m.mods)` live, and `AddModule` may be called while a phase is waiting for a
delayed completion (never inside `Filter` itself: it takes the same lock).  In the model that is
a third kind of command between completion events. -/

inductive Cmd
  | call (w : Nat) (b : Bool)   -- module w invokes next(b)
  | add                         -- AddModule(..) by anybody
  deriving DecidableEq, Repr

/-- `AddModule` as seen by a live `Filter` closure: `len(m.mods)` is one larger -/
def ML.grow (s : ML) : ML := { s with n := s.n + 1 }

def grunFrom (s : ML) (tr : List Ev) : List Cmd → ML × List Ev
  | [] => (s, tr)
  | .call w b :: cs => grunFrom (s.next b).1 (tr ++ .call w b :: (s.next b).2) cs
  | .add :: cs => grunFrom s.grow tr cs

/-- closure state and log of one phase with interleaved `AddModule` calls -/
def grun (n : Nat) (fwd : Bool) (cmds : List Cmd) : ML × List Ev :=
  grunFrom (filter n fwd).1 (filter n fwd).2 cmds

def cmdCalls : List Cmd → List (Nat × Bool)
  | [] => []
  | .call w b :: r => (w, b) :: cmdCalls r
  | .add :: r => cmdCalls r

/-- visiting order: registration order for start, its reverse for stop -/
def ord (n : Nat) (fwd : Bool) : List Nat :=
  if fwd then List.range n else (List.range n).reverse

/-! ### projections of a log -/

def enters : List Ev → List Nat
  | [] => []
  | .enter i :: r => i :: enters r
  | _ :: r => enters r

def calls : List Ev → List (Nat × Bool)
  | [] => []
  | .call w b :: r => (w, b) :: calls r
  | _ :: r => calls r

def finishes : List Ev → List Bool
  | [] => []
  | .finish b :: r => b :: finishes r
  | _ :: r => finishes r

/-! ### the hypothesis on the modules, as a predicate on the log alone -/

/-- every `next` call is made by a module that has been entered before and has
not called `next` before: "each started module completes at most once". -/
def Disciplined (tr : List Ev) : Prop :=
  ∀ p w b q, tr = p ++ Ev.call w b :: q → Ev.enter w ∈ p ∧ ∀ b', Ev.call w b' ∉ p

/-- every entered module has called `next`: together with `Disciplined`,
"each started module completes exactly once". -/
def Complete (tr : List Ev) : Prop :=
  ∀ m, Ev.enter m ∈ tr → ∃ b, Ev.call m b ∈ tr

/-- executable form of `Disciplined` (equivalence: `Lemmas.disciplinedB_iff`) -/
def legalB (seen : List Ev) (w : Nat) : Bool :=
  seen.contains (.enter w) && !seen.contains (.call w true) && !seen.contains (.call w false)

def disciplinedFrom (seen : List Ev) : List Ev → Bool
  | [] => true
  | .call w b :: r => legalB seen w && disciplinedFrom (seen ++ [.call w b]) r
  | e :: r => disciplinedFrom (seen ++ [e]) r

def disciplinedB (tr : List Ev) : Bool := disciplinedFrom [] tr

/-- executable form of `Complete` -/
def completeB (tr : List Ev) : Bool :=
  (enters tr).all fun m => (calls tr).any fun c => c.1 == m

/-! ### the property predicate on a log (also run on the implementation's logs)

`canonB order tr`: `tr` is a (possibly unfinished) *canonical* phase log over the
visiting order: modules entered one at a time in that order, each directly after
its predecessor's `next(true)`; a `next(false)` is followed by `finish(false)` and
nothing else; after the last success exactly `finish(true)`. -/
def canonB : List Nat → List Ev → Bool
  | [], tr => tr == [.finish true]
  | m :: _, [.enter m'] => m == m'
  | m :: rest, .enter m' :: .call w b :: tl =>
      m == m' && w == m && (if b then canonB rest tl else tl == [.finish false])
  | _ :: _, _ => false

/-- what holds for *any* behaviour of the modules: entered modules form a
subsequence of the visiting order (never out of order, never twice) -/
def sublistB : List Nat → List Nat → Bool
  | _, [] => true
  | [], _ :: _ => false
  | o :: os, x :: xs => if o == x then sublistB os xs else sublistB os (x :: xs)

/-! ### one goroutine's synchronous chain: nested Start/Stop calls, and a completion callback that panics

A module that reports inside its Start/Stop runs the rest of the phase *inside that call*:
`report → next → doNow → doFunc(successor) → successor.Start → report → …`, and at the very end `finish`.
Every `doFunc` on that Go stack has its own deferred `recover()`.  `Chain` keeps that stack: the modules whose
Start/Stop is active on the running goroutine, innermost first.  What the action-level model above treats
as one atomic step is here a call that may be cut short: when `finish` (user code: the App's / StartNode's
completion closure, `fin`) panics, the panic unwinds into the innermost active `doFunc` — the wrapper there
sees a panic of *its* module (`MAct.panic`) and decides by its two flags, exactly as for the module's own
panic; if its own `next(false)` → `finish(false)` panics again the unwinding goes on into the enclosing
`doFunc`; with no module underneath (a delayed report on a goroutine of its own, `Filter`'s own `finish(true)`
on an empty list) the panic reaches the caller of `next` / `Start` / `Stop` (`escaped`).  `fp` = "finish panics". -/

structure Chain where
  ml : ML
  ws : Wrap
  stack : List Nat     -- modules whose Start/Stop is active on the running goroutine, innermost first
  log : List Ev
  acts : List MAct     -- ghost: what the wrappers have seen so far (reports; panics reaching a doFunc's recover)
  escaped : Bool       -- a panic has left the outermost doFunc: it reaches the caller of next / Start / Stop
  deriving DecidableEq, Repr

/-- the wrapper of a module sees action `a`; the `next` call it makes (if any) runs up to `doFunc` of the
successor (which becomes the innermost active call) or up to `finish`.  Returns whether `finish` was invoked. -/
def Chain.act (c : Chain) (a : MAct) : Chain × Bool :=
  match (c.ws.step a).2 with
  | none => ({ c with ws := (c.ws.step a).1, acts := c.acts ++ [a] }, false)
  | some (w, b) =>
    ({ c with ws := (c.ws.step a).1, acts := c.acts ++ [a], ml := (c.ml.next b).1,
              log := c.log ++ .call w b :: (c.ml.next b).2, stack := enters (c.ml.next b).2 ++ c.stack },
     !(finishes (c.ml.next b).2).isEmpty)

/-- a panic unwinds the active Start/Stop calls `st` (innermost first): the deferred handler of each `doFunc`
recovers it; it travels on only when that handler's own `next(false)` → `finish(false)` panics as well -/
def Chain.unwind (fp : Bool) (c : Chain) : List Nat → Chain
  | [] => { c with stack := [], escaped := true }
  | w :: rest =>
    if fp && (({ c with stack := rest } : Chain).act (.panic w)).2 then
      Chain.unwind fp (({ c with stack := rest } : Chain).act (.panic w)).1 rest
    else (({ c with stack := rest } : Chain).act (.panic w)).1

/-- what the running goroutine does next -/
inductive COp
  | report (b : Bool)          -- the innermost active module invokes the callback it was handed
  | panic                      -- the innermost active module's Start/Stop panics
  | ret                        -- ... returns (having reported or not)
  | late (w : Nat) (b : Bool)  -- nothing is active: module `w` reports from a goroutine of its own (delayed completion)
  deriving DecidableEq, Repr

/-- module `w` invokes its callback; if that ends the phase and `finish` panics, the panic unwinds from there -/
def Chain.reportBy (fp : Bool) (c : Chain) (w : Nat) (b : Bool) : Chain :=
  if fp && (c.act (.report w b)).2 then Chain.unwind fp (c.act (.report w b)).1 (c.act (.report w b)).1.stack
  else (c.act (.report w b)).1

/-- NOT what the code does — the wrapper's closure with its two statements swapped (`next(succ)` first,
`reported = true` afterwards, i.e. only when `next` returned normally), for the last module of a phase: kept for
the witness `reported_flag_order_witness` (why the flag must be set before `next` runs) -/
def Chain.reportBySwapped (fp : Bool) (c : Chain) (w : Nat) (b : Bool) : Chain :=
  if c.ws.dead.contains w then c
  else if fp && !(finishes (c.ml.next b).2).isEmpty then
    Chain.unwind fp { c with ml := (c.ml.next b).1, log := c.log ++ .call w b :: (c.ml.next b).2, acts := c.acts ++ [.report w b] } c.stack
  else { c with ml := (c.ml.next b).1, log := c.log ++ .call w b :: (c.ml.next b).2, acts := c.acts ++ [.report w b],
                stack := enters (c.ml.next b).2 ++ c.stack, ws := { c.ws with reported := w :: c.ws.reported } }

def Chain.step (fp : Bool) (c : Chain) : COp → Chain
  | .report b =>
    match c.stack with
    | [] => c
    | w :: _ => c.reportBy fp w b
  | .panic => if c.stack.isEmpty then c else Chain.unwind fp c c.stack
  | .ret => { c with stack := c.stack.tail }
  | .late w b => if c.stack.isEmpty then c.reportBy fp w b else c    -- (while a chain is running: concurrent, not modelled)

/-- `ModList.Start` / `Stop` up to the first module's Start/Stop (or `finish(true)` on an empty list) -/
def Chain.init (fp : Bool) (n : Nat) (fwd : Bool) : Chain :=
  ⟨(filter n fwd).1, {}, enters (filter n fwd).2, (filter n fwd).2, [], fp && !(finishes (filter n fwd).2).isEmpty⟩

def Chain.runFrom (fp : Bool) (c : Chain) : List COp → Chain
  | [] => c
  | op :: ops => Chain.runFrom fp (c.step fp op) ops

def Chain.run (fp : Bool) (n : Nat) (fwd : Bool) (ops : List COp) : Chain := Chain.runFrom fp (Chain.init fp n fwd) ops

/-! ### baseapp.App: the state guard around the two phases -/

inductive AState | s0 | prepared | starting | normal | stoping | stopped
  deriving DecidableEq, Repr

/-- App-level log: phase begin markers and the phase events (`true` = start phase) -/
inductive AEv
  | begin (start : Bool)
  | ev (start : Bool) (e : Ev)
  deriving DecidableEq, Repr

structure App where
  st : AState
  n : Nat
  startML : Option ML     -- closures of the start phase's Filter, once begun
  stopML : Option ML
  deriving DecidableEq, Repr

inductive AOp
  | start                               -- App.Start(finish)
  | stop                                -- App.Stop(finish)
  | call (start : Bool) (w : Nat) (b : Bool)   -- a module invokes the phase's `next`
  deriving DecidableEq, Repr

/-- `App.AddModule` later on: the list is one longer for every live closure -/
def App.addModule (a : App) : App :=
  { a with n := a.n + 1, startML := a.startML.map ML.grow, stopML := a.stopML.map ML.grow }

/-- App after `Prepare()` and `n` × `AddModule` -/
def App.init (n : Nat) : App := ⟨.prepared, n, none, none⟩

/-- the wrapper that App.Start / App.Stop pass as `finish`: `if succ { setState(..) }` -/
def App.onEvents (a : App) (start : Bool) : List Ev → App
  | [] => a
  | .finish true :: r => App.onEvents { a with st := if start then .normal else .stopped } start r
  | _ :: r => App.onEvents a start r

def App.step (a : App) : AOp → App × List AEv
  | .start =>
    if a.st ≠ .prepared then (a, [])
    else
      let f := filter a.n true
      (App.onEvents { a with st := .starting, startML := some f.1 } true f.2, .begin true :: f.2.map (.ev true))
  | .stop =>
    if a.st ≠ .normal then (a, [])
    else
      let f := filter a.n false
      (App.onEvents { a with st := .stoping, stopML := some f.1 } false f.2, .begin false :: f.2.map (.ev false))
  | .call start w b =>
    match (if start then a.startML else a.stopML) with
    | none => (a, [])
    | some ml =>
      let r := ml.next b
      let a' := if start then { a with startML := some r.1 } else { a with stopML := some r.1 }
      (App.onEvents a' start r.2, (.ev start (.call w b)) :: r.2.map (.ev start))

def App.runFrom (a : App) (tr : List AEv) : List AOp → App × List AEv
  | [] => (a, tr)
  | op :: ops => App.runFrom (a.step op).1 (tr ++ (a.step op).2) ops

def App.run (n : Nat) (ops : List AOp) : App × List AEv := App.runFrom (App.init n) [] ops

/-- the events of one phase kind in an App-level log -/
def phaseEvs (start : Bool) : List AEv → List Ev
  | [] => []
  | .ev ph e :: r => if ph = start then e :: phaseEvs start r else phaseEvs start r
  | .begin _ :: r => phaseEvs start r

/-- the completion events of one phase kind among the operations -/
def opCalls (start : Bool) : List AOp → List (Nat × Bool)
  | [] => []
  | .call ph w b :: r => if ph = start then (w, b) :: opCalls start r else opCalls start r
  | _ :: r => opCalls start r

/-- number of times a phase of the given kind was begun -/
def begins (start : Bool) (tr : List AEv) : Nat := (tr.filter (· == .begin start)).length

/-! ### node/app.App: StartNode / StopNode around baseapp.LaunchApp

`StartNode(id, fin)`: no nodes table or unknown node id → return (nothing happens, `fin` is never
invoked); `LaunchApp`: the node's StartMode names a registered launch mode, or falls back to the
default one; no mode at all → return false (ignored by StartNode: nothing happens, `fin` never
invoked); else `mode.PrepareModules(app)` — *before* `App.Start`'s guard — and `App.Start` with the
closure `func(succ){ StartServices(); StartNodeCtrl(); fin(succ) }` as its `finish`.
`StopNode(fin)`: `App.Stop(func(succ){ if fin != nil { fin(succ) } })`. -/

/-- what StartNode finds -/
structure NodeEnv where
  nodesLoaded : Bool := true      -- a.nodes != nil (Prepare was called)
  modeNamed : Bool := true        -- nodeInfo.StartMode != ""
  modeRegistered : Bool := true   -- LaunchFactory.GetMode(StartMode) != nil
  hasDefault : Bool := true       -- SetDefaultLaunchFunc was called
  svc : List Bool := []           -- the node's services; true = has an entry under `services:`
  deriving DecidableEq, Repr

/-- `LaunchApp`: is there a launch mode to use? -/
def NodeEnv.resolves (e : NodeEnv) : Bool :=
  if e.modeNamed then e.modeRegistered || e.hasDefault else e.hasDefault

inductive NEv
  | prepare                 -- mode.PrepareModules(app)
  | app (e : AEv)           -- what the embedded baseapp.App does
  | service (i : Nat)       -- StartServices: service.Factory.Create for the node's i-th service
  | nodeCtrl                -- StartNodeCtrl
  | fin (b : Bool)          -- the caller's start-completion callback
  | finX (b : Bool)         -- the caller's stop-completion callback
  deriving DecidableEq, Repr

/-- `StartServices`: every listed service that has a configuration entry, in order; the others are skipped -/
def startedServices (svc : List Bool) : List NEv :=
  ((List.range svc.length).filter fun i => svc.getD i false).map .service

/-- the closures StartNode / StopNode hand down as `finish`, applied to what the App does -/
def nodeLog (svc : List Bool) : List AEv → List NEv
  | [] => []
  | .ev true (.finish b) :: r => .app (.ev true (.finish b)) :: (startedServices svc ++ .nodeCtrl :: .fin b :: nodeLog svc r)
  | .ev false (.finish b) :: r => .app (.ev false (.finish b)) :: .finX b :: nodeLog svc r
  | e :: r => .app e :: nodeLog svc r

structure Node where
  env : NodeEnv
  app : App
  deriving DecidableEq, Repr

inductive NOp
  | startNode (known : Bool) (adds : Nat)      -- StartNode(id, fin); known: nodes.Nodes[id] != nil; adds: the number of
                                               --   modules the launch mode's PrepareModules (user code) registers this time
  | stopNode                                   -- StopNode(fin)
  | call (start : Bool) (w : Nat) (b : Bool)   -- the wrapper of module w invokes the phase's `next`
  deriving DecidableEq, Repr

def addModules : Nat → App → App
  | 0, a => a
  | k + 1, a => addModules k a.addModule

def Node.step (s : Node) : NOp → Node × List NEv
  | .startNode known adds =>
    if !s.env.nodesLoaded || !known || !s.env.resolves then (s, [])
    else
      let r := (addModules adds s.app).step .start
      ({ s with app := r.1 }, .prepare :: nodeLog s.env.svc r.2)
  | .stopNode =>
    let r := s.app.step .stop
    ({ s with app := r.1 }, nodeLog s.env.svc r.2)
  | .call ph w b =>
    let r := s.app.step (.call ph w b)
    ({ s with app := r.1 }, nodeLog s.env.svc r.2)

def Node.runFrom (s : Node) (tr : List NEv) : List NOp → Node × List NEv
  | [] => (s, tr)
  | op :: ops => Node.runFrom (s.step op).1 (tr ++ (s.step op).2) ops

/-- a node after `NewNode()` + `Prepare(cfgDir)`: no modules yet (the launch mode adds them) -/
def Node.init (e : NodeEnv) : Node := ⟨e, App.init 0⟩

def Node.run (e : NodeEnv) (ops : List NOp) : Node × List NEv := Node.runFrom (Node.init e) [] ops

/-- projections of a node-level log -/
def appEvs : List NEv → List AEv
  | [] => []
  | .app e :: r => e :: appEvs r
  | _ :: r => appEvs r

def fins : List NEv → List Bool
  | [] => []
  | .fin b :: r => b :: fins r
  | _ :: r => fins r

def finXs : List NEv → List Bool
  | [] => []
  | .finX b :: r => b :: finXs r
  | _ :: r => finXs r

/-- The caller's completion callbacks are optional: `App.Start` / `App.Stop` (and `StopNode`) invoke them under
`if finish != nil`, *after* the state has been set, so an absent callback takes nothing else away.  `hasS` / `hasX`:
a start- / stop-completion callback was supplied. -/
def dropAbsent (hasS hasX : Bool) : List NEv → List NEv
  | [] => []
  | .fin b :: r => if hasS then .fin b :: dropAbsent hasS hasX r else dropAbsent hasS hasX r
  | .finX b :: r => if hasX then .finX b :: dropAbsent hasS hasX r else dropAbsent hasS hasX r
  | e :: r => e :: dropAbsent hasS hasX r

/-- a plain `baseapp.App` in the node's vocabulary: the caller's callback is invoked by the closure that App.Start /
App.Stop hand to the ModList as `finish`, after `setState` -/
def plainLog : List AEv → List NEv
  | [] => []
  | .ev ph (.finish b) :: r => .app (.ev ph (.finish b)) :: (if ph then NEv.fin b else NEv.finX b) :: plainLog r
  | e :: r => .app e :: plainLog r

/-- the App-level operation a node-level operation comes down to (once StartNode is accepted) -/
def NOp.toAOp : NOp → AOp
  | .startNode _ _ => .start
  | .stopNode => .stop
  | .call ph w b => .call ph w b

/-! ### statement language for the bodies of the shipped modules' Start / Stop

Produced by the translator; conditions are opaque and numbered, every `if`
gets a fresh number (so all combinations of branches are considered). -/
inductive Stmt
  | skip                               -- statement that neither mentions `next` nor leaves the function
  | callNext (b : Option Bool)         -- next(true) / next(false) / next(<expr>)
  | ret                                -- return (or panic(..): the path ends)
  | seq (a b : Stmt)
  | ite (c : Nat) (t e : Stmt)
  | closure (body : Stmt)              -- go func(){..}() / defer func(){..}() / func(){..}(): runs once, own `return` scope
  | bad (why : String)                 -- construct the translator does not understand and that involves `next`
  deriving Repr

structure Res where
  count : Nat        -- number of `next` calls on the path
  returned : Bool
  deriving DecidableEq, Repr

/-- execution of a body under an assignment of the opaque conditions -/
def Stmt.exec (σ : Nat → Bool) : Stmt → Res
  | .skip => ⟨0, false⟩
  | .callNext _ => ⟨1, false⟩
  | .ret => ⟨0, true⟩
  | .seq a b =>
    let ra := a.exec σ
    if ra.returned then ra else ⟨ra.count + (b.exec σ).count, (b.exec σ).returned⟩
  | .ite c t e => if σ c then t.exec σ else e.exec σ
  | .closure body => ⟨(body.exec σ).count, false⟩
  | .bad _ => ⟨0, false⟩

/-- no construct that the translator could not interpret -/
def Stmt.clean : Stmt → Bool
  | .bad _ => false
  | .seq a b => a.clean && b.clean
  | .ite _ t e => t.clean && e.clean
  | .closure b => b.clean
  | _ => true

/-- all paths (one per combination of branches) -/
def Stmt.paths : Stmt → List Res
  | .skip => [⟨0, false⟩]
  | .callNext _ => [⟨1, false⟩]
  | .ret => [⟨0, true⟩]
  | .seq a b =>
    a.paths.flatMap fun ra =>
      if ra.returned then [ra] else b.paths.map fun rb => ⟨ra.count + rb.count, rb.returned⟩
  | .ite _ t e => t.paths ++ e.paths
  | .closure body => body.paths.map fun r => ⟨r.count, false⟩
  | .bad _ => [⟨0, false⟩]

/-- the decidable check run on every generated body -/
def Stmt.onceB (s : Stmt) : Bool := s.clean && s.paths.all fun r => r.count == 1

structure ShippedBody where
  name : String      -- e.g. "clustermodule.ClusterModule.Start"
  body : Stmt
  deriving Repr

end Cell2v.Modules
