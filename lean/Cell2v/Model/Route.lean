/-
C07 — model of cell2's routing path
  node/route/route.go            (RouteService.Route / doRoute, sentinel strings)
  node/app/clusterservices.go    (MakeMembers, addService, makePID, SplitServiceName)
  node/app/utils.go              (GetServicePID, RoutePID, defaultRoute, SplitClientRoute)
  node/app/serviceutils.go       (Request, Notify, QuerySession, Kick)

Own namespace, nothing shared with the C08 directory model.

What is mirrored, statement by statement where it matters:
* `MakeMembers`: the members map (`newMembers[one.Id] = one`, last entry of an id
  wins), the per-type lists and the working lists (`addService` appends a NEW
  item to each list, in member order then service order; malformed full names
  are skipped), `makePID` over the items of the per-type lists only (the items of
  the working lists keep a nil PID — that is what the code does), and the
  name ↦ item map filled by ranging over the per-type map: first item of a name
  wins *within* a type list; *across* types the winner depends on Go's map
  iteration order.  That order is a parameter (`servicesBy ordered`), and every
  theorem is stated for ANY name map satisfying `ServicesOk` (which every
  iteration order produces, `Lemmas.Route.servicesBy_ok`).
* `Route`: parameter kind dispatch; `doRoute`: registered function, else default
  function, else `miss_route_func`; a panicking route function is recovered and
  yields "" (unnamed result of a recovered function).
* `route.SetDefaultRoute(f)`: the package-level default function can be REPLACED by any route
  function (`Rules.custom`); `doRoute` calls it for every type without a registered function,
  under the same deferred `recover` (`Rules.lookup`).
* the caller's state (`Caller`): a refusal is completed by a DIRECT call of the callback
  (`CheckInvokeCBFunc`), so it reaches the callback whether or not the caller's scheduler still runs.
* `RoutePID`, `defaultRoute` (first item of the WORKING list, by name, then the
  name is looked up in the name map), `Request`/`Notify`/`QuerySession`/`Kick`.

Modelled, not verified: route functions are behaviours (constant name | value
of a key of the parameter, as every shipped route function | "" | panic);
`RequestEx`/`NotifyEx` are "one message handed to the actor context for that
PID" (delivery and completion of the pending callback are C01/C09's business).
-/
namespace Cell2v.Route

/-! ## strings -/

def badRouteParam : String := "bad_route_param"
def missRouteFunc : String := "miss_route_func"
def noService : String := "no_service"

/-- `define.Working` -/
def working : Nat := 1

/-- `strings.Split(s, ".")` on characters (written out so that it evaluates in the kernel) -/
def splitChars : List Char → List (List Char)
  | [] => [[]]
  | c :: cs =>
    match splitChars cs with
    | [] => [[]]
    | w :: ws => if c = '.' then [] :: w :: ws else (c :: w) :: ws

def splitDots (s : String) : List String := (splitChars s.toList).map String.ofList

/-- `SplitServiceName` -/
def splitServiceName (full : String) : String × String :=
  match splitDots full with
  | [a, b] => (a, b)
  | _ => ("", "")

/-- `SplitClientRoute` -/
def splitClientRoute (r : String) : String × String × String :=
  match splitDots r with
  | [a, b, c] => (a, b, c)
  | _ => ("", "", "")

/-! ## cluster view and directory -/

structure Member where
  id : String
  host : String
  port : Nat
  state : Nat
  services : List String
  deriving DecidableEq, Repr

/-- `ServiceItem`; `addr = none` is a nil PID, otherwise the PID is `(addr, name)` -/
structure Item where
  name : String
  node : String
  state : Nat
  addr : Option String
  deriving DecidableEq, Repr

/-- a Go `map[string]*ServiceList` as an association list (keys unique, `Lemmas.Route`) -/
abbrev TypeList := List (String × List Item)

abbrev Pid := String × String

/-- `entry.Items = append(entry.Items, item)`, creating the entry when missing -/
def alAppend : TypeList → String → Item → TypeList
  | [], t, it => [(t, [it])]
  | (k, l) :: rest, t, it => if k = t then (k, l ++ [it]) :: rest else (k, l) :: alAppend rest t it

/-- `addService` -/
def addService (center : TypeList) (nodeId : String) (state : Nat) (full : String) : TypeList :=
  let p := splitServiceName full
  if p.1 = "" ∨ p.2 = "" then center
  else alAppend center p.1 { name := p.2, node := nodeId, state := state, addr := none }

/-- the (member, full service name) pairs in the order of the two nested loops -/
def pairs (ms : List Member) : List (Member × String) :=
  ms.flatMap fun m => m.services.map fun s => (m, s)

def buildList (prs : List (Member × String)) : TypeList :=
  prs.foldl (fun c p => addService c p.1.id p.1.state p.2) []

/-- `newMembers[one.Id] = one` in list order: the last member carrying an id wins -/
def memberOf : List Member → String → Option Member
  | [], _ => none
  | m :: rest, id =>
    match memberOf rest id with
    | some x => some x
    | none => if m.id = id then some m else none

/-- `fmt.Sprintf("%v:%v", node.Host, node.Port)` -/
def addrOf (m : Member) : String := m.host ++ ":" ++ toString m.port

/-- `makePID` -/
def withPID (ms : List Member) (it : Item) : Item :=
  { it with addr := (memberOf ms it.node).map addrOf }

/-- `newTypeList` after the PID pass -/
def typeList (ms : List Member) : TypeList :=
  (buildList (pairs ms)).map fun e => (e.1, e.2.map (withPID ms))

/-- `newWorkingList`: separate items, never given a PID -/
def workList (ms : List Member) : TypeList :=
  buildList ((pairs ms).filter fun p => p.1.state = working)

/-- the first item of each per-type list that carries the name -/
def candidates (tl : TypeList) (n : String) : List Item :=
  tl.filterMap fun e => e.2.find? (fun it => it.name = n)

/-- the `newServices` loop for ONE iteration order of the per-type map -/
def insertItems (sv : List (String × Item)) (l : List Item) : List (String × Item) :=
  l.foldl (fun sv it => if (sv.lookup it.name).isSome then sv else sv ++ [(it.name, it)]) sv

def servicesBy (ordered : TypeList) : List (String × Item) :=
  ordered.foldl (fun sv e => insertItems sv e.2) []

/-- what every iteration order guarantees about the name map -/
def ServicesOk (tl : TypeList) (sv : List (String × Item)) : Prop :=
  ∀ n, match sv.lookup n with
       | some it => it ∈ candidates tl n
       | none => candidates tl n = []

/-- decidable check of `ServicesOk` on a given set of names (driver, accept mode) -/
def servicesOkOn (tl : TypeList) (sv : List (String × Item)) (names : List String) : Bool :=
  names.all fun n =>
    match sv.lookup n with
    | some it => (candidates tl n).contains it
    | none => (candidates tl n).isEmpty

structure Dir where
  ms : List Member
  services : List (String × Item)

def Dir.types (d : Dir) : TypeList := typeList d.ms
def Dir.work (d : Dir) : TypeList := workList d.ms
def Dir.Ok (d : Dir) : Prop := ServicesOk d.types d.services

/-- the directory for the iteration order "types in order of first appearance" -/
def mkDir (ms : List Member) : Dir := { ms := ms, services := servicesBy (typeList ms) }

def emptyDir : Dir := { ms := [], services := [] }

/-! ## route parameters and route functions -/

inductive Val
  | str (s : String)
  | null                -- the key is PRESENT and holds nil (JSON null): `Get` returns nil, not its default
  | other               -- present, some other non-string value (0, false, []string{} …)
  deriving DecidableEq, Repr

abbrev KVs := List (String × Val)

/-- `p.data[k]` where later assignments overwrite earlier ones -/
def getKey : KVs → String → Option Val
  | [], _ => none
  | (k, v) :: rest, key =>
    match getKey rest key with
    | some x => some x
    | none => if k = key then some v else none

inductive Param
  | nil                 -- untyped nil
  | tnil                -- a nil *MapParam inside a non-nil IRouteParam
  | sess (kvs : KVs)    -- any IRouteParam (session)
  | map (kvs : KVs)     -- map[string]interface{}
  | str (s : String)    -- explicit instance name
  | other               -- anything else
  deriving DecidableEq, Repr

/-- what a route function receives -/
inductive FParam
  | nilIface
  | nilPtr
  | kvs (l : KVs)
  deriving DecidableEq, Repr

def Param.viaFunc : Param → Option FParam
  | .nil => some .nilIface
  | .tnil => some .nilPtr
  | .sess l => some (.kvs l)
  | .map l => some (.kvs l)
  | .str _ => none
  | .other => none

inductive Beh
  | const (name : String)
  | key (k : String)       -- `param.Get(k, "").(string)`
  | nest (k : String) (tB : String) (inner : KVs)
      -- first calls `Route(tB, inner-as-key-map)` (a nested, re-entrant evaluation whose
      -- result it discards), then answers `param.Get(k, "").(string)` from ITS OWN parameter
  | keyd (k : String) (dflt : String)      -- `param.Get(k, dflt).(string)`: a default instance
  | nilor (nilName : String) (k : String)  -- `if param == nil { return nilName }; param.Get(k, "").(string)`
  | empty
  | panic
  deriving DecidableEq, Repr

/-- the key of its own parameter a function answers from, and the default it passes to `Get` -/
def Beh.keyOf : Beh → Option (String × String)
  | .key k => some (k, "")
  | .nest k _ _ => some (k, "")
  | .keyd k d => some (k, d)
  | .nilor _ k => some (k, "")
  | _ => none

/-- `param.Get(k, dflt).(string)`; `none` = it panicked -/
def applyKey (k dflt : String) : FParam → Option String
  | .nilIface => none                         -- method call on a nil interface
  | .nilPtr => none                           -- nil pointer dereference in MapParam.Get
  | .kvs l =>
    match getKey l k with
    | none => some dflt                       -- the default
    | some (.str s) => some s
    | some .null => none                      -- key present: `Get` returns the stored nil, `.(string)` panics
    | some .other => none                     -- failed type assertion

/-- result of calling the function; `none` = it panicked.  Evaluations are pure: a
nested `Route` call (which recovers its own panics) cannot influence what the outer
function reads from its own parameter — that independence is exactly what the
differential run checks against the code (a pooled / shared parameter wrapper breaks it).
An EMPTY key map is `.kvs []` (a non-nil MapParam over it), never `.nilIface`: `keyd`
answers its default there and `nilor` does not take its nil branch. -/
def applyBeh : Beh → FParam → Option String
  | .const n, _ => some n
  | .empty, _ => some ""
  | .panic, _ => none
  | .key k, fp => applyKey k "" fp
  | .nest k _ _, fp => applyKey k "" fp
  | .keyd k d, fp => applyKey k d fp
  | .nilor nn _, .nilIface => some nn
  | .nilor _ k, fp => applyKey k "" fp

/-- `table`: `RouteService.routes`; `hasDefault`: the package variable `defaultRouteFunc` holds the
built-in `app.defaultRoute` (installed by `app` at start-up); `custom`: it holds ANOTHER function
(`route.SetDefaultRoute(f)`, e.g. a load-balancing default rule) — a route function like any other. -/
structure Rules where
  table : List (String × Beh)
  hasDefault : Bool
  custom : Option Beh

/-- the function `doRoute` ends up calling under its deferred `recover`:
`f := s.GetFunc(t); if f == nil && defaultRouteFunc != nil { f = defaultRouteFunc }` — the registered
one, else a replaced default function (`none`: the built-in default or no function at all). -/
def Rules.lookup (R : Rules) (t : String) : Option Beh := (R.table.lookup t).or R.custom

/-- `route.SetDefaultRoute(f)`: `some b` installs another default function, `none` (= `nil`) removes it -/
def Rules.setDefault (R : Rules) (b : Option Beh) : Rules := { R with hasDefault := false, custom := b }

/-- `Register(t, f)`; `f = nil` unregisters -/
def Rules.register (R : Rules) (t : String) (b : Option Beh) : Rules :=
  { R with table := (match b with | some x => [(t, x)] | none => []) ++ R.table.filter (fun e => e.1 ≠ t) }

/-- `defaultRoute` -/
def defaultRoute (d : Dir) (t : String) : String :=
  match d.work.lookup t with
  | none => noService
  | some [] => noService
  | some (it :: _) => it.name

/-- `doRoute` -/
def doRoute (R : Rules) (d : Dir) (t : String) (fp : FParam) : String :=
  match R.lookup t with
  | some b => (applyBeh b fp).getD ""
  | none => if R.hasDefault then defaultRoute d t else missRouteFunc

/-- `RouteService.Route` -/
def route (R : Rules) (d : Dir) (t : String) (p : Param) : String :=
  match p with
  | .str s => s
  | .other => badRouteParam
  | .nil => doRoute R d t .nilIface
  | .tnil => doRoute R d t .nilPtr
  | .sess l => doRoute R d t (.kvs l)
  | .map l => doRoute R d t (.kvs l)

/-- `GetServicePID` -/
def getServicePID (d : Dir) (name : String) : Option Pid :=
  match d.services.lookup name with
  | none => none
  | some it => it.addr.map fun a => (a, it.name)

/-- `GetWorkServicePID` -/
def getWorkServicePID (d : Dir) (name : String) : Option Pid :=
  match d.services.lookup name with
  | none => none
  | some it => if it.state = working then it.addr.map fun a => (a, it.name) else none

/-- `GetFirstWorkService` (items of the working lists never get a PID) -/
def getFirstWorkService (d : Dir) (t : String) : Option Pid :=
  match d.work.lookup t with
  | some (it :: _) => it.addr.map fun a => (a, it.name)
  | _ => none

/-- `RoutePID` -/
def routePID (R : Rules) (d : Dir) (t : String) (p : Param) : Option Pid :=
  let id := route R d t p
  if id = "" then none else getServicePID d id

/-! ## Request / Notify / QuerySession / Kick -/

inductive Cb | noService
  deriving DecidableEq, Repr

/-- the state of the service that issues the call: its run service (scheduler loop) is running, or
has been stopped (`Service.onStop` → `runService.Stop()`: the actor is shutting down and a late
response / timer issues a follow-up request) -/
inductive Caller | running | stopped
  deriving DecidableEq, Repr

/-- how a completion performed by `app.*` itself reaches the callback: `apientry.CheckInvokeCBFunc`
calls it `direct`ly, inside the call; `posted` = handed to the caller's scheduler (`ns.Post`) -/
inductive Via | direct | posted
  deriving DecidableEq, Repr

/-- does the completion reach the callback?  `sche.Post` on a stopped scheduler recovers the
"send on closed channel" panic and discards the task. -/
def delivered : Via → Caller → Bool
  | .direct, _ => true
  | .posted, .running => true
  | .posted, .stopped => false

/-- what the code does today: `CheckInvokeCBFunc(cbFunc, ErrorNoService, nil)` -/
def completionVia : Via := .direct


structure Sent where
  target : Pid
  api : String
  isReq : Bool
  deriving DecidableEq, Repr

/-- `sent`: messages handed to the actor context; `cbs`: completions performed by
app.* itself; `pending`: the callback went into `RequestEx` (completed later by the
reply or the timeout) -/
structure Outcome where
  sent : List Sent
  cbs : List Cb
  pending : Bool
  deriving DecidableEq, Repr

/-- an outcome as the caller in state `c` experiences it when completions travel `via` -/
def Outcome.seenBy (o : Outcome) (via : Via) (c : Caller) : Outcome :=
  { o with cbs := if delivered via c then o.cbs else [] }

def refused (hasCb : Bool) : Outcome := ⟨[], if hasCb then [.noService] else [], false⟩

/-- `app.Request` -/
def request (R : Rules) (d : Dir) (r : String) (p : Param) (hasCb : Bool) : Outcome :=
  let s := splitClientRoute r
  match routePID R d s.1 p with
  | none => refused hasCb
  | some pid => ⟨[⟨pid, s.2.1 ++ "." ++ s.2.2, true⟩], [], hasCb⟩

/-- `app.Notify` -/
def notify (R : Rules) (d : Dir) (r : String) (p : Param) : Outcome :=
  let s := splitClientRoute r
  match routePID R d s.1 p with
  | none => refused false
  | some pid => ⟨[⟨pid, s.2.1 ++ "." ++ s.2.2, false⟩], [], false⟩

/-! ### a call that straddles a view update

`ClusterServices.MakeMembers` swaps the directory's four references with plain stores while calls
run.  One `Request` reads the directory at up to two points: inside `Route` (only the built-in
`defaultRoute` does: the WORKING list) and afterwards in `GetServicePID` (the name map).  `d1` is
the directory seen by the first read, `d2` by the second. -/

def routePIDTorn (R : Rules) (d1 d2 : Dir) (t : String) (p : Param) : Option Pid :=
  let id := route R d1 t p
  if id = "" then none else getServicePID d2 id

def requestTorn (R : Rules) (d1 d2 : Dir) (r : String) (p : Param) (hasCb : Bool) : Outcome :=
  let s := splitClientRoute r
  match routePIDTorn R d1 d2 s.1 p with
  | none => refused hasCb
  | some pid => ⟨[⟨pid, s.2.1 ++ "." ++ s.2.2, true⟩], [], hasCb⟩

def notifyTorn (R : Rules) (d1 d2 : Dir) (r : String) (p : Param) : Outcome :=
  let s := splitClientRoute r
  match routePIDTorn R d1 d2 s.1 p with
  | none => refused false
  | some pid => ⟨[⟨pid, s.2.1 ++ "." ++ s.2.2, false⟩], [], false⟩

/-- does the function get as far as reading its parameter?  (where the harness functions can be
parked and a view update be slipped in: `midview`) -/
def Beh.reads : Beh → FParam → Bool
  | .key _, _ => true
  | .keyd _ _, _ => true
  | .nest _ _ _, _ => true
  | .nilor _ _, .nilIface => false
  | .nilor _ _, _ => true
  | _, _ => false

/-- the call for type `t` with parameter `p` runs a route function that reads its parameter -/
def straddles (R : Rules) (t : String) (p : Param) : Bool :=
  match p.viaFunc, R.lookup t with
  | some fp, some b => b.reads fp
  | _, _ => false

/-- `app.QuerySession` (`api = "sys.querysession"`) and `app.Kick` (`"sys.kick"`) -/
def helper (d : Dir) (front : String) (api : String) (hasCb : Bool) : Outcome :=
  match getServicePID d front with
  | none => refused hasCb
  | some pid => ⟨[⟨pid, api, true⟩], [], hasCb⟩

/-- `app.Request` / `app.QuerySession` / `app.Kick` issued by a service in state `c` -/
def requestIn (c : Caller) (R : Rules) (d : Dir) (r : String) (p : Param) (hasCb : Bool) : Outcome :=
  (request R d r p hasCb).seenBy completionVia c

def helperIn (c : Caller) (d : Dir) (front : String) (api : String) (hasCb : Bool) : Outcome :=
  (helper d front api hasCb).seenBy completionVia c

/-- D5, the code before `fix: QuerySession and Kick report ErrorNoService…`:
log and return, the callback is dropped -/
def helperPreFix (d : Dir) (front : String) (api : String) (hasCb : Bool) : Outcome :=
  match getServicePID d front with
  | none => ⟨[], [], false⟩
  | some pid => ⟨[⟨pid, api, true⟩], [], hasCb⟩

/-! ## histories -/

inductive Op
  | view (ms : List Member) (sv : List (String × Item))   -- `sv`: the name map the iteration order produced
  | rule (t : String) (b : Option Beh)
  | dropDefault
  | setDefault (b : Beh)                                  -- `route.SetDefaultRoute(f)` with another function
  | reqIn (c : Caller) (r : String) (p : Param) (hasCb : Bool)
  | helperIn (c : Caller) (front : String) (api : String) (hasCb : Bool)
  | req (r : String) (p : Param) (hasCb : Bool)
  | ntf (r : String) (p : Param)
  | qs (front : String) (hasCb : Bool)
  | kick (front : String) (hasCb : Bool)

structure St where
  rules : Rules
  dir : Dir

def St.init : St := { rules := ⟨[], true, none⟩, dir := emptyDir }

def step (s : St) : Op → St × Option Outcome
  | .view ms sv => ({ s with dir := ⟨ms, sv⟩ }, none)
  | .rule t b => ({ s with rules := s.rules.register t b }, none)
  | .dropDefault => ({ s with rules := s.rules.setDefault none }, none)
  | .setDefault b => ({ s with rules := s.rules.setDefault (some b) }, none)
  | .reqIn c r p cb => (s, some (requestIn c s.rules s.dir r p cb))
  | .helperIn c f api cb => (s, some (helperIn c s.dir f api cb))
  | .req r p cb => (s, some (request s.rules s.dir r p cb))
  | .ntf r p => (s, some (notify s.rules s.dir r p))
  | .qs f cb => (s, some (helper s.dir f "sys.querysession" cb))
  | .kick f cb => (s, some (helper s.dir f "sys.kick" cb))

def run (s : St) : List Op → St
  | [] => s
  | op :: rest => run (step s op).1 rest

def Op.Ok : Op → Prop
  | .view ms sv => ServicesOk (typeList ms) sv
  | _ => True

end Cell2v.Route
