/-!
Model of `actorex/disp/schedisp.go` with SEVERAL mailboxes on one dispatcher.

`scheDisp.Schedule(fn)` is a blocking send into a channel of capacity 9; the run
service's single loop goroutine receives the functions one at a time and runs
them.  A mailbox hands its `processMessages` to `Schedule` only when it wins the
idle→running CAS, so at most one run per mailbox is buffered, blocked or
executing ("scheduled").  A run delivers everything pending for its mailbox.

The scenario the harness drives (harness/c09/sched_test.go): a handler may block
on a gate (the loop goroutine is busy); posts from foreign goroutines meanwhile
fill the channel, further ones block inside `Schedule`; `release` opens the gate.

* `queue`   – buffered runs (mailbox ids), oldest first, at most `cap`
* `blocked` – posters blocked in `Schedule`, oldest first (Go wakes senders FIFO)
* `gateMb`  – the mailbox whose handler currently blocks the loop goroutine
* `mq`      – posted, undelivered messages `(mailbox, msg)` in post order
* `ran`     – messages `(mailbox, msg)` handed to their invoker, in order
* `stuck`   – the LOOP GOROUTINE ITSELF is blocked inside `Schedule`: the handler it was executing posted
              to an idle mailbox while all `cap` slots were taken.  The loop goroutine is the only receiver
              of the channel, so nothing is ever received again (`selfPost`, `release`).

`selfPost`: `PostUserMessage` called by the handler that occupies the loop goroutine (a service sending to a
sibling on the same dispatcher).  Same wake-up protocol as a foreign post, but the blocking channel send is
executed by the channel's only receiver.
-/
namespace Cell2v.SchedDisp

structure St where
  cap : Nat := 9
  queue : List Nat := []
  blocked : List Nat := []
  gateMb : Option Nat := none
  mq : List (Nat × Nat) := []
  ran : List (Nat × Nat) := []
  posted : List (Nat × Nat) := []
  stuck : Bool := false
  deriving Repr, Inhabited

def init : St := {}

/-- one `processMessages` run of mailbox `mb` on the loop goroutine: everything pending for `mb`, in order -/
def runMb (s : St) (mb : Nat) : St :=
  { s with ran := s.ran ++ s.mq.filter (fun p => p.1 == mb),
           mq := s.mq.filter (fun p => !(p.1 == mb)) }

/-- the mailbox's status word is "running": a run of it is buffered, blocked in `Schedule` or executing -/
def scheduled (s : St) (mb : Nat) : Bool :=
  s.queue.contains mb || s.blocked.contains mb || s.gateMb == some mb

/-- `PostUserMessage` from a foreign goroutine.  `gate`: the handler of this message blocks until `release`. -/
def post (s : St) (mb msg : Nat) (gate : Bool) : St :=
  let s1 := { s with mq := s.mq ++ [(mb, msg)], posted := s.posted ++ [(mb, msg)] }
  if scheduled s mb then s1                      -- CAS fails: the pending run will take it
  else match s.gateMb with
    | none =>                                    -- loop goroutine idle: it receives the run at once
      if gate then { runMb s1 mb with gateMb := some mb } else runMb s1 mb
    | some _ =>
      if s.queue.length < s.cap then { s1 with queue := s1.queue ++ [mb] }
      else { s1 with blocked := s1.blocked ++ [mb] }   -- channel full: the poster blocks, nothing runs

/-- `PostUserMessage` called by the handler that currently occupies the loop goroutine.  If the target's run has to be
handed to the dispatcher and the channel is full, the loop goroutine blocks in `Schedule` on its own channel for ever
(`stuck`; it counts among the blocked senders: the target's status word says "running"). -/
def selfPost (s : St) (mb msg : Nat) : St :=
  match s.gateMb with
  | none => s                                      -- no handler is executing
  | some _ =>
    if s.stuck then s else                         -- the handler sits inside `Schedule`: it posts nothing more
    let s1 := { s with mq := s.mq ++ [(mb, msg)], posted := s.posted ++ [(mb, msg)] }
    if scheduled s mb then s1                      -- CAS fails (its own mailbox included): the pending run will take it
    else if s.queue.length < s.cap then { s1 with queue := s1.queue ++ [mb] }
    else { s1 with blocked := s1.blocked ++ [mb], stuck := true }

/-- the gate opens: the interrupted run goes on, then the loop drains the channel; every receive
frees a slot for the oldest blocked sender, so the overall order is `queue ++ blocked`.  A handler that is blocked
inside `Schedule` never gets to its gate: nothing happens. -/
def release (s : St) : St :=
  if s.stuck then s else
  match s.gateMb with
  | none => s
  | some g =>
    (s.queue ++ s.blocked).foldl runMb (runMb { s with gateMb := none, queue := [], blocked := [] } g)

/-- `ms` milliseconds of clock time pass (a long handler keeps the loop goroutine, posters sit in `Schedule`, or the
dispatcher is idle).  `Schedule` is a plain blocking channel send: it has no deadline, a blocked sender stays blocked until
the loop goroutine receives, a buffered run stays buffered.  Time alone changes nothing. -/
def wait (s : St) (_ms : Nat) : St := s

@[simp] theorem wait_eq (s : St) (ms : Nat) : wait s ms = s := rfl

inductive Op where
  | post (mb msg : Nat) (gate : Bool)
  | release
  | selfPost (mb msg : Nat)
  | wait (ms : Nat)
  deriving Repr

def step (s : St) : Op → St
  | .post mb msg g => post s mb msg g
  | .release => release s
  | .selfPost mb msg => selfPost s mb msg
  | .wait ms => wait s ms

def runOps (s : St) (ops : List Op) : St := ops.foldl step s

end Cell2v.SchedDisp
