import Cell2v.Model.MailboxX
/-!
C09 — `FineT`: the extended mailbox model `FineX` (`Model/MailboxX.lean`) with the CLOCK and the frame budget
inside.  In `FineX` "the frame budget is exhausted" is a free choice of the schedule (`iterOver` / `iterGosched` are
enabled at every iteration); the code decides it:

```go
// producer.go, Producer(maxProcessCostMs)
if maxProcessCostMs == 0 { maxProcessCostMs = 10 }           // 0 = "use the default"
... maxProcessCost: maxProcessCostMs * 1000000               // ns
// mailbox.go, run()
beginTime := NowNano()                                        // once per run, right after the dispatcher took it
for { vy("run.iter"); cost := NowNano() - beginTime
      if msgNum < MaxMsgNumToSmooth { if cost > m.maxProcessCost { m.beginSmoothPause(); return } }
      else { if cost > m.maxProcessCost { ...; beginTime = NowNano(); runtime.Gosched() } }
```

* `producerBudget ms` is what `Producer(ms)` stores in `maxProcessCost`;
* the state carries the clock `now`, `run()`'s `begin` and the mailbox's `budget`; `tick d` lets any amount of time pass
  between any two steps; `take` (and the Gosched branch) read the clock into `begin`;
* at "run.iter" exactly ONE of carry on / begin a pause / Gosched branch is enabled, decided by `now - begin > budget`
  (and the 100000 bound): the budget decision is a function of the clock, not a choice;
* `ret`: the consumer found the user queue EMPTY and is on its way out of `run()` (between the Pop and "pm.idle": the
  `return` and the deferred `recover()`, nothing shared is touched) — the yield point "uq.empty" of the harness; a
  stutter of `FineX` (`retEmpty`), "store idle" waits for it.

Every `FineT` step is a `FineX` step or a stutter on the embedded state (`Props/C09T.lean`, `t_step_refines`), so every
`x_*` theorem holds of every reachable `FineT` state.
-/
namespace Cell2v.Mailbox
namespace FineT

/-- `Producer(ms)`: 0 means the default of 10 ms; kept in ns -/
def producerBudget (ms : Nat) : Nat := (if ms = 0 then 10 else ms) * 1000000

structure St where
  x : FineX.St
  budget : Nat            -- m.maxProcessCost (ns)
  start : Nat := 0        -- run()'s beginTime (ns)
  now : Nat := 0          -- the clock (ns)
  ret : Bool := false     -- consumer between an empty Pop of the user queue and "pm.idle"
  deriving Repr

inductive Lbl
  | x (l : FineX.Lbl)
  | tick (d : Nat)        -- time passes
  | retEmpty              -- "uq.empty": the empty answer reaches run(), which returns
  deriving DecidableEq, Repr

/-- `cost > m.maxProcessCost` with `cost := NowNano() - beginTime` -/
def over (s : St) : Bool := decide (s.now - s.start > s.budget)

/-- what the clock allows at "run.iter"; every other label is not the clock's business -/
def clockOk (s : St) : FineX.Lbl → Bool
  | .base .iterOk => !over s
  | .base .iterOver => over s
  | .iterGosched => over s
  | _ => true

/-- the labels that read the clock into `beginTime` -/
def readsClock : FineX.Lbl → Bool
  | .base .take => true
  | .iterGosched => true
  | _ => false

def fire (s : St) : Lbl → Option St
  | .tick d => some { s with now := s.now + d }
  | .retEmpty => if s.ret then some { s with ret := false } else none
  | .x l =>
    -- while `ret`, the consumer's own next step is `retEmpty` ("store idle" waits); everybody else goes on
    if (s.ret && decide (l = .base .storeIdle)) || !clockOk s l then none
    else
      match FineX.fire s.x l with
      | none => none
      | some x' =>
        some { s with x := x',
                      start := if readsClock l then s.now else s.start,
                      ret := s.ret || decide (l = .base .popU ∧ s.x.s.uq = []) }

def init (t ms : Nat) : St := { x := FineX.init t, budget := producerBudget ms }

def runL (s : St) : List Lbl → Option St
  | [] => some s
  | l :: ls => match fire s l with
    | none => none
    | some s' => runL s' ls

end FineT
end Cell2v.Mailbox
