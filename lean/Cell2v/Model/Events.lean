/-!
C17 — executable model of cell2's event centres
(`utils/event/localeventcenter.go`, `globaleventcenter.go`, `utils/event/light`).

Data.  The Go structures `centre.events[name].Listeners[id]` are flattened into one
relation `subs : List Sub` (row = centre, event name, listener id, bound args, code
pointer, "was subscribed with GSubscribe").  `gflag` is the set of (centre, name) whose
`ListenerList.Global` flag is set, `greg` the content of the process-wide
`GlobalEventCenter` (name ↦ set of centres).  Each centre has `running`, `useChan`
and its 999-slot event channel `queue`.

Control.  User code (listeners) is a *script* (`Tmpl.script`): the list of centre
operations the listener performs when it is invoked.  Execution is small-step over an
explicit call stack (`Frame`): `script` = a listener (or the top-level caller) with the
operations it still has to perform, `disp` = one running `dispatch` with its snapshot
and the listeners it already called, `drain` = the owner goroutine receiving from the
centre's channel and calling `DoEvent`.  Go's map iteration order is the *guide*: a
list of choices consumed by `disp` frames; theorems quantify over all guides.

`Cfg` switches the two repaired defects back on (D7: the local centre held the list's
read lock while calling listeners and did not re-check; D14: the light centre did not
stop after `Clear`).  The fixed code is `Cfg.fixed`.
-/
namespace Cell2v.Events

/-- script operations = the centre API as used by listeners and by top-level callers -/
inductive SOp where
  /-- local centre: `Subscribe` (g=false) / `GSubscribe` (g=true);
      light centre: `Subscribe` (g=false, refuses a known code pointer) / `SubscribeNoCheck` (g=true) -/
  | sub (c e t : Nat) (g : Bool)
  /-- `Unsubscribe(name, id)` / `UnsubscribeById` -/
  | unsub (c e t : Nat)
  /-- light centre `Unsubscribe(name, cb)`: by code pointer -/
  | unsubfn (c e f : Nat)
  /-- `centre.Publish(name, args...)` -/
  | pub (c e : Nat) (a : List Nat)
  /-- `GetGlobalEC().Publish(name, args...)` -/
  | gpub (e : Nat) (a : List Nat)
  /-- `centre.Clear()` -/
  | clear (c : Nat)
  /-- direct call on the exported global centre: `GetGlobalEC().Subscribe(name, centre)` -/
  | gsub (e c : Nat)
  /-- direct call on the exported global centre: `GetGlobalEC().Unsubscribe(name, centre)` -/
  | gunsub (e c : Nat)
  /-- `GetGlobalEC().Subscribe(name, centre)` racing with other calls: the operations of template `t`'s script run
      after the global centre looked the name's list up and before it stores the centre in it (the harness does
      this with a wrapper centre whose `GetId()` performs them) -/
  | gsubh (e c t : Nat)
  /-- light centre `SubscribeWithReceiver(name, receiver r, cb, args...)` (r ≥ 1) -/
  | subr (c e t r : Nat)
  /-- light centre `UnsubscribeWithReceiver(name, receiver r, cb)` : by code pointer and receiver -/
  | unsubr (c e f r : Nat)
  deriving DecidableEq, Repr, Inhabited

/-- listener template: bound arguments, code pointer (light centre identity), script -/
structure Tmpl where
  bound : List Nat
  fn : Nat
  script : List SOp
  deriving Repr, Inhabited

/-- one live subscription -/
structure Sub where
  c : Nat
  e : Nat
  id : Nat
  bound : List Nat
  fn : Nat
  glob : Bool
  deriving DecidableEq, Repr, Inhabited

structure CAttr where
  light : Bool
  useChan : Bool
  running : Bool
  queue : List (Nat × List Nat)
  deriving Repr, Inhabited

inductive Frame where
  | script (self : Nat) (ops : List SOp)
  | disp (p c e : Nat) (a : List Nat) (snap called : List Nat)
  | drain (c n : Nat)
  deriving Repr, Inhabited

/-- observable trace tokens (with ghost fields used by the theorems) -/
inductive Tok where
  | sub (c e id : Nat) (bound : List Nat) (ok : Bool)
  | dup
  | bad
  | deep
  | pubq (c e : Nat) (a : List Nat)
  | unsub (c e id : Nat) (hit : Bool)
  | clear (c : Nat) (ids : List Nat)
  | opn (p c e : Nat) (a : List Nat)
  | cls (p : Nat)
  | inv (p c e id : Nat) (args a : List Nat)
  | gpub (e : Nat) (a : List Nat) (grew : List Nat)
  | blocked
  | gsub (e c : Nat)
  | gunsub (e c : Nat)
  deriving DecidableEq, Repr, Inhabited

/-- iteration-order choices taken from the implementation's trace -/
inductive GTok where
  | inv (id : Nat)
  | cls
  deriving DecidableEq, Repr, Inhabited

inductive Block where
  | reentrant   -- write lock requested under the caller's own read lock (D7)
  | queueFull   -- blocking send on a full 999-slot channel (local Publish with useChan)
  deriving DecidableEq, Repr, Inhabited

structure Cfg where
  d7 : Bool
  d14 : Bool
  deriving DecidableEq, Repr, Inhabited

def Cfg.fixed : Cfg := ⟨false, false⟩

structure World where
  cfg : Cfg
  cs : List CAttr
  subs : List Sub
  gflag : List (Nat × Nat)        -- (centre, name) with ListenerList.Global = true
  greg : List (Nat × Nat)         -- (name, centre) registered in the global centre
  tmpls : List (Nat × Tmpl)
  used : List Nat                 -- listener ids already handed out
  stack : List Frame
  guide : List GTok
  out : List Tok                  -- newest first
  locks : List (Nat × Nat)        -- read locks on (centre, name) lists held by dispatch frames (D7 only)
  pubs : Nat                      -- publication counter (ghost)
  direct : List (Nat × Nat)       -- (name, centre) pairs touched by direct calls on the global centre (ghost)
  recvs : List (Nat × Nat)        -- light centre: listener id ↦ receiver it was subscribed with (absent = none)
  hooked : List Nat               -- templates already used as a racing script (each at most once: termination)
  blocked : Option Block
  deriving Repr, Inhabited

def queueCap : Nat := 999
def maxDepth : Nat := 3

def init (cfg : Cfg) (cs : List (Bool × Bool)) (tm : List (Nat × Tmpl)) : World :=
  { cfg := cfg, cs := cs.map (fun k => ⟨k.1, k.2, true, []⟩), subs := [], gflag := [], greg := [],
    tmpls := tm, used := [], stack := [], guide := [], out := [], locks := [], pubs := 0, direct := [], recvs := [], hooked := [], blocked := none }

def tmplOf (w : World) (t : Nat) : Option Tmpl := (w.tmpls.find? (fun x => x.1 == t)).map (·.2)

def isDisp : Frame → Bool
  | .disp .. => true
  | _ => false

def depth (w : World) : Nat := (w.stack.filter isDisp).length

/-- listeners of (c, e), in subscription order -/
def lisOf (w : World) (c e : Nat) : List Sub := w.subs.filter (fun l => l.c == c && l.e == e)

def emit (w : World) (t : Tok) : World := { w with out := t :: w.out }

/-- light centre `GetSubscribeNum(name)`: the size of the name's listener list (0 when there is none);
`HasSubscribers(name)` is `subNum > 0` -/
def subNum (w : World) (c e : Nat) : Nat := (lisOf w c e).length

def insertP (x : Nat × Nat) (l : List (Nat × Nat)) : List (Nat × Nat) := if l.contains x then l else x :: l
def eraseP (x : Nat × Nat) (l : List (Nat × Nat)) : List (Nat × Nat) := l.filter (fun y => !(y == x))

/-- `Subscribe` / `GSubscribe` / light `Subscribe` / `SubscribeNoCheck` -/
def doSub (w : World) (c e t : Nat) (g : Bool) : World :=
  match w.cs[c]?, tmplOf w t with
  | some ct, some tm =>
    if w.used.contains t then emit w .dup            -- harness rule: a template is instantiated once
    else
      let w := { w with used := t :: w.used }
      if !ct.running then emit w (.sub c e t tm.bound false)
      else if ct.light then
        if !g && (lisOf w c e).any (fun l => l.fn == tm.fn) then emit w (.sub c e t tm.bound false)
        else emit { w with subs := w.subs ++ [⟨c, e, t, tm.bound, tm.fn, false⟩] } (.sub c e t tm.bound true)
      else if w.locks.contains (c, e) then { w with blocked := some .reentrant, out := .blocked :: w.out }
      else
        let w := { w with subs := w.subs ++ [⟨c, e, t, tm.bound, tm.fn, g⟩] }
        let w := if g && !w.gflag.contains (c, e) then
                   { w with gflag := insertP (c, e) w.gflag, greg := insertP (e, c) w.greg } else w
        emit w (.sub c e t tm.bound true)
  | _, _ => emit w .bad

/-- removal of listener `id` from list (c, e); the local centre deregisters when a Global list becomes empty
(a light centre has no Global flag: `gflag` never contains one of its lists, see `RegOK`) -/
def removeSub (w : World) (c e id : Nat) : World :=
  let hit := (lisOf w c e).any (fun l => l.id == id)
  let w := { w with subs := w.subs.filter (fun l => !(l.c == c && l.e == e && l.id == id)) }
  let w := if w.gflag.contains (c, e) && (lisOf w c e).isEmpty then
             { w with gflag := eraseP (c, e) w.gflag, greg := eraseP (e, c) w.greg } else w
  emit w (.unsub c e id hit)

def doUnsub (w : World) (c e t : Nat) : World :=
  match w.cs[c]? with
  | some ct =>
    if !ct.light && w.locks.contains (c, e) then
      { w with blocked := some .reentrant, out := .blocked :: w.out }
    else removeSub w c e t
  | none => emit w .bad

def doUnsubFn (w : World) (c e f : Nat) : World :=
  match w.cs[c]? with
  | some ct =>
    if !ct.light then emit w .bad
    else match (lisOf w c e).find? (fun l => l.fn == f) with
      | some l => removeSub w c e l.id
      | none => emit w (.unsub c e 0 false)
  | none => emit w .bad

def recvOf (w : World) (id : Nat) : Nat :=
  match w.recvs.find? (fun x => x.1 == id) with
  | some x => x.2
  | none => 0

/-- `ListenerList.FindIdWithReceiver`: a listener that HAS a receiver matches when callback pointer and receiver
are equal; a listener WITHOUT receiver matches on the callback pointer alone -/
def recvMatch (w : World) (f r : Nat) (l : Sub) : Bool :=
  l.fn == f && (recvOf w l.id == 0 || recvOf w l.id == r)

/-- light `SubscribeWithReceiver` -/
def doSubR (w : World) (c e t r : Nat) : World :=
  match w.cs[c]?, tmplOf w t with
  | some ct, some tm =>
    if !ct.light || r == 0 then emit w .bad
    else if w.used.contains t then emit w .dup
    else
      let w := { w with used := t :: w.used }
      if !ct.running then emit w (.sub c e t tm.bound false)
      else if (lisOf w c e).any (recvMatch w tm.fn r) then emit w (.sub c e t tm.bound false)
      else emit { w with subs := w.subs ++ [⟨c, e, t, tm.bound, tm.fn, false⟩], recvs := (t, r) :: w.recvs }
             (.sub c e t tm.bound true)
  | _, _ => emit w .bad

/-- light `UnsubscribeWithReceiver` -/
def doUnsubR (w : World) (c e f r : Nat) : World :=
  match w.cs[c]? with
  | some ct =>
    if !ct.light || r == 0 then emit w .bad
    else match (lisOf w c e).find? (recvMatch w f r) with
      | some l => removeSub w c e l.id
      | none => emit w (.unsub c e 0 false)
  | none => emit w .bad

/-- start of `dispatch(name, args)` on centre `c` -/
def openDisp (w : World) (ct : CAttr) (c e : Nat) (a : List Nat) : World :=
  let snap := (lisOf w c e).map (·.id)
  let w := if w.cfg.d7 && !ct.light && snap.length > 0 then { w with locks := (c, e) :: w.locks } else w
  { w with stack := .disp w.pubs c e a snap [] :: w.stack, pubs := w.pubs + 1, out := .opn w.pubs c e a :: w.out }

def setQueue (cs : List CAttr) (c : Nat) (q : List (Nat × List Nat)) : List CAttr :=
  match cs[c]? with
  | some ct => cs.set c { ct with queue := q }
  | none => cs

def doPub (w : World) (c e : Nat) (a : List Nat) : World :=
  match w.cs[c]? with
  | some ct =>
    if !ct.light && ct.useChan then
      if ct.queue.length ≥ queueCap then { w with blocked := some .queueFull, out := .blocked :: w.out }
      else emit { w with cs := setQueue w.cs c (ct.queue ++ [(e, a)]) } (.pubq c e a)
    else if depth w ≥ maxDepth then emit w .deep       -- harness rule: nesting bound
    else openDisp w ct c e a
  | none => emit w .bad

/-- non-blocking send of (e, a) to every registered centre whose channel has room -/
def enqAll (cs : List CAttr) (greg : List (Nat × Nat)) (e : Nat) (a : List Nat) : List CAttr :=
  cs.mapIdx (fun i ct => if greg.contains (e, i) && ct.queue.length < queueCap then
                           { ct with queue := ct.queue ++ [(e, a)] } else ct)

def grewOf (cs : List CAttr) (greg : List (Nat × Nat)) (e : Nat) : List Nat :=
  (List.range cs.length).filter (fun i => match cs[i]? with
    | some ct => greg.contains (e, i) && ct.queue.length < queueCap
    | none => false)

def doGpub (w : World) (e : Nat) (a : List Nat) : World :=
  emit { w with cs := enqAll w.cs w.greg e a } (.gpub e a (grewOf w.cs w.greg e))

def setRunning (cs : List CAttr) (c : Nat) (r : Bool) : List CAttr :=
  match cs[c]? with
  | some ct => cs.set c { ct with running := r }
  | none => cs

/-- `Clear`: stop, deregister every list whose Global flag is set, drop all lists -/
def doClear (w : World) (c : Nat) : World :=
  match w.cs[c]? with
  | some _ =>
    let ids := (w.subs.filter (fun l => l.c == c)).map (·.id)
    emit { w with cs := setRunning w.cs c false,
                  subs := w.subs.filter (fun l => !(l.c == c)),
                  gflag := w.gflag.filter (fun x => !(x.1 == c)),
                  greg := w.greg.filter (fun x => !(x.2 == c && w.gflag.contains (c, x.1))) } (.clear c ids)
  | none => emit w .bad

/-- direct `GlobalEventCenter.Subscribe / Unsubscribe(name, centre)`: the registration is a set of centres per
name (sync.Map keyed by centre id): Subscribe adds, Unsubscribe removes if present.  (`LocalECList.Size` is a
statistic for DumpInfo and is not part of the model.)  A light centre is not an `ILocalEventCenter`. -/
def doGsub (w : World) (e c : Nat) (add : Bool) : World :=
  match w.cs[c]? with
  | some ct =>
    if ct.light then emit w .bad
    else emit { w with greg := if add then insertP (e, c) w.greg else eraseP (e, c) w.greg,
                       direct := insertP (e, c) w.direct } (if add then .gsub e c else .gunsub e c)
  | none => emit w .bad

/-- the racing subscribe: the list of a name, once created, is never replaced, so "look up, let the others
run, store" ends like "let the others run, then subscribe" -/
def doGsubH (w : World) (e c t : Nat) : World :=
  match w.cs[c]? with
  | some ct =>
    if ct.light then emit w .bad
    else if w.hooked.contains t then emit w .dup
    else
      let sc := match (w.tmpls.find? (fun x => x.1 == t)).map (·.2) with
        | some tm => tm.script
        | none => []
      { w with hooked := t :: w.hooked, stack := .script 0 (sc ++ [.gsub e c]) :: w.stack }
  | none => emit w .bad

def execOp (w : World) : SOp → World
  | .sub c e t g => doSub w c e t g
  | .unsub c e t => doUnsub w c e t
  | .unsubfn c e f => doUnsubFn w c e f
  | .pub c e a => doPub w c e a
  | .gpub e a => doGpub w e a
  | .clear c => doClear w c
  | .gsub e c => doGsub w e c true
  | .gunsub e c => doGsub w e c false
  | .gsubh e c t => doGsubH w e c t
  | .subr c e t r => doSubR w c e t r
  | .unsubr c e f r => doUnsubR w c e f r

/-- which listener does the iteration produce next? `none` = the loop ends -/
def pick (guide : List GTok) (must may : List Sub) : Option Sub × List GTok :=
  match guide with
  | .inv y :: g' =>
    match (must ++ may).find? (fun l => l.id == y) with
    | some l => (some l, g')
    | none => (must.head?, guide)
  | .cls :: g' =>
    match must with
    | [] => (none, g')
    | l :: _ => (some l, guide)
  | [] => (must.head?, [])

def scriptOf (w : World) (id : Nat) : List SOp :=
  match tmplOf w id with
  | some tm => tm.script
  | none => []

/-- a loop that ends consumes the guide's "loop ended" mark, if that is what comes next -/
def dropCls : List GTok → List GTok
  | .cls :: g => g
  | g => g

/-- end of a dispatch: pop the frame, release the read lock (D7 code only); `g` = the guide that is left -/
def closeDisp (w : World) (g : List GTok) (rest : List Frame) (p c e : Nat) (snap : List Nat) (light : Bool) : World :=
  let locks := if w.cfg.d7 && !light && snap.length > 0 then w.locks.erase (c, e) else w.locks
  { w with guide := g, stack := rest, locks := locks, out := .cls p :: w.out }

/-- is the centre's dispatch loop the pre-fix one? -/
def defectOf (w : World) (ct : CAttr) : Bool := if ct.light then w.cfg.d14 else w.cfg.d7

/-- pre-fix code only: after `Clear` the loop went on over the old map — listeners of the snapshot that
were not produced yet, although they are not subscribed any more -/
def orphans (w : World) (c e : Nat) (snap called : List Nat) : List Sub :=
  (snap.filter (fun id => !called.contains id)).filterMap
    (fun id => (tmplOf w id).map (fun tm => ⟨c, e, id, tm.bound, tm.fn, false⟩))

/-- listeners the loop still has to produce: members of the snapshot that are still in the list
(re-checked before each call) and were not called yet -/
def mustOf (w : World) (ct : CAttr) (c e : Nat) (snap called : List Nat) : List Sub :=
  if ct.running then (lisOf w c e).filter (fun l => snap.contains l.id && !called.contains l.id)
  else orphans w c e snap called

/-- the light centre ranges over the live map: listeners inserted during the loop may or may not be produced -/
def mayOf (w : World) (ct : CAttr) (c e : Nat) (snap called : List Nat) : List Sub :=
  if ct.light && ct.running then (lisOf w c e).filter (fun l => !snap.contains l.id && !called.contains l.id) else []

/-- one iteration of the loop in `dispatch` -/
def stepDisp (w : World) (rest : List Frame) (p c e : Nat) (a : List Nat) (snap called : List Nat) : World :=
  match w.cs[c]? with
  | none => closeDisp w (dropCls w.guide) rest p c e snap false
  | some ct =>
    if !ct.running && !defectOf w ct then closeDisp w (dropCls w.guide) rest p c e snap ct.light     -- `if !running { return }`
    else
      match pick w.guide (mustOf w ct c e snap called) (mayOf w ct c e snap called) with
      | (none, g) => closeDisp w g rest p c e snap ct.light
      | (some l, g) =>
        { w with guide := g,
                 stack := .script l.id (scriptOf w l.id) :: .disp p c e a snap (l.id :: called) :: rest,
                 out := .inv p c e l.id (l.bound ++ a) a :: w.out }

/-- the owner goroutine: receive one event from the channel and `DoEvent` it -/
def stepDrain (w : World) (rest : List Frame) (c n : Nat) : World :=
  match n, w.cs[c]? with
  | n + 1, some ct =>
    match ct.queue with
    | (e, a) :: q =>
      openDisp { w with cs := setQueue w.cs c q, stack := .drain c n :: rest } ct c e a
    | [] => { w with stack := rest }
  | _, _ => { w with stack := rest }

def step (w : World) : World :=
  match w.blocked with
  | some _ => w
  | none =>
    match w.stack with
    | [] => w
    | .script _ [] :: rest => { w with stack := rest }
    | .script self (op :: ops) :: rest => execOp { w with stack := .script self ops :: rest } op
    | .disp p c e a snap called :: rest => stepDisp w rest p c e a snap called
    | .drain c n :: rest => stepDrain w rest c n

def steps : Nat → World → World
  | 0, w => w
  | n + 1, w => steps n (step w)

/-- run to completion (bounded by fuel; every real run ends long before) -/
def runFuel : Nat → World → World
  | 0, w => w
  | n + 1, w => if w.stack.isEmpty || w.blocked.isSome then w else runFuel n (step w)

/-- a top-level caller performs `ops` (guide = the iteration order observed / chosen) -/
def call (w : World) (ops : List SOp) (g : List GTok) : World :=
  { w with stack := [.script 0 ops], guide := g }

def callDrain (w : World) (c n : Nat) (g : List GTok) : World :=
  { w with stack := [.drain c n], guide := g }

end Cell2v.Events
