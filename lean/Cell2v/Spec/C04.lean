import Cell2v.Model.Graph
/-!
C04 — the *reviewed description* of the dispatch graph and the Boolean
obligations over it.  The graph itself (`Gen/C04Graph.lean`) is regenerated
from the Go source on every run; what is written here by hand is only

* which call-site keys run **service code** (`svcKeys`) and which are plain
  utilities (`utilKeys`) — a key that is in neither list fails `reviewedCheck`;
* which `go` statements start a **consumer loop** (`consumerSpawners`);
* which exported functions are **loop-side API** (`loopSideAPI`): documented to
  be called only from the consumer goroutine (`DoTask`, `Do`, `DoEvent`,
  `HandleOnce`, `Receive`, `Request…`) or only while a service is constructed;
* the uses of function literals that were looked at (`reviewedLitKinds`);
* how stored closures get from where they are stored to where they are called
  (`dispatchRules`, `frameworkLinks`) — used for the wiring theorem and, being
  extra edges, only strengthening `entry_only_via_loop`.

Core Lean only.
-/
namespace Cell2v.Spec.C04
open Cell2v.Graph

/-- call sites behind which code of a service runs -/
def svcKeys : List String := [
  -- invocation points of the run-service loop
  "iface sche.IChanSelector.DoTask",        -- MultiSelector.HandleOnce → selector handler
  "field sche.FuncSelector.~sche.SelectorFunc",            -- FuncSelector.DoTask → registered selector closure
  "field sche.RunTask.~sche.CBFunc",                  -- Sche.doTask → posted closure
  "field timer.Obj.CB",                     -- timer.Mgr.do → timer callback
  "field event.EListener.CB",               -- LocalEventCenter.dispatch → listener
  "value func()",                           -- scheDisp / stableDisp selector → mailbox run
  "iface actor.MessageInvoker.InvokeUserMessage",   -- mailbox run → actor.Receive (requests, responses, notifies)
  "iface actor.MessageInvoker.InvokeSystemMessage", -- mailbox run → Started / Stop handling
  "iface actor.MessageInvoker.EscalateFailure",
  -- invocation points inside the actor's Receive
  "field service.RequestWaitResponse.CB",   -- response / timeout callback
  "value service.ResCBFunc",                -- serialisation-failure callback inside Request
  "iface service.IAPIDispatcher.Dispatch",  -- request / notify handler through the API mapper
  "iface service.IRequestReceiver.ReceiveRequest",
  "field service.ExtProps.PostStartFuncs[]",
  "ext apimapper/apientry",                 -- CallWithSerialize → handler method
  "ext node/client/impls",                  -- ClientSessions.AddSession / RemoveSession / ProcessMessage
  -- utils/waterfall (Sche / Builder): the steps and the final callback of a chain run on a service's scheduler
  "field waterfall.Chain.~[]waterfall.Task[]",          -- Chain.invokeTask → step
  "field waterfall.Chain.~waterfall.FinalCallback",            -- Chain.invokeFinal → final callback
  -- user code run while the actor object is constructed (spawner's goroutine, before the service exists)
  "value actor.Producer",
  "field service.ExtProps.PostFuncs[]",
  "iface service.IService.OnCreate",
  "iface service.IService.SetAPIDispatcher",
  "iface service.IService.SetExtProps",
  "iface service.IService.SetRunService"]

/-- call sites that do not run service code -/
def utilKeys : List String := [
  "iface sche.IChanSelector.GetChannel",
  "iface event.ILocalEventCenter.GetChanEvent",
  "iface event.ILocalEventCenter.GetId",
  "iface mailbox.{Pop,Push}.Pop", "iface mailbox.{Pop,Push}.Push",
  "ext actorex/queue/goring", "ext actorex/queue/mpsc",
  "iface actor.Dispatcher.Schedule",        -- the enqueue of a mailbox run (scheDisp.Schedule: channel send)
  "iface actor.Dispatcher.Throughput",
  "iface actor.MailboxMiddleware.MailboxEmpty", "iface actor.MailboxMiddleware.MailboxStarted",
  "iface actor.MailboxMiddleware.MessagePosted", "iface actor.MailboxMiddleware.MessageReceived",
  "iface actor.MessageBatch.GetMessages",
  "iface actor.infoPart.Self", "iface actor.messagePart.Message", "iface actor.senderPart.Send",  -- actor.Context
  "iface utils/common",                     -- IMutex
  "iface utils/logger/interfaces",
  "ext utils/common",
  "ext utils/serialize/proto",
  "ext actorex/mailbox",                    -- mailbox.Producer (C09)
  "ext apimapper/registry",
  "ext node/app",
  "ext node/service",                       -- component bookkeeping
  "iface node/service",
  "ext pomelonet/server/acceptor",
  "iface pomelonet/server/acceptor",
  "ext pomelonet/server/session",           -- network side; reaches a service only through SessionsImpl
  "iface pomelonet/interfaces"]

/-- functions whose `go` statement starts a consumer loop -/
def consumerSpawners : List String := [
  "runservice.RunService.Start",            -- go r.loop()
  "disp.stableDisp.Start"]                  -- alternative dispatcher with its own single goroutine

/-- exported functions that may reach service code by direct calls -/
def loopSideAPI : List String := [
  -- consumer side of the queues: "call me from the goroutine that drains the channel"
  "sche.MultiSelector.HandleOnce", "sche.FuncSelector.DoTask", "sche.Sche.DoTask", "sche.Sche.Handler",
  "timer.Mgr.Do", "event.LocalEventCenter.DoEvent",
  -- called by proto.actor from the mailbox run that scheDisp schedules on the loop
  "service.Service.Receive", "service.APIDispatcher.Dispatch",
  -- documented "must be called inside the service's own environment"
  "service.Service.Request", "service.Service.RequestEx", "service.Service.Notify", "service.Service.NotifyEx",
  -- construction of a front-end service (run from ExtProps.PostFuncs)
  "pomelo.ServiceCreateAcceptors", "pomelo.TryCreateAcceptors"]

/-- functions that may contain direct-mode code (`localUseChan = false`) -/
def directModeAPI : List String := ["event.LocalEventCenter.Publish"]

/-- reviewed uses of function values (literals, method values, named functions, closures returned by
a factory alike).  `stored:field F` — the value is kept in struct field `F` (directly or through
wrappers that only forward it / build the struct) and is run by whoever calls that field — is
accepted exactly when `field F` is a reviewed service-code key, so it needs no entry here. -/
def reviewedLitKinds : List String := [
  "go", "defer", "call",
  "bound",                                      -- handed to an unexported analysed function that only calls that parameter: the
                                                -- translator resolved those calls to this value (call edges in the graph), nothing to review
  "timer:time.AfterFunc",
  "sync:sync.Map.Range",
  "arg:apimapper/apientry.CallWithSerialize",   -- completion callback handed to the handler
  "arg:iface actor.Dispatcher.Schedule",        -- m.processMessages handed to the dispatcher
  "arg:actor.WithMailbox",                      -- mailbox constructor closure
  "arg:actor.PropsFromProducer",                -- actor construction
  "assigned:field waterfall.Chain.~waterfall.Callback"] -- the completion callback waterfall.Sche hands to every step: the step may call it from
                                                -- ANY goroutine, so the translator makes the closure a goroutine root (one of `timerRoots`):
                                                -- `entry_only_via_loop` then says it reaches no step / final except through `Sche.Post`

def kindReviewed (k : String) : Bool :=
  reviewedLitKinds.contains k || svcKeys.any fun key => k == "stored:" ++ key

/-- stored closure: (site key that calls it, use kind that stores it); in addition every
`field F` site dispatches to every value of kind `stored:field F` -/
def dispatchRules : List (String × String) := [
  ("value func()", "arg:iface actor.Dispatcher.Schedule")]

/-- trusted link through proto.actor: the mailbox's invoker (the actor context) calls the actor's `Receive` -/
def frameworkLinks : List (String × String) := [
  ("iface actor.MessageInvoker.InvokeUserMessage", "service.Service.Receive"),
  ("iface actor.MessageInvoker.InvokeSystemMessage", "service.Service.Receive")]

/-- site keys every occurrence of which must lie on a consumer loop -/
def loopKeys : List String := [
  "iface sche.IChanSelector.DoTask", "field sche.FuncSelector.~sche.SelectorFunc", "field sche.RunTask.~sche.CBFunc",
  "field timer.Obj.CB", "field event.EListener.CB", "value func()",
  "iface actor.MessageInvoker.InvokeUserMessage", "iface actor.MessageInvoker.InvokeSystemMessage",
  "iface actor.MessageInvoker.EscalateFailure",
  "field service.RequestWaitResponse.CB", "iface service.IAPIDispatcher.Dispatch",
  "iface service.IRequestReceiver.ReceiveRequest", "field service.ExtProps.PostStartFuncs[]",
  "ext apimapper/apientry",
  "field waterfall.Chain.~[]waterfall.Task[]", "field waterfall.Chain.~waterfall.FinalCallback"]

/-! ### derived sets (strings are resolved to indices once; everything else is `Nat`) -/

def nameOf (G : CallGraph) (i : Nat) : String := G.names.getD i ""

def indexOf (l : List String) (s : String) : Option Nat :=
  let i := l.findIdx (· == s)
  if i < l.length then some i else none

/-- indices of the entries of `xs` that occur in `tbl` -/
def idxIn (tbl xs : List String) : List Nat :=
  (xs.zipIdx.filter fun p => tbl.contains p.1).map (·.2)

def svcK (G : CallGraph) : List Nat := idxIn svcKeys G.keys

/-- nodes that contain an invocation of service code -/
def svcNodes (G : CallGraph) : List Nat := (G.sites.filter fun s => (svcK G).contains s.2).map (·.1)

def consumerRoots (G : CallGraph) : List Nat :=
  (G.goRoots.filter fun r => consumerSpawners.contains r.2).map (·.1)

/-- goroutines started by the analysed code that are not consumer loops -/
def spawnedRoots (G : CallGraph) : List Nat :=
  (G.goRoots.filter fun r => !(consumerSpawners.contains r.2)).map (·.1) ++ G.timerRoots

/-- exported API that any goroutine may call -/
def apiRoots (G : CallGraph) : List Nat := G.exported.filter fun i => !(loopSideAPI.contains (nameOf G i))

def forbiddenRoots (G : CallGraph) : List Nat := spawnedRoots G ++ apiRoots G

/-- creator → the non-consumer goroutine it starts -/
def spawnEdges (G : CallGraph) : List (Nat × Nat) :=
  (G.litParents.filter fun p => (spawnedRoots G).contains p.1).map fun p => (p.2, p.1)

def ruleIdx (G : CallGraph) : List (Nat × Nat) :=
  (dispatchRules.filterMap fun r =>
    match indexOf G.keys r.1, indexOf G.kinds r.2 with
    | some a, some b => some (a, b)
    | _, _ => none) ++
  (G.kinds.zipIdx.flatMap fun kd => G.keys.zipIdx.filterMap fun k =>
    if kd.1 == "stored:" ++ k.1 then some (k.2, kd.2) else none)

def linkIdx (G : CallGraph) : List (Nat × Nat) :=
  frameworkLinks.filterMap fun r =>
    match indexOf G.keys r.1, indexOf G.names r.2 with
    | some a, some b => some (a, b)
    | _, _ => none

def dispatchEdges (G : CallGraph) : List (Nat × Nat) :=
  ((ruleIdx G).flatMap fun r =>
    (G.sites.filter fun s => s.2 == r.1).flatMap fun s =>
      (G.lits.filter fun l => l.2 == r.2).map fun l => (s.1, l.1)) ++
  ((linkIdx G).flatMap fun r => (G.sites.filter fun s => s.2 == r.1).map fun s => (s.1, r.2))

/-- every way control gets from one function to another **except through a queue** -/
def directEdges (G : CallGraph) : List (Nat × Nat) := G.calls ++ spawnEdges G ++ dispatchEdges G

/-- nodes from which service code is reached without passing through a queue (bit mask) -/
def danger (G : CallGraph) : Nat := back (directEdges G) G.names.length (ofListB (svcNodes G))

def entryCheckWith (G : CallGraph) (D : Nat) : Bool :=
  closedBack (directEdges G) D && (svcNodes G).all (memB D) &&
  ((spawnedRoots G).all fun r => !(memB D r)) &&
  G.exported.all fun i => !(memB D i) || loopSideAPI.contains (nameOf G i)

def entryCheck (G : CallGraph) : Bool := entryCheckWith G (danger G)

/-- nothing in the generated graph is outside the reviewed description -/
def reviewedCheck (G : CallGraph) : Bool :=
  G.keys.all (fun k => svcKeys.contains k || utilKeys.contains k) &&
  (G.sites ++ G.directSites).all (fun s => s.2 < G.keys.length) &&
  G.kinds.all kindReviewed &&
  G.lits.all (fun l => l.2 < G.kinds.length) &&
  G.odd.isEmpty &&
  (G.directCalls.all fun e => directModeAPI.contains (nameOf G e.1)) &&
  (G.directSites.all fun s => directModeAPI.contains (nameOf G s.1)) &&
  G.facts.all (·.2) && !G.facts.isEmpty &&
  G.goRoots.all (fun r => r.1 < G.names.length) && G.timerRoots.all (· < G.names.length)

/-- nodes reached from a consumer loop without passing through a queue (bit mask) -/
def loopReach (G : CallGraph) : Nat := fwd (directEdges G) G.names.length (ofListB (consumerRoots G))

def loopK (G : CallGraph) : List Nat := idxIn loopKeys G.keys

def loopSites (G : CallGraph) : List Nat := (G.sites.filter fun s => (loopK G).contains s.2).map (·.1)

/-- closures handed to `Sche.Post` -/
def postedLits (G : CallGraph) : List Nat :=
  match indexOf G.kinds "stored:field sche.RunTask.~sche.CBFunc" with
  | some k => (G.lits.filter fun l => l.2 == k).map (·.1)
  | none => []

/-- every invocation point is wired to a consumer loop; every posted closure is run from one -/
def wiringCheck (G : CallGraph) : Bool :=
  (loopSites G).all (memB (loopReach G)) && !(loopSites G).isEmpty &&
  (postedLits G).all (memB (loopReach G))

def sendNodes (G : CallGraph) : List Nat := G.sends.map (·.1)

/-- every timer goroutine does reach an enqueue -/
def timerEnqueueCheck (G : CallGraph) : Bool :=
  G.timerRoots.all fun t => (sendNodes G).any (memB (fwd G.calls G.names.length (ofListB [t])))

/-! ### diagnostics (printed by an `#eval` in `Props/C04.lean` when an obligation fails; not part of any proof) -/

def offenders (G : CallGraph) : List String :=
  ((spawnedRoots G).filter (memB (danger G))).map (fun i => "goroutine " ++ nameOf G i) ++
  ((G.exported.filter fun i => memB (danger G) i && !(loopSideAPI.contains (nameOf G i))).map (nameOf G))

def unreviewed (G : CallGraph) : List String :=
  (G.keys.filter fun k => !(svcKeys.contains k || utilKeys.contains k)) ++
  (G.kinds.filter fun k => !(kindReviewed k)) ++ G.odd ++
  ((G.directCalls.filter fun e => !(directModeAPI.contains (nameOf G e.1))).map fun e => "direct-mode call in " ++ nameOf G e.1) ++
  ((G.facts.filter fun f => !f.2).map fun f => "fact no longer holds: " ++ f.1)

def offLoop (G : CallGraph) : List String :=
  (((loopSites G) ++ (postedLits G)).filter fun n => !(memB (loopReach G) n)).map (nameOf G)

def allChecks (G : CallGraph) : Bool :=
  reviewedCheck G && entryCheck G && wiringCheck G && timerEnqueueCheck G

end Cell2v.Spec.C04
