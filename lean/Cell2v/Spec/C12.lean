import Cell2v.Model.NodeCtrl
/-!
C12 — the property itself as a monitor over observable traces.

The monitor sees, per operation, what was *done to* the node (`MOp`: a command,
a service's answer to the support query, a service-retired notification, the
StopNode completion, …) and what the node *showed* (`Obs`: the reply class, the
states it published, StopNode calls, commands it sent to hosted services, its
state afterwards).  It keeps its own bookkeeping (who declared support, who
reported retired, last state, StopNode calls so far) and knows nothing of the
model's internals.  It is used twice:

* executed by `modeld_c12 spec` on the observations recorded from the Go code;
* `Props/C12.model_passes_monitor`: the model's own trace is never flagged, for
  every service set and every history (so a flag on an implementation trace is a
  disagreement with the proven behaviour, not a quirk of the monitor).
-/
namespace Cell2v.Spec.C12
open Cell2v.NodeCtrl

/-- one operation as the property sees it -/
inductive MOp
  | cmd (c : Cmd)
  | qack (i : Nat) (sentOk : Bool)     -- service i answered a support query; sentOk: with exactly "ok"
  | qnone                               -- an answer was scripted but the service had no query to answer
  | svcRetired (i : Nat)
  | svcOther
  | stopDone (called : Bool) (succ : Bool)
  | tick
  | setRes (i : Nat) (up : Bool)       -- the environment made service i resolvable / unresolvable
  deriving DecidableEq, Repr

/-- what the node showed during one operation -/
structure Obs where
  reply : Option Reply          -- none: no reply belongs to this kind of operation / none observed
  pubs : List NS                -- states in the order the cluster provider saw their publication complete
  upd : List NS                 -- the node's own state changes: states in the order it handed them to UpdateNodeState
  stops : Nat
  sent : List (Nat × SCmd)
  st : NS
  lost : List NS := []          -- publications the cluster provider refused (UpdateClusterState returned an error), in order
  deriving DecidableEq, Repr

structure Mon where
  n : Nat                       -- number of hosted services
  declared : List Nat           -- services that declared retirement support
  reported : List Nat           -- services that reported retired
  cur : NS                      -- node state after the previous operation
  stopsTotal : Nat
  stopOk : Bool                 -- a StopNode completion with succ = true has been delivered
  unres : List Nat              -- hosted services the node currently cannot resolve (GetService = nil)
  inlineStop : Option Bool      -- the environment completes StopNode inside the call, with this result (none: later)
  deriving DecidableEq, Repr

def Mon.init (n : Nat) (declared : List Nat) (inline : Option Bool := none) (unres : List Nat := []) : Mon :=
  { n := n, declared := declared, reported := [], cur := .working, stopsTotal := 0, stopOk := false,
    unres := unres, inlineStop := inline }

def inlineOf : StopMode → Option Bool
  | .later => none | .inlineOk => some true | .inlineFail => some false

def allIn (n : Nat) (l : List Nat) : Bool := (List.range n).all (fun i => l.contains i)

def monotoneFrom : Nat → List NS → Bool
  | _, [] => true
  | r, s :: rest => r ≤ s.rank && monotoneFrom s.rank rest

def lastOr (d : NS) : List NS → NS
  | [] => d
  | [s] => s
  | _ :: rest => lastOr d rest

/-- `u` is an order-preserving interleaving of `p` and `l`: every state the node handed to
`UpdateNodeState` reached the provider exactly once and was either accepted (`p`) or refused
(`l`), in that order — nothing repeated, retried, invented or reordered.  With `l = []` this
is `p = u` (`isMerge_no_loss`). -/
def isMerge : List NS → List NS → List NS → Bool
  | [], p, l => p.isEmpty && l.isEmpty
  | u :: us, p, l =>
    (match p with | x :: p' => x == u && isMerge us p' l | [] => false) ||
    (match l with | y :: l' => y == u && isMerge us p l' | [] => false)

def isRetireCmd : Cmd → Bool
  | .retire | .webRetire => true | _ => false
def isExitCmd : Cmd → Bool
  | .exit | .webExit => true | _ => false

/-- bookkeeping update (what the environment did), independent of the verdict -/
def Mon.learn (m : Mon) (op : MOp) : Mon :=
  match op with
  | .qack i true => { m with declared := i :: m.declared }
  | .svcRetired i => if i < m.n then { m with reported := i :: m.reported } else m
  | .stopDone true true => { m with stopOk := true }
  | .setRes i up => { m with unres := if up then m.unres.filter (· != i) else i :: m.unres }
  | _ => m

def isCmdOp : MOp → Bool
  | .cmd _ => true | _ => false
def accepted (o : Obs) : Bool := o.reply == some Reply.ok
def retireAccepted (op : MOp) (o : Obs) : Bool :=
  match op with | .cmd c => isRetireCmd c && accepted o | _ => false
def exitAccepted (op : MOp) (o : Obs) : Bool :=
  match op with | .cmd c => isExitCmd c && accepted o | _ => false

def isStopDoneOk : MOp → Bool
  | .stopDone true true => true | _ => false
/-- a successful StopNode completion is delivered during this very operation: an explicit
`stopDone true`, or a StopNode call in the inline-success regime -/
def stopSucceedsNow (m : Mon) (op : MOp) (o : Obs) : Bool :=
  isStopDoneOk op || (m.inlineStop == some true && decide (0 < o.stops))

/-- The property clauses in the order in which they are reported: (violated?, signature).
`m` is the bookkeeping *including* the current operation (`learn` already applied);
`m.cur` is the node state before the operation. -/
def Mon.clauses (m : Mon) (op : MOp) (o : Obs) : List (Bool × String) :=
  [ -- the guards on the state in which a command may be accepted
    (retireAccepted op o && !(m.cur == .working || m.cur == .retiring), "C12/retire-accepted-in-wrong-state"),
    (exitAccepted op o && m.cur != .retired, "C12/exit-accepted-when-not-retired"),
    -- the published state only ever moves forward
    (!monotoneFrom m.cur.rank o.pubs, "C12/state-regression"),
    -- the published state is the node's state: what reaches the cluster is the node's own sequence of
    -- state changes, in that order, and ends at the node's state
    -- (when the provider refused one of them, the node's own sequence is what ends at the node's state)
    (lastOr m.cur (if o.lost.isEmpty then o.pubs else o.upd) != o.st, "C12/published-state-differs"),
    (!isMerge o.upd o.pubs o.lost, "C12/published-sequence-differs"),
    -- StopNode at most once, and only as part of an accepted exit
    (decide (m.stopsTotal + o.stops > 1), "C12/stopnode-twice"),
    (decide (o.stops > 0) && !exitAccepted op o, "C12/stopnode-without-exit"),
    -- services are told to retire only as part of an accepted retire
    (o.sent.any (fun p => p.2 == SCmd.retire) && !retireAccepted op o, "C12/retire-sent-without-accept"),
    -- retire: every hosted service declared support, every hosted service the node can resolve is told,
    -- the node is retiring
    (retireAccepted op o && !allIn m.n m.declared, "C12/retire-accepted-without-support"),
    (retireAccepted op o &&
        !(List.range m.n).all (fun i => m.unres.contains i || o.sent.contains (i, SCmd.retire)),
      "C12/retire-not-told-everyone"),
    (retireAccepted op o && o.st != .retiring, "C12/retire-accepted-not-retiring"),
    -- retired only after every hosted service reported retired ...
    (decide (3 ≤ o.st.rank) && !allIn m.n m.reported, "C12/retired-before-all-reported"),
    -- ... and as soon as all did (a node that hosts something)
    (decide (0 < m.n) && allIn m.n m.reported && decide (o.st.rank < 3), "C12/not-retired-after-all-reported"),
    -- exit: StopNode is called, the node is exiting
    (exitAccepted op o && o.stops != 1, "C12/exit-without-stopnode"),
    (exitAccepted op o && decide (o.st.rank < 4), "C12/exit-accepted-not-exiting"),
    -- exited only after the stop succeeded, and as soon as it did
    (o.st == .exited && !(m.stopOk || stopSucceedsNow m op o), "C12/exited-without-stop-success"),
    (stopSucceedsNow m op o && o.st != .exited, "C12/not-exited-after-stop-success"),
    -- a refused (or merely informational) command changes nothing
    (isCmdOp op && !accepted o && (o.pubs != [] || o.stops != 0 || o.sent != [] || o.st != m.cur),
      "C12/refused-changed-something"),
    -- a command is always answered
    (isCmdOp op && o.reply == none, "C12/command-unanswered") ]

/-- the first violated clause, if any -/
def Mon.check (m : Mon) (op : MOp) (o : Obs) : Option String :=
  ((m.clauses op o).find? (·.1)).map (·.2)

def Mon.step (m : Mon) (op : MOp) (o : Obs) : Mon × Option String :=
  let m1 := m.learn op
  let v := m1.check op o
  ({ m1 with cur := o.st, stopsTotal := m1.stopsTotal + o.stops,
             stopOk := m1.stopOk || stopSucceedsNow m1 op o }, v)

/-- run the monitor over a trace; the first verdict wins -/
def Mon.runAll (m : Mon) : List (MOp × Obs) → Option String
  | [] => none
  | (op, o) :: rest =>
    match (m.step op o).2 with
    | some v => some v
    | none => (m.step op o).1.runAll rest

/-- a service kind whose reception of a command is observable and that is resolvable at start -/
def probedKind : Kind → Bool
  | .raw | .nodeOk | .nodeNo | .nodeEmpty => true
  | _ => false

def probedAt (kinds : List Kind) (i : Nat) : Bool :=
  match kinds[i]? with
  | some k => probedKind k
  | none => false

/-- the monitor at the start of a case, from the observation of the start-up probe: a
NodeService-kind service with an "ok" listener declared its support when it was asked; the
controller must host — and therefore probe — every configured service it can resolve -/
def Mon.reset (kinds : List Kind) (ob : Obs) (inline : Option Bool := none) : Mon × Option String :=
  let declared := (List.range kinds.length).filter fun i =>
    kinds[i]? == some Kind.nodeOk && ob.sent.contains (i, SCmd.queryretire)
  let unres := (List.range kinds.length).filter fun i => !reachableAt kinds i
  let probed := (List.range kinds.length).all fun i =>
    !probedAt kinds i || ob.sent.contains (i, SCmd.queryretire)
  let r := (Mon.init kinds.length declared inline unres).step .tick ob
  (r.1, if probed then r.2 else some "C12/hosted-service-not-probed")

/-- a whole case: the probe observation, then the trace -/
def monitorCase (kinds : List Kind) (inline : Option Bool) (resetObs : Obs) (tr : List (MOp × Obs)) :
    Option String :=
  match (Mon.reset kinds resetObs inline).2 with
  | some v => some v
  | none => (Mon.reset kinds resetObs inline).1.runAll tr

/-! ### observing the model: what `modeld_c12 model` prints, as data -/

def replyOf (es : List Evt) : Option Reply := es.findSome? (fun e => match e with | .reply r => some r | _ => none)
def pubsOf (es : List Evt) : List NS := es.filterMap (fun e => match e with | .pub s => some s | _ => none)
def sentOf (es : List Evt) : List (Nat × SCmd) :=
  es.filterMap (fun e => match e with | .send i c => some (i, c) | _ => none)

def obsOf (s' : St) (es : List Evt) : Obs :=
  { reply := replyOf es, pubs := pubsOf es, upd := pubsOf es, stops := stops es, sent := sentOf es, st := s'.st }

/-- the model's observation when the cluster provider follows the fault script `sc`: the
provider sees the accepted publications, the refused ones are reported as lost -/
def obsOfL (sc : List Bool) (s' : St) (es : List Evt) : Obs :=
  { obsOf s' es with pubs := delivered sc (pubsOf es), lost := lostOf sc (pubsOf es) }

/-- the operation as the monitor sees it: a support answer counts as a declaration only if
the node's query was still outstanding (the weakest reading — every extra declaration the
monitor is told about can only make it more permissive) -/
def mopOf (s : St) : Op → MOp
  | .cmd c => .cmd c
  | .qack i ok => if s.qpend.contains i then .qack i ok else .qnone
  | .svcRetired i => .svcRetired i
  | .svcOther _ => .svcOther
  | .stopDone succ => .stopDone (decide (0 < s.stopPend)) succ
  | .tick => .tick
  | .setRes i up => .setRes i up

/-- the observable trace of the model from state `s` -/
def traceOf (s : St) : List Op → List (MOp × Obs)
  | [] => []
  | o :: os => (mopOf s o, obsOf (step true s o).1 (step true s o).2) :: traceOf (step true s o).1 os

/-- the observable trace of the model from state `s` with a provider following the fault script `sc` -/
def traceOfL (sc : List Bool) (s : St) : List Op → List (MOp × Obs)
  | [] => []
  | o :: os =>
    (mopOf s o, obsOfL sc (step true s o).1 (step true s o).2) ::
      traceOfL (scriptAfter sc (pubsOf (step true s o).2).length) (step true s o).1 os

end Cell2v.Spec.C12
