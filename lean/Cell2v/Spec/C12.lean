import Cell2v.Model.NodeCtrl
/-!
C12 — the property itself as a monitor over observable traces.

The monitor sees, per operation, what was *done to* the node (`MOp`: a command,
a service's answer to the support query, a service-retired notification, the
StopNode completion, …) and what the node *showed* (`Obs`: the reply class, the
states it published, StopNode calls, commands it sent to hosted services, its
state afterwards).  It keeps its own bookkeeping (who declared support, who
reported retired, last state, StopNode calls so far) and knows nothing of the
model's internals.  It is used twice:

* executed by `modeld_c12 spec` on the observations recorded from the Go code;
* `Props/C12.model_passes_monitor`: the model's own trace is never flagged, for
  every service set and every history (so a flag on an implementation trace is a
  disagreement with the proven behaviour, not a quirk of the monitor).
-/
namespace Cell2v.Spec.C12
open Cell2v.NodeCtrl

/-- one operation as the property sees it -/
inductive MOp
  | cmd (c : Cmd)
  | qack (i : Nat) (sentOk : Bool)     -- service i answered a support query; sentOk: with exactly "ok"
  | qnone                               -- an answer was scripted but the service had no query to answer
  | svcRetired (i : Nat)
  | svcOther
  | stopDone (called : Bool) (succ : Bool)
  | tick
  deriving DecidableEq, Repr

/-- what the node showed during one operation -/
structure Obs where
  reply : Option Reply          -- none: no reply belongs to this kind of operation / none observed
  pubs : List NS
  stops : Nat
  sent : List (Nat × SCmd)
  st : NS
  deriving DecidableEq, Repr

structure Mon where
  n : Nat                       -- number of hosted services
  declared : List Nat           -- services that declared retirement support
  reported : List Nat           -- services that reported retired
  cur : NS                      -- node state after the previous operation
  stopsTotal : Nat
  stopOk : Bool                 -- a StopNode completion with succ = true has been delivered
  deriving DecidableEq, Repr

def Mon.init (n : Nat) (declared : List Nat) : Mon :=
  { n := n, declared := declared, reported := [], cur := .working, stopsTotal := 0, stopOk := false }

def allIn (n : Nat) (l : List Nat) : Bool := (List.range n).all (fun i => l.contains i)

def monotoneFrom : Nat → List NS → Bool
  | _, [] => true
  | r, s :: rest => r ≤ s.rank && monotoneFrom s.rank rest

def lastOr (d : NS) : List NS → NS
  | [] => d
  | [s] => s
  | _ :: rest => lastOr d rest

def isRetireCmd : Cmd → Bool
  | .retire | .webRetire => true | _ => false
def isExitCmd : Cmd → Bool
  | .exit | .webExit => true | _ => false

/-- bookkeeping update (what the environment did), independent of the verdict -/
def Mon.learn (m : Mon) (op : MOp) : Mon :=
  match op with
  | .qack i true => { m with declared := i :: m.declared }
  | .svcRetired i => if i < m.n then { m with reported := i :: m.reported } else m
  | .stopDone true true => { m with stopOk := true }
  | _ => m

/-- The property clauses, each with its signature.  `m` is the bookkeeping *including* the
current operation (`learn` already applied); `m.cur` is the state before the operation. -/
def Mon.check (m : Mon) (op : MOp) (o : Obs) : Option String :=
  let accepted := o.reply == some Reply.ok
  let isCmd := match op with | .cmd _ => true | _ => false
  let retireAccepted := match op with | .cmd c => isRetireCmd c && accepted | _ => false
  let exitAccepted := match op with | .cmd c => isExitCmd c && accepted | _ => false
  -- the published state only ever moves forward
  if !monotoneFrom m.cur.rank o.pubs then some "C12/state-regression"
  -- the published state is the node's state
  else if lastOr m.cur o.pubs ≠ o.st then some "C12/published-state-differs"
  -- StopNode at most once, and only as part of an accepted exit
  else if m.stopsTotal + o.stops > 1 then some "C12/stopnode-twice"
  else if o.stops > 0 && !exitAccepted then some "C12/stopnode-without-exit"
  -- services are told to retire only as part of an accepted retire
  else if o.sent.any (fun p => p.2 == SCmd.retire) && !retireAccepted then some "C12/retire-sent-without-accept"
  -- retire guard
  else if retireAccepted && !(m.cur == .working || m.cur == .retiring) then some "C12/retire-accepted-in-wrong-state"
  else if retireAccepted && !allIn m.n m.declared then some "C12/retire-accepted-without-support"
  else if retireAccepted && !(List.range m.n).all (fun i => o.sent.contains (i, SCmd.retire)) then
    some "C12/retire-not-told-everyone"
  else if retireAccepted && o.st ≠ .retiring then some "C12/retire-accepted-not-retiring"
  -- retired only after every hosted service reported retired
  else if 3 ≤ o.st.rank && !allIn m.n m.reported then some "C12/retired-before-all-reported"
  -- ... and as soon as all did (a node that hosts something)
  else if 0 < m.n && allIn m.n m.reported && o.st.rank < 3 then some "C12/not-retired-after-all-reported"
  -- exit guard
  else if exitAccepted && m.cur ≠ .retired then some "C12/exit-accepted-when-not-retired"
  else if exitAccepted && o.stops ≠ 1 then some "C12/exit-without-stopnode"
  else if exitAccepted && o.st ≠ .exiting then some "C12/exit-accepted-not-exiting"
  -- exited only after the stop succeeded
  else if o.st == .exited && !m.stopOk then some "C12/exited-without-stop-success"
  -- a refused (or merely informational) command changes nothing
  else if isCmd && !accepted && (o.pubs ≠ [] || o.stops ≠ 0 || o.sent ≠ [] || o.st ≠ m.cur) then
    some "C12/refused-changed-something"
  -- a command is always answered
  else if isCmd && o.reply == none then some "C12/command-unanswered"
  else none

def Mon.step (m : Mon) (op : MOp) (o : Obs) : Mon × Option String :=
  let m1 := m.learn op
  let v := m1.check op o
  ({ m1 with cur := o.st, stopsTotal := m1.stopsTotal + o.stops }, v)

end Cell2v.Spec.C12
