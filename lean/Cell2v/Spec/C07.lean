import Cell2v.Model.Route
/-!
C07 — the vocabulary of the property, stated over the cluster *view* (the member
list as announced), the rule table and the parameter — independent of how the
directory maps or `Route` are implemented.

* `IsInstance ms t n st pid` : the view announces an instance `n` of type `t` on a
  node in state `st`, reachable at `pid` (= address of the node carrying that
  node id, instance name).
* `Named`, `Known`, `UniqueName`, `NoSentinelNames` (the explicit guard: no
  instance is literally called `no_service`, `bad_route_param`, `miss_route_func`).
* `RuleNames R t p n` : the route rule for type `t` names instance `n` for parameter
  `p` (explicit name | registered constant | registered key function — plain or
  one that first routes re-entrantly for another type — on a session / key map
  carrying a string under that key: the OUTER parameter's key; the function's
  default instance when the key is absent — an EMPTY key map included; the
  nil-branch name of a nil-aware function on an untyped nil only).
* `RuleFails` : the ways a rule yields no instance.
-/
namespace Cell2v.Route

/-- a well-formed full service name `type.name` (both parts non-empty) -/
def wellFormed (s : String) : Option (String × String) :=
  let x := splitServiceName s
  if x.1 = "" ∨ x.2 = "" then none else some x

def IsInstance (ms : List Member) (t n : String) (st : Nat) (pid : Pid) : Prop :=
  ∃ m ∈ ms, ∃ s ∈ m.services, wellFormed s = some (t, n) ∧ m.state = st ∧
    ∃ m', memberOf ms m.id = some m' ∧ pid = (addrOf m', n)

def Named (ms : List Member) (n : String) (pid : Pid) : Prop := ∃ t st, IsInstance ms t n st pid

def Known (ms : List Member) (n : String) : Prop := ∃ pid, Named ms n pid

def UniqueName (ms : List Member) (n : String) : Prop := ∀ p q, Named ms n p → Named ms n q → p = q

def NoSentinelNames (ms : List Member) : Prop :=
  ¬ Known ms noService ∧ ¬ Known ms badRouteParam ∧ ¬ Known ms missRouteFunc

/-- the key/value content of a parameter that a route function can read -/
def Param.kvs? : Param → Option KVs
  | .sess l => some l
  | .map l => some l
  | _ => none

/-- the route rule of type `t` names instance `n` for parameter `p` -/
inductive RuleNames (R : Rules) (t : String) : Param → String → Prop
  | explicit (s : String) : RuleNames R t (.str s) s
  | const {p : Param} {fp : FParam} {n : String} :
      R.lookup t = some (.const n) → p.viaFunc = some fp → RuleNames R t p n
  | key {p : Param} {l : KVs} {b : Beh} {k dflt n : String} :
      R.lookup t = some b → b.keyOf = some (k, dflt) → p.kvs? = some l → getKey l k = some (.str n) → RuleNames R t p n
  | keyDefault {p : Param} {l : KVs} {b : Beh} {k dflt : String} :
      R.lookup t = some b → b.keyOf = some (k, dflt) → p.kvs? = some l → getKey l k = none → RuleNames R t p dflt
  | nilName {nn k : String} : R.lookup t = some (.nilor nn k) → RuleNames R t .nil nn

/-- the rule of type `t` yields no instance for parameter `p` (view `ms`) -/
inductive RuleFails (R : Rules) (ms : List Member) (t : String) : Param → Prop
  | emptyName {p : Param} : RuleNames R t p "" → RuleFails R ms t p
  | unknownName {p : Param} {n : String} : RuleNames R t p n → ¬ Known ms n → RuleFails R ms t p
  | emptyFunc {p : Param} {fp : FParam} : R.lookup t = some .empty → p.viaFunc = some fp → RuleFails R ms t p
  | funcPanics {p : Param} {fp : FParam} {b : Beh} :
      R.lookup t = some b → p.viaFunc = some fp → applyBeh b fp = none → RuleFails R ms t p
  | keyAbsent {p : Param} {l : KVs} {b : Beh} {k : String} :
      R.lookup t = some b → b.keyOf = some (k, "") → p.kvs? = some l → getKey l k = none → RuleFails R ms t p
  | badParam : RuleFails R ms t .other
  | noWorkingInstance {p : Param} {fp : FParam} :
      R.lookup t = none → p.viaFunc = some fp → R.hasDefault = true →
      (¬ ∃ n pid, IsInstance ms t n working pid) → RuleFails R ms t p
  | noFunction {p : Param} {fp : FParam} :
      R.lookup t = none → p.viaFunc = some fp → R.hasDefault = false → RuleFails R ms t p

/-- `n` is the first instance of type `t` on a working node, in the order of the view -/
def FirstWorking (ms : List Member) (t n : String) : Prop :=
  ∃ pre p post, pairs ms = pre ++ p :: post ∧ p.1.state = working ∧ wellFormed p.2 = some (t, n) ∧
    ∀ q ∈ pre, ¬ (q.1.state = working ∧ ∃ n', wellFormed q.2 = some (t, n'))

end Cell2v.Route
