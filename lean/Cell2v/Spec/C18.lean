import Cell2v.Model.Center
/-!
C18 — the property itself, as a monitor over *observable* histories: the operations
delivered to the centre, the return values of its entry points and the
acknowledgements it passes to login callbacks.  Nothing of the centre's internal
state is consulted.  The monitor keeps, per account, a small ledger:

* `entry` — the life of the account's *load* (game-logic instance):
  opened by a fresh authorisation `Ack(Succ, not reconnect)`, logged-in after the
  logic server's `logined` notification, logging-out after an accepted logout
  request, closed by `logout done` / `abnormal logout` (the record then lingers
  until the next periodic tick) or by expiry (no `logined` within 2 min of the
  authorisation, no `logout done` within 30 min of the accepted logout request,
  observed by a tick);
* `closedRep` — the bound connection was reported closed (or the account was bound to the
  null connection, net id 0);
* `tx` — the open transaction: kind and time limit; opened by an accepted
  login / reconnect / logout / line switch, closed by its completion notification,
  by the end of the record; after its time limit it no longer excludes others;
* `answered` — the login requests answered so far.

Verdicts: the four safety clauses (`doubleLoad`, `reconnectWrongState`, `txOverlap`, `answeredTwice`) and
`refusedNoHolder`, the "until it completes or its time limit passes" side: a logout request on an existing
record, a line-switch request of a logged-in account that is not in a line switch, a login for an account
the centre has nothing on — refused although no unexpired transaction holds the account.  (A login or a line
switch refused because an earlier line switch never ended is NOT a verdict: the code blocks the account
then, see `unfinished_switch_blocks_account` in `Props/C18.lean`.)

The same monitor is (a) the subject of the theorems in `Props/C18.lean` (run on the
model's trace for every history) and (b) executed by `modeld_c18 spec` on what the real
code did.
-/
namespace Cell2v.Center.Spec
open Cell2v.Center

/-! ### the time limits of the property
Written out here in milliseconds, independently of the constants of the model (`Model/Center.lean`,
which mirror `define.go` / `playermgr.go`): the refinement proof needs them to agree (`*_eq` below, by `rfl`),
so a constant changed on one side only — in the model to follow a changed implementation, or here — breaks
the proof instead of silently moving the property. -/
def loginLimit : Nat := 120000     -- an authorised load must be confirmed (logined) within 2 min
def logoutLimit : Nat := 1800000   -- an accepted logout must complete within 30 min
def txLimit : Nat := 180000        -- reconnect / logout / line-switch transactions hold the account for at most 3 min
def loginTxLimit : Nat := 300000   -- the login transaction for at most 5 min

@[simp] theorem loginLimit_eq : loginLimit = LoginTimeout := rfl
@[simp] theorem logoutLimit_eq : logoutLimit = LogoutTimeout := rfl
@[simp] theorem txLimit_eq : txLimit = LockTimeout := rfl
@[simp] theorem loginTxLimit_eq : loginTxLimit = LockLoginTimeout := rfl

inductive Phase | auth (t0 : Nat) | inGame | out (t1 : Nat)
  deriving DecidableEq, Repr

inductive Entry | none | lingering | open (ph : Phase)
  deriving DecidableEq, Repr

def Entry.live : Entry → Bool
  | .open _ => true
  | _ => false

structure Ledger where
  entry : Entry := .none
  closedRep : Bool := false
  tx : Option (Reason × Nat) := none
  answered : List Nat := []
  deriving Repr

inductive Viol
  | doubleLoad          -- fresh authorisation while an earlier load of the account is live
  | reconnectWrongState -- reconnect authorised for an account not logged-in, or whose connection was not reported closed
  | txOverlap           -- a transaction accepted while another one holds the account within its time limit
  | answeredTwice       -- a login request answered a second time
  | refusedNoHolder     -- a logout request on an existing record refused although no unexpired transaction holds the account,
                        -- or a line-switch request of a logged-in account that is not in a line switch refused likewise,
                        -- or a login answered AlreadyOnline / SystemBusy for an account the centre has nothing on (no load, no lingering record)
  deriving DecidableEq, Repr

def Viol.signature : Viol → String
  | .doubleLoad => "C18/double-load"
  | .reconnectWrongState => "C18/reconnect-wrong-state"
  | .txOverlap => "C18/transactions-overlap"
  | .answeredTwice => "C18/login-answered-twice"
  | .refusedNoHolder => "C18/refused-without-holder"

/-- a transaction holds the account at `now`: open and within its time limit -/
def heldTx (tx : Option (Reason × Nat)) (now : Nat) : Bool :=
  match tx with
  | some (_, d) => decide (now < d)
  | none => false

def held (l : Ledger) (now : Nat) : Bool := heldTx l.tx now

/-- the open transaction (expired or not) is a line switch: the account is between an accepted line-switch
request and its end -/
def inSwitchTx (tx : Option (Reason × Nat)) : Bool :=
  match tx with
  | some (.switchLine, _) => true
  | _ => false

def closeTx (l : Ledger) (k : Reason) : Ledger :=
  match l.tx with
  | some (k', _) => if k' = k then { l with tx := none } else l
  | none => l

/-- one acknowledgement `(login id, net id of its connection, code)` -/
def ackStep (now : Nat) (l : Ledger) (id n : Nat) (c : Code) : Ledger × List Viol :=
  let v1 := if id ∈ l.answered then [Viol.answeredTwice] else []
  let l := { l with answered := id :: l.answered }
  match c with
  | .ok =>
    let v2 := if l.entry.live then [Viol.doubleLoad] else []
    let v3 := if held l now then [Viol.txOverlap] else []
    ({ l with entry := .open (.auth now), closedRep := decide (n = 0), tx := some (.login, now + loginTxLimit) }, v1 ++ v2 ++ v3)
  | .re _ =>
    let v2 := if l.entry = .open .inGame && l.closedRep then [] else [Viol.reconnectWrongState]
    let v3 := if held l now then [Viol.txOverlap] else []
    ({ l with closedRep := decide (n = 0), tx := some (.reonline, now + txLimit) }, v1 ++ v2 ++ v3)
  | .already | .busy => (l, v1 ++ (if l.entry = .none then [Viol.refusedNoHolder] else []))

def evStep (now : Nat) (l : Ledger) : Ev → Ledger × List Viol
  | .ack id n c => ackStep now l id n c
  | _ => (l, [])

def evsStep (now : Nat) (l : Ledger) : List Ev → Ledger × List Viol
  | [] => (l, [])
  | e :: es =>
    let r := evStep now l e
    let r2 := evsStep now r.1 es
    (r2.1, r.2 ++ r2.2)

/-- the operation's own effect on the ledger, before the acknowledgements it emitted -/
def opStep (now : Nat) (l : Ledger) (op : Op) (ret : Option Bool) : Ledger × List Viol :=
  match op with
  | .closed .. => (if l.entry = .none then l else { l with closedRep := true }, [])
  | .logined .. =>
    if l.entry = .none then (l, []) else (closeTx { l with entry := .open .inGame } .login, [])
  | .reonline _ => (closeTx l .reonline, [])
  | .logoutReq _ =>
    if l.entry = .none then (l, [])
    else if ret = some true then
      ({ l with entry := .open (.out now), tx := some (.logout, now + txLimit) }, if held l now then [.txOverlap] else [])
    else (l, if held l now then [] else [.refusedNoHolder])
  | .logoutDone _ => if l.entry = .none then (l, []) else (closeTx { l with entry := .lingering } .logout, [])
  | .abnormal _ => if l.entry = .none then (l, []) else ({ l with entry := .lingering }, [])
  | .swBegin _ =>
    if l.entry = .none then (l, [])
    else if ret = some true then
      ({ l with tx := some (.switchLine, now + txLimit) }, if held l now then [.txOverlap] else [])
    else (l, if l.entry = .open .inGame && !held l now && !inSwitchTx l.tx then [.refusedNoHolder] else [])
  | .swEnd _ => if ret = some true then (closeTx l .switchLine, []) else (l, [])
  | _ => (l, [])

/-- periodic tick: expiry of an authorised-but-never-logged-in load, of a logout that never
completed; the lingering record of a closed load goes away.  The end of the record ends
its transaction. -/
def tickLedger (now : Nat) (l : Ledger) : Ledger :=
  let gone := match l.entry with
    | .open (.auth t0) => decide (now ≥ t0 + loginLimit)
    | .open (.out t1) => decide (now ≥ t1 + logoutLimit)
    | .lingering => true
    | _ => false
  if gone then { l with entry := .none, tx := none } else l

/-- one account's step: operation, then its acknowledgements -/
def acctStep (now : Nat) (l : Ledger) (op : Op) (out : Out) : Ledger × List Viol :=
  let r := opStep now l op out.ret
  let r2 := evsStep now r.1 out.evs
  (r2.1, r.2 ++ r2.2)

structure Mon where
  led : Nat → Ledger := fun _ => {}
  now : Nat := 0

def monStep (m : Mon) (st : Step) : Mon × List Viol :=
  match st.op with
  | .tick => ({ m with led := fun u => tickLedger m.now (m.led u) }, [])
  | .adv ms => ({ m with now := m.now + ms }, [])
  | .advT ms =>
    ({ m with led := fun u => (firings m.now (m.now + ms)).foldl (fun l t => tickLedger t l) (m.led u),
              now := m.now + ms }, [])
  | op =>
    match op.uid with
    | some u =>
      let r := acctStep m.now (m.led u) op st.out
      ({ m with led := upd m.led u r.1 }, r.2)
    | none => (m, [])

def monRun (m : Mon) : List Step → Mon × List Viol
  | [] => (m, [])
  | st :: rest =>
    let r := monStep m st
    let r2 := monRun r.1 rest
    (r2.1, r.2 ++ r2.2)

/-- the property predicate on an observable history -/
def check (tr : List Step) : List Viol := (monRun {} tr).2

end Cell2v.Center.Spec
