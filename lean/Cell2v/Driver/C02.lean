import Cell2v.Driver.Util
import Cell2v.Model.ClientServe
import Cell2v.Model.ClientShared
/-!
Model driver for C02 (bubble-node engine, front `gate-1`, backs `chat-1`, `chat-2`, `hall-1`).

Op language (a case = everything from a `reset` to the next one):

    reset nc=<k>                       k fresh client connections c0..c(k-1), queued TOGETHER in an in-memory acceptor and
                                       turned into sessions by the real accept loop (pomelo.StartAcceptor), then handshaken;
                                       observation `ok`, or `ok conn=<c>:<sessions built on it>:<handshake responses>,…`
                                       listing the connections that were not served by exactly one session
    join n=<k>                         k MORE connections, queued together and accepted like those of reset, in the middle of a case
    bind c=<i> to=<name|-|#n>          the front session of client i gets chatid=<name> ("-" = empty string; `#<n>` = the
                                       NUMBER n instead of a string: the tie's route function panics on it)
    reqs q=<item>|<item>|…             item = <c>,<id>,<route>,<pay>; the messages are written at once
                                       (one frame per client); pay = v<N> | null | bad | empty | badtype
    pipe c=<i> q=<item>|…              a NEW connection (index i = number of connections so far) is opened while the
                                       owner of the front is kept busy: handshake, ack and the messages (all items
                                       have c=i) are read by the session's reader BEFORE the owner runs AddSession;
                                       then the owner is released (repaired defect D20)
    hs c=<i>                           client i sends a Handshake packet again on its working connection: the session
                                       goes back to StatusHandshake (session.go processPacket); responses of requests in
                                       flight are still written; data packets are IGNORED by the reader until …
    ack c=<i>                          … the next HandshakeAck makes it working again
    wrap k=<n>                         (only right after reset) the front's service-request counter is set n below
                                       MaxReqId, so the next forwarded requests are numbered across the wrap
    flood c=<i> n=<N> id0=<a> v0=<b> route=<r>
                                       client i stops reading; N requests (ids a..a+N-1, payloads v<b>..) are written
                                       back-to-back — more than the session's send queue holds —; the client resumes
                                       reading.  Same as the N-item `reqs`.
    topo n2=<0|1|2|3>                  the cluster view changes: node n2 (chat-2, hall-2) is now Init/Working/Retiring/Retired
                                       (n1 with gate-1, chat-1, hall-1 stays Working; reset makes n2 Working again)
    frame body=<acts>                  the synchronous frame of ONE request handler, driven directly through the real
                                       CallWithSerialize / CallMethod / SafeCall with a completion function shaped like
                                       the front's own: acts c = complete with a result, m = complete with a result on
                                       which the completion function panics, e = complete with an error, p = panic;
                                       "-" = the empty body.  Observation `done=<x…>`: what the completion function
                                       received and processed, in order (d = data, e = error).  No effect on the case.
    adv                                5 s of virtual time pass

A route may contain `%xx` escapes: raw bytes (to send routes that are not valid UTF-8); the model sees
each such byte as U+FFFD (`routeSerialisable`).
    flush                              45 s pass (every handler delay and the 30 s forward timeout are over)

Observation of reqs/pipe/adv/flush (hs/ack/wrap: `ok`): `r=<a>,<b>,… i=<x>,<y>,…` — `r` the multiset (sorted) of
`<c>:resp:<id>:<errflag>:<payload hex>` the clients read during the op, `i` the multiset (sorted)
of handler invocations `<service>:<method>:<v>` logged during the op.  reset/bind: `ok`.

* `modeld_c02 model` : op in → observation out (`Model/ClientServe.lean`, `tieCfg`).
* `modeld_c02 spec`  : `op<TAB>implObs` in → `ok` / `VIOLATION <signature> <text>`: the property
  itself evaluated on what the implementation did — own bookkeeping of what each client sent, own
  statement of which service a route names; it does not call `serve`.
-/
namespace Cell2v.Driver.C02
open Cell2v.Driver Cell2v.ClientServe

/-! ### parsing -/

def dropS (s : String) (n : Nat) : String := (s.drop n).toString

inductive Pay | v (n : Nat) | null | bad | empty | badtype
  deriving DecidableEq

def parsePay (s : String) : Pay :=
  if s = "null" then .null
  else if s = "empty" then .empty
  else if s = "badtype" then .badtype
  else if s.startsWith "v" then
    match (dropS s 1).toNat? with
    | some n => .v n
    | none => .bad
  else .bad

def Pay.toModel : Pay → Payload
  | .v n => .valid n
  | .null => .valid 0          -- json.Unmarshal("null", ptr) leaves the zero value
  | _ => .undecodable

structure Item where
  c : Nat
  id : Nat
  route : String
  pay : Pay

/-- `%xx` (a raw byte, only used for bytes that break UTF-8) → U+FFFD -/
def unescape : List Char → List Char
  | '%' :: _ :: _ :: rest => '\uFFFD' :: unescape rest
  | c :: rest => c :: unescape rest
  | [] => []

def routeOf (s : String) : String := String.ofList (unescape s.toList)

def parseItem (s : String) : Option Item :=
  match s.splitOn "," with
  | [c, id, route, pay] =>
    match c.toNat?, id.toNat? with
    | some c, some id => some ⟨c, id, routeOf route, parsePay pay⟩
    | _, _ => none
  | _ => none

def parseItems (ws : List String) : List Item :=
  if ws.head? = some "flood" then
    match kvNat ws "c", kvNat ws "n", kvNat ws "id0", kvNat ws "v0", kv ws "route" with
    | some c, some n, some id0, some v0, some r =>
      (List.range n).map fun k => ⟨c, id0 + k, routeOf r, .v (v0 + k)⟩
    | _, _, _, _, _ => []
  else
  match kv ws "q" with
  | none => []
  | some q => (q.splitOn "|").filterMap parseItem

/-! ### rendering -/

def sortStrings (xs : List String) : List String :=
  (xs.toArray.qsort (fun a b => a < b)).toList

def join (sep : String) (xs : List String) : String := sep.intercalate xs

def jsonOf (origin method : String) (v : Nat) : String :=
  "{\"s\":\"" ++ origin ++ "\",\"m\":\"" ++ method ++ "\",\"v\":" ++ toString v ++ "}"

def hexOfString (s : String) : String := hexOfBytes (s.toUTF8.toList.map UInt8.toNat)

def showWire (x : Nat × Nat × Result) : String :=
  match x.2.2 with
  | .error => toString x.1 ++ ":resp:" ++ toString x.2.1 ++ ":1:"
  | .blank => toString x.1 ++ ":resp:" ++ toString x.2.1 ++ ":0:"
  | .unser => toString x.1 ++ ":resp:" ++ toString x.2.1 ++ ":unser:"
  | .data o _ m v => toString x.1 ++ ":resp:" ++ toString x.2.1 ++ ":0:" ++ hexOfString (jsonOf o m v)

def showInv (x : String × String × String × Nat) : String :=
  x.1 ++ ":" ++ x.2.2.1 ++ ":" ++ toString x.2.2.2

def showObs (rs : List (Nat × Nat × Result)) (is : List (String × String × String × Nat)) : String :=
  "r=" ++ join "," (sortStrings (rs.map showWire)) ++ " i=" ++ join "," (sortStrings (is.map showInv))

/-! ### op `frame`: `callMethod` of Model/ClientServe.lean -/

def actsOf : List Char → Option (List Act)
  | [] => some []
  | 'c' :: cs => (actsOf cs).map (Act.complete (.data "f" "scr" "run" 0) true :: ·)
  | 'm' :: cs => (actsOf cs).map (Act.complete (.data "f" "scr" "run" 0) false :: ·)
  | 'e' :: cs => (actsOf cs).map (Act.complete .error true :: ·)
  | 'p' :: cs => (actsOf cs).map (Act.panic :: ·)
  | _ => none

def parseBody (ws : List String) : Option (List Act) :=
  match kv ws "body" with
  | none => none
  | some b => if b = "-" then some [] else actsOf b.toList

def showDone (rs : List Result) : String :=
  "done=" ++ String.ofList (rs.map fun r => match r with | .error => 'e' | _ => 'd')

def modelFrame (ws : List String) : String :=
  match parseBody ws with
  | none => "bad-op"
  | some body => showDone (callMethod true body)

/-- the property on the implementation's observation of one frame: a body that calls its completion
function at most once and is not an empty frame is completed exactly once; and whatever the body
does, the framework never adds a completion to one that went through. -/
def specFrame (ws : List String) (obs : String) : String :=
  match parseBody ws, kv (words obs) "done" with
  | some body, some d =>
    let calls := (body.filter fun a => match a with | .complete .. => true | .panic => false).length
    let n := d.length
    let b := (kv ws "body").getD ""
    if body ≠ [] ∧ calls ≤ 1 ∧ n = 0 then
      s!"VIOLATION C02/handler-frame-never-completed body={b}: the handler panicked or its completion did not go through, and the request was not completed"
    else if n > 1 ∧ n > calls then
      s!"VIOLATION C02/handler-frame-completed-twice body={b}: {n} completions ({d}) for {calls} call(s) of the completion function"
    else if body ≠ [] ∧ calls ≤ 1 ∧ n ≠ 1 then
      s!"VIOLATION C02/handler-frame-completed-twice body={b}: {n} completions ({d})"
    else "ok"
  | _, _ => "ok"

/-! ### model mode -/

/-- the shared-state machine (`Model/ClientShared.lean`) run next to the timed per-message model on the
same traffic, under the schedule the real node follows between two observations: every message is
processed by the owner as soon as it is posted, every back-end handles its calls at once; at `flush`
the replies whose nominal delay is within the request timeout are delivered, everything still pending
expires, the delayed local completions fire, and the late replies arrive (and find no entry).  `late`
remembers the request ids whose handler is slower than the timeout (driver-side scheduling knowledge,
not part of the machine). -/
structure ShSt where
  st : Shared.FSt := {}
  late : List Nat := []

structure MState where
  st : St := St.init
  sh : ShSt := {}
  keys : List (Nat × String) := []
  /-- connections that re-sent a handshake and have not acked yet: their data packets are not read -/
  hsing : List Nat := []
  /-- state of node n2 (`define.NodeState`: 1 = Working) -/
  n2 : Nat := 1

def MState.sess (m : MState) (c : Nat) (added : Bool := true) : Sess :=
  ⟨c, (m.keys.find? (·.1 = c)).map (·.2), added⟩

def MState.bind (m : MState) (c : Nat) (k : String) : MState :=
  { m with keys := (c, k) :: m.keys.filter (·.1 ≠ c) }

def shBacks (c : Cfg) (fuel : Nat) (x : ShSt) : ShSt :=
  match fuel with
  | 0 => x
  | fuel + 1 =>
    match x.st.calls with
    | [] => x
    | cl :: _ =>
      let late :=
        match cl.r, c.dir cl.dest with
        | some r, some inst =>
          (match (processForward fixed c cl.dest inst cl.f).2 with
           | some dr => if requestTimeout < dr.1 then [r] else []
           | none => [])
        | _, _ => []
      shBacks c fuel { st := Shared.step c x.st (.back 0), late := late ++ x.late }

/-- a connection the machine has not seen yet is opened first (`reset nc=k` / `pipe` open connections:
`OnSessionCreate` posts the `AddSession` before anything can be read from the connection) -/
def shOpen (c : Cfg) (st : Shared.FSt) (sid : Nat) : Shared.FSt :=
  if st.sessions.contains sid then st else Shared.step c (Shared.step c st (.open sid)) .front

def shSend (c : Cfg) (x : ShSt) (sid : Nat) (msg : ClientMsg) : ShSt :=
  let st := Shared.step c (Shared.step c (shOpen c x.st sid) (.send sid msg)) .front
  shBacks c (st.calls.length + 1) { x with st := st }

def shSetKey (c : Cfg) (x : ShSt) (sid : Nat) (k : String) : ShSt :=
  { x with st := Shared.step c (Shared.step c (shOpen c x.st sid) (.setKey sid k)) .front }

def iter {α : Type} (f : α → α) : Nat → α → α
  | 0, a => a
  | n + 1, a => iter f n (f a)

/-- the end of a case: in-time replies, then expiry, then local timers, then the late replies -/
def shFlush (c : Cfg) (x : ShSt) : Shared.FSt :=
  let inTime := x.st.dones.filter fun d => ¬ x.late.contains d.1
  let lateOnes := x.st.dones.filter fun d => x.late.contains d.1
  let st := { x.st with dones := inTime ++ lateOnes }
  let st := iter (fun st => Shared.step c (Shared.step c st (.deliver 0)) .front) inTime.length st
  let st := iter (fun st => Shared.step c st (.expire 0)) st.pending.length st
  let st := iter (fun st => Shared.step c st (.fire 0)) st.ltimers.length st
  iter (fun st => Shared.step c (Shared.step c st (.deliver 0)) .front) lateOnes.length st

def applyOps (m : MState) (ops : List Op) : MState × String :=
  let st' := run fixed (tieCfg (m.n2 = 1)) m.st ops
  let c := tieCfg (m.n2 = 1)
  let sh := ops.foldl (fun (x : ShSt) op =>
    match op with
    | .req s msg => shSend c x s.sid msg
    | .adv _ => x) m.sh
  ({ m with st := st', sh := sh }, showObs (st'.out.drop m.st.out.length) (st'.inv.drop m.st.inv.length))

/-- at the end of a case the two models must have written the same responses and run the same handlers -/
def sharedAgrees (m : MState) : Bool :=
  let fin := shFlush (tieCfg (m.n2 = 1)) m.sh
  sortStrings ((fin.out.map Shared.Wr.wire).map showWire) == sortStrings (m.st.out.map showWire) &&
  sortStrings (fin.inv.map showInv) == sortStrings (m.st.inv.map showInv) &&
  fin.mbox.isEmpty && fin.pending.isEmpty && fin.ltimers.isEmpty && fin.dropped.isEmpty

def modelStep (m : MState) (line : String) : MState × String :=
  let ws := words line
  match ws.head? with
  | some "reset" => ({}, "ok")
  | some "join" => (m, "ok")
  | some "bind" =>
    match kvNat ws "c", kv ws "to" with
    | some c, some t =>
      let k := if t = "-" then "" else t
      ({ m.bind c k with sh := shSetKey (tieCfg (m.n2 = 1)) m.sh c k }, "ok")
    | _, _ => (m, "bad-op")
  | some "reqs" | some "flood" =>
    applyOps m (((parseItems ws).filter fun it => ¬ m.hsing.contains it.c).map fun it =>
      .req (m.sess it.c) ⟨it.id, it.route, it.pay.toModel⟩)
  | some "hs" =>
    match kvNat ws "c" with
    | some c => ({ m with hsing := c :: m.hsing.filter (· ≠ c) }, "ok")
    | none => (m, "bad-op")
  | some "ack" =>
    match kvNat ws "c" with
    | some c => ({ m with hsing := m.hsing.filter (· ≠ c) }, "ok")
    | none => (m, "bad-op")
  | some "wrap" => (m, "ok")
  | some "frame" => (m, modelFrame ws)
  | some "topo" =>
    match kvNat ws "n2" with
    | some k => ({ m with n2 := k }, "ok")
    | none => (m, "bad-op")
  | some "pipe" =>
    applyOps m ((parseItems ws).map fun it => .req (m.sess it.c false) ⟨it.id, it.route, it.pay.toModel⟩)
  | some "adv" => applyOps m [.adv 5000]
  | some "flush" =>
    let (m', obs) := applyOps m [.adv 45000]
    (m', if sharedAgrees m' then obs else obs ++ " shared-model-diverges")
  | _ => (m, "bad-op")

/-! ### spec mode: the property on the implementation's own observations -/

/-- what the property lets the client see in answer to one request -/
inductive Expect
  | data (svc method : String) (v : Nat)          -- exactly these bytes, from this service
  | error                                          -- an error response
  | dataOrError (svc method : String) (v : Nat)    -- a forwarded handler slower than the request timeout
  | errorOrBlank                                   -- a forwarded handler whose result cannot be marshalled:
                                                   -- the property asks for an error, the code relays an empty success
  deriving DecidableEq

structure Outst where
  c : Nat
  id : Nat
  route : String
  expect : Expect
  /-- why no data is expected, for the signature of an unanswered request -/
  cls : String
  /-- sent before the owner processed the session-add (op `pipe`) -/
  early : Bool := false

structure Sent where
  v : Nat
  notify : Bool
  target : Option String
  deliverable : Bool
  cnt : Nat := 0
  desc : String

structure SState where
  keys : List (Nat × String) := []
  outst : List Outst := []
  answered : List (Nat × Nat) := []
  sent : List Sent := []
  hsing : List Nat := []
  n2 : Nat := 1

def zooMethods : List String := ["echo", "fail", "boom", "slow", "late", "s29", "s33", "tell", "nan", "fail0", "login", "loginw",
  "okboom", "mboom", "slowboom"]

/-- the service a route's type names for this client (the tie's routing rules, stated directly) -/
def namedService (keys : List (Nat × String)) (n2 : Nat) (c : Nat) (t : String) : Option String :=
  if t = "gate" then some "gate-1"
  -- no rule for hall: the first WORKING instance (n2's hall-2 is listed first)
  else if t = "hall" then some (if n2 = 1 then "hall-2" else "hall-1")
  -- chat: the rule names the instance; it is used whatever the state of its node
  else if t = "chat" then
    match (keys.find? (·.1 = c)).map (·.2) with
    | some k => if k = "chat-1" ∨ k = "chat-2" then some k else none
    | none => none
  else none

def payV : Pay → Option Nat
  | .v n => some n
  | .null => some 0
  | _ => none

def classify (keys : List (Nat × String)) (n2 : Nat) (it : Item) : Expect × String × Option String × Bool :=
  match it.route.splitOn "." with
  | [t, g, m] =>
    match namedService keys n2 it.c t with
    | none => (.error, "no-target", none, false)
    | some svc =>
      -- group zoob exists at the back-end types only
      let known := (g = "zoo" ∧ zooMethods.contains m) ∨ (g = "zoob" ∧ t ≠ "gate" ∧ (m = "hang" ∨ m = "okboom"))
      match payV it.pay with
      | none => (.error, if known then "undecodable" else "unknown-method", some svc, false)
      | some v =>
        if ¬ known then (.error, "unknown-method", some svc, false)
        else if g = "zoob" ∧ m = "hang" then (.error, "silent-handler", some svc, true)
        else if m = "tell" then (.error, "notify-method", some svc, true)
        -- mboom: the handler's result makes the completion function panic — a handler failure
        else if m = "fail" ∨ m = "boom" ∨ m = "mboom" then (.error, "handler-failure", some svc, true)
        else if m = "nan" ∨ m = "fail0" then ((if t = "gate" then .error else .errorOrBlank), "handler-failure", some svc, true)
        else if (m = "late" ∨ m = "s33") ∧ t ≠ "gate" then (.dataOrError svc m v, "slow-handler", some svc, true)
        else (.data svc m v, "", some svc, true)
  | _ => (.error, "no-target", none, false)

def parseWire (s : String) : Option (Nat × String × Nat × Bool × String) :=
  match s.splitOn ":" with
  | [c, kind, id, err, hex] =>
    match c.toNat?, id.toNat? with
    | some c, some id => some (c, kind, id, err = "1", hex)
    | _, _ => none
  | _ => none

def parseInv (s : String) : Option (String × String × Nat) :=
  match s.splitOn ":" with
  | [svc, m, v] => v.toNat?.map fun v => (svc, m, v)
  | _ => none

def csv (s : String) : List String := if s = "" then [] else s.splitOn ","

def removeFirst {α : Type} (p : α → Bool) : List α → List α
  | [] => []
  | x :: xs => if p x then xs else x :: removeFirst p xs

/-- the service name inside a data payload `{"s":"<svc>",…` (hex) -/
def originOfHex (hex : String) : String :=
  match bytesOfHex hex with
  | none => "?"
  | some bs =>
    let cs := bs.map Char.ofNat
    let rest := cs.drop 6          -- {"s":"
    String.ofList (rest.takeWhile (· ≠ '"'))

def checkResp (st : SState) (w : Nat × String × Nat × Bool × String) : SState × Option String :=
  let (c, kind, id, err, hex) := w
  if kind ≠ "resp" then (st, none)
  else if id = 0 then (st, some s!"C02/notify-answered a response with id 0 was written on c{c}")
  else
    match st.outst.find? (fun o => o.c = c ∧ o.id = id) with
    | none =>
      -- D19: a pending request of this connection with id ≥ 2^32 whose low 32 bits are this id
      if let some o := st.outst.find? (fun o => o.c = c ∧ idWrap ≤ o.id ∧ o.id % idWrap = id) then
        ({ st with outst := removeFirst (fun x => x.c = c ∧ x.id = o.id) st.outst, answered := (c, o.id) :: st.answered },
         some s!"C02/request-id-truncated c{c} id={o.id} route={o.route} was answered with id {id} (= id mod 2^32)")
      else if st.answered.contains (c, id) then
        (st, some s!"C02/response-duplicated c{c} id={id} was answered more than once")
      else (st, some s!"C02/response-duplicated c{c} received a response id={id} to a request it has not pending")
    | some o =>
      let st' := { st with outst := removeFirst (fun o => o.c = c ∧ o.id = id) st.outst, answered := (c, id) :: st.answered }
      let okData (svc m : String) (v : Nat) : Option String :=
        if err then some s!"C02/reply-altered c{c} id={id} route={o.route}: the handler's result was replaced by an error"
        else if hex = hexOfString (jsonOf svc m v) then none
        else if originOfHex hex ≠ svc then
          some s!"C02/wrong-service-answered c{c} id={id} route={o.route}: answered by {originOfHex hex}, the route names {svc}"
        else some s!"C02/reply-altered c{c} id={id} route={o.route}: payload {hex} is not what {svc} returned"
      match o.expect with
      | .data svc m v => (st', okData svc m v)
      | .dataOrError svc m v => (st', if err then none else okData svc m v)
      | .errorOrBlank =>
        if err ∨ hex = "" then (st', none)
        else (st', some s!"C02/reply-altered c{c} id={id} route={o.route} ({o.cls}): data {hex} instead of an error response")
      | .error =>
        if err then (st', none)
        else if o.cls = "no-target" then
          (st', some s!"C02/wrong-service-answered c{c} id={id} route={o.route}: answered by {originOfHex hex} although the route names no reachable service")
        else (st', some s!"C02/reply-altered c{c} id={id} route={o.route} ({o.cls}): data {hex} instead of an error response")

def checkInv (st : SState) (x : String × String × Nat) : SState × Option String :=
  let (svc, m, v) := x
  if v = 0 then (st, none)
  else
    match st.sent.find? (·.v = v) with
    | none => (st, some s!"C02/wrong-service-answered handler {svc}:{m} ran for v={v} which no client sent")
    | some e =>
      let st' := { st with sent := st.sent.map fun e => if e.v = v then { e with cnt := e.cnt + 1 } else e }
      if e.target ≠ some svc then
        (st', some s!"C02/wrong-service-answered {e.desc}: handler ran at {svc}, the route names {e.target.getD "no service"}")
      else (st', none)

def firstSome : List (Option String) → Option String
  | [] => none
  | some x :: _ => some x
  | none :: xs => firstSome xs

/-- the violation to report for one observation: an ordinary one if there is any, else the known
finding D19 -/
def pickViolation (vs : List (Option String)) : Option String :=
  let all := vs.filterMap id
  -- two responses for one request in one observation arrive sorted, not in wire order: name the duplicate
  match all.find? (fun t => t.startsWith "C02/response-duplicated") with
  | some t => some t
  | none =>
    match all.find? (fun t => ¬ t.startsWith "C02/request-id-truncated") with
    | some t => some t
    | none => all.head?

def checkFlush (st : SState) : List (Option String) :=
  (st.outst.map fun o =>
    if idWrap ≤ o.id ∧ o.id % idWrap = 0 then
      some s!"C02/request-id-truncated c{o.c} id={o.id} route={o.route} was handled as a notification (id mod 2^32 = 0) and never answered"
    -- D20 could only lose the reply of a FORWARDED request with a reachable target
    else if o.early ∧ o.cls ≠ "no-target" ∧ ¬ o.route.startsWith "gate." then
      some s!"C02/pipelined-request-unanswered c{o.c} id={o.id} route={o.route}: sent right behind the handshake, before the front had registered the session; got no response within 45 s"
    else
      let sfx := if o.cls = "no-target" then "-no-target" else if o.cls = "notify-method" then "-notify-method" else ""
      some s!"C02/request-unanswered{sfx} c{o.c} id={o.id} route={o.route} got no response within 45 s") ++
  (st.sent.map fun e =>
    if e.notify then
      let want := if e.deliverable then 1 else 0
      if e.cnt ≠ want then
        some s!"C02/notify-not-delivered-once {e.desc}: handler ran {e.cnt} time(s), expected {want}"
      else none
    else if e.cnt > 1 then some s!"C02/response-duplicated {e.desc}: handler ran {e.cnt} times"
    else none)

def parseObs (obs : String) : Option (List String × List String) :=
  let ws := words obs
  match kv ws "r", kv ws "i" with
  | some r, some i => some (csv r, csv i)
  | _, _ => none

def observe (st : SState) (obs : String) (isFlush : Bool) : SState × String :=
  match parseObs obs with
  | none => (st, "ok")          -- harness death etc. is reported by the pipeline itself
  | some (rs, is) =>
    let (st1, v1) := rs.foldl (fun (acc : SState × List (Option String)) r =>
      match parseWire r with
      | none => acc
      | some w => let (s', v) := checkResp acc.1 w; (s', acc.2 ++ [v])) (st, [])
    let (st2, v2) := is.foldl (fun (acc : SState × List (Option String)) r =>
      match parseInv r with
      | none => acc
      | some x => let (s', v) := checkInv acc.1 x; (s', acc.2 ++ [v])) (st1, [])
    let vf := if isFlush then checkFlush st2 else []
    match pickViolation (v1 ++ v2 ++ vf) with
    | some t => (st2, "VIOLATION " ++ t)
    | none => (st2, "ok")

def specReqs (st : SState) (ws : List String) (obs : String) (early : Bool) : SState × String :=
  -- data packets on a connection that is re-handshaking are ignored by the session's reader
  let st' := ((parseItems ws).filter fun it => ¬ st.hsing.contains it.c).foldl (fun (st : SState) it =>
    let (ex, cls, tgt, deliverable) := classify st.keys st.n2 it
    let desc := s!"c{it.c} id={it.id} route={it.route}"
    let st := match payV it.pay with
      | some v => if v = 0 then st else
        { st with sent := ⟨v, it.id = 0, tgt, deliverable, 0, desc⟩ :: st.sent }
      | none => st
    if it.id = 0 then st
    else { st with outst := st.outst ++ [⟨it.c, it.id, it.route, ex, cls, early⟩] }) st
  observe st' obs false

def specStep (st : SState) (line : String) : SState × String :=
  match line.splitOn "\t" with
  | [op, obs] =>
    let ws := words op
    match ws.head? with
    | some "reset" | some "join" =>
      let st' : SState := if ws.head? = some "reset" then {} else st
      -- every connection the acceptor queued must have been turned into exactly one session that
      -- answers the handshake (the harness lists the ones that were not: conn=<c>:<sessions>:<handshakes>,…)
      match kv (words obs) "conn" with
      | some bad =>
        let first := (bad.splitOn ",").headD ""
        let (c, n) := match first.splitOn ":" with
          | c :: n :: _ => (c, n)
          | _ => ("?", "?")
        (st', s!"VIOLATION C02/connection-not-served c{c}: the accept loop built {n} session(s) on this accepted connection (all: {bad}); its requests can not get exactly one response")
      | none => (st', "ok")
    | some "bind" =>
      match kvNat ws "c", kv ws "to" with
      | some c, some t => ({ st with keys := (c, if t = "-" then "" else t) :: st.keys.filter (·.1 ≠ c) }, "ok")
      | _, _ => (st, "ok")
    | some "hs" =>
      match kvNat ws "c" with
      | some c => ({ st with hsing := c :: st.hsing.filter (· ≠ c) }, "ok")
      | none => (st, "ok")
    | some "ack" =>
      match kvNat ws "c" with
      | some c => ({ st with hsing := st.hsing.filter (· ≠ c) }, "ok")
      | none => (st, "ok")
    | some "topo" => ({ st with n2 := (kvNat ws "n2").getD st.n2 }, "ok")
    | some "reqs" | some "flood" => specReqs st ws obs false
    | some "pipe" =>
      match kv (words obs) "conn" with
      | some bad => (st, s!"VIOLATION C02/connection-not-served the accept loop did not build exactly one session on the new connection ({bad})")
      | none => specReqs st ws obs true
    | some "frame" => (st, specFrame ws obs)
    | some "adv" => observe st obs false
    | some "flush" => observe st obs true
    | _ => (st, "ok")
  | _ => (st, "ok")

end Cell2v.Driver.C02

open Cell2v.Driver Cell2v.Driver.C02 in
def main (args : List String) : IO Unit := do
  match args with
  | ["model"] => runLoop modelStep {}
  | ["spec"] => runLoop specStep {}
  | _ => IO.eprintln "usage: modeld_c02 model|spec"
