/-
Line-protocol helpers shared by every model driver (core Lean only, so the
drivers link as `lean_exe`).  One operation per input line, one observation
per output line.  Tokens are separated by single spaces; `key=value` pairs
may have an empty value.
-/
namespace Cell2v.Driver

abbrev Bytes := List Nat

def hexDigit (n : Nat) : Char :=
  if n < 10 then Char.ofNat (48 + n) else Char.ofNat (87 + n)

def hexOfBytes (bs : Bytes) : String :=
  String.ofList (bs.foldr (fun b acc => hexDigit (b / 16 % 16) :: hexDigit (b % 16) :: acc) [])

def hexVal (c : Char) : Option Nat :=
  if '0' ≤ c ∧ c ≤ '9' then some (c.toNat - 48)
  else if 'a' ≤ c ∧ c ≤ 'f' then some (c.toNat - 87)
  else if 'A' ≤ c ∧ c ≤ 'F' then some (c.toNat - 55)
  else none

def bytesOfHexAux : List Char → Bytes → Option Bytes
  | [], acc => some acc.reverse
  | [_], _ => none
  | a :: b :: rest, acc =>
    match hexVal a, hexVal b with
    | some x, some y => bytesOfHexAux rest ((x * 16 + y) :: acc)
    | _, _ => none

def bytesOfHex (s : String) : Option Bytes := bytesOfHexAux s.toList []

def words (line : String) : List String :=
  (line.splitOn " ").filter (· ≠ "")

/-- `key=value` lookup among the tokens of a line. -/
def kv (ws : List String) (key : String) : Option String :=
  ws.findSome? fun w =>
    if w.startsWith (key ++ "=") then some ((w.drop (key.length + 1)).toString) else none

def kvNat (ws : List String) (key : String) : Option Nat := (kv ws key).bind String.toNat?

def kvHex (ws : List String) (key : String) : Option Bytes := (kv ws key).bind bytesOfHex

def stripNL (s : String) : String :=
  let s := if s.endsWith "\n" then (s.dropEnd 1).toString else s
  if s.endsWith "\r" then (s.dropEnd 1).toString else s

/-- Generic stateful loop: `step state line = (state', output)`. -/
partial def loop {σ : Type} (h : IO.FS.Stream) (out : IO.FS.Stream) (step : σ → String → σ × String) (s : σ) : IO Unit := do
  let line ← h.getLine
  if line.isEmpty then
    out.flush
    return ()
  let (s', o) := step s (stripNL line)
  out.putStrLn o
  loop h out step s'

def runLoop {σ : Type} (step : σ → String → σ × String) (init : σ) : IO Unit := do
  loop (← IO.getStdin) (← IO.getStdout) step init

end Cell2v.Driver
