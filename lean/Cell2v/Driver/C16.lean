import Cell2v.Driver.Util
import Cell2v.Model.Channel
/-!
Model driver for C16.

`modeld_c16 model` : one op line in, one observation line out (state threaded; a
case starts with `reset local=<front>`).
`modeld_c16 spec`  : lines `op\tobs` in, `ok` or `VIOLATION C16/<reason> <text>` out —
the property itself evaluated on what the implementation did.  The monitor keeps
its own flat bookkeeping (one id list per (channel, front) pair, the set of
existing channel names, the set of live sessions) directly from the op stream; it
does not use the model's state or functions.

Op lines (`ch=@k` names the temp channel of slot k):
  reset local=F | addch ch=C | getch ch=C | delch ch=C | join ch=C front=F id=N |
  leave ch=C front=F id=N | bcast ch=C route=R msg=M | alloctemp slot=K | freetemp slot=K |
  sadd | sdel id=N | spush ids=N,N route=R data=HEX | syspush ids=.. route=R data=HEX
-/
namespace Cell2v.Driver.C16
open Cell2v.Driver Cell2v.Channel

def parseU32 (s : String) : Option Nat :=
  let cs := s.toList
  if cs.isEmpty || !cs.all Char.isDigit then none
  else
    let n := cs.foldl (fun a c => a * 10 + (c.toNat - 48)) 0
    if n < 2 ^ 32 then some n else none

def parseIds (s : String) : Option (List Nat) :=
  if s.isEmpty then some []
  else (s.splitOn ",").foldr (fun w acc => match parseU32 w, acc with
    | some n, some l => some (n :: l)
    | _, _ => none) (some [])

def showIds (l : List Nat) : String := ",".intercalate (l.map toString)

/-- the client serializer: JSON of a string made of `[A-Za-z0-9._-]` -/
def ser (msg : String) : List Nat := [34] ++ msg.toUTF8.toList.map (·.toNat) ++ [34]

def showPush (p : Push) : String := s!"push front={p.front} ids={showIds p.ids} route={p.route} msg={p.msg}"

def showDl (dl : List Delivery) : String :=
  "dl=" ++ ",".intercalate (dl.map fun d => s!"{d.id}:{d.route}:{hexOfBytes d.data}")

def insertPush (p : Push) : List Push → List Push
  | [] => [p]
  | q :: l => if p.front < q.front then p :: q :: l else q :: insertPush p l

def sortPushes (ps : List Push) : List Push := ps.foldr insertPush []

def showObs : Obs → String
  | .ok => "ok"
  | .chan uid => s!"ch={uid}"
  | .nil => "nil"
  | .pushes ps dl =>
    -- tuples with an empty id list reach nobody: whether they are sent is not observed,
    -- only that no front is addressed twice (`once=1`, evaluated over all tuples)
    let ne := ps.filter (fun p => !p.ids.isEmpty)
    let fronts := ps.map (·.front)
    s!"n={ne.length}" ++ String.join ((sortPushes ne).map fun p => " ; " ++ showPush p) ++
      " | once=" ++ (if fronts.eraseDups.length == fronts.length then "1" else "0") ++ " " ++ showDl dl
  | .added id live => s!"id={id} live={showIds live}"
  | .removed found live => (if found then "ok" else "missing") ++ s!" live={showIds live}"
  | .delivered dl => showDl dl

/-- parsed op line -/
inductive Cmd
  | reset (lf : String)
  | op (o : Op)
  | alloc (slot : String)
  | free (slot : String)
  | syspush (o : Op)
  | bad

def parseCmd (line : String) : Cmd :=
  let ws := words line
  match ws.head? with
  | some "reset" => match kv ws "local" with | some lf => .reset lf | none => .bad
  | some "addch" => match kv ws "ch" with | some c => .op (.addch c) | none => .bad
  | some "getch" => match kv ws "ch" with | some c => .op (.getch c) | none => .bad
  | some "delch" => match kv ws "ch" with | some c => .op (.delch c) | none => .bad
  | some "join" =>
    match kv ws "ch", kv ws "front", (kv ws "id").bind parseU32 with
    | some c, some f, some x => .op (.join c f x)
    | _, _, _ => .bad
  | some "leave" =>
    match kv ws "ch", kv ws "front", (kv ws "id").bind parseU32 with
    | some c, some f, some x => .op (.leave c f x)
    | _, _, _ => .bad
  | some "bcast" =>
    match kv ws "ch", kv ws "route", kv ws "msg" with
    | some c, some r, some m => .op (.bcast c r m)
    | _, _, _ => .bad
  | some "alloctemp" => match kv ws "slot" with | some k => .alloc k | none => .bad
  | some "freetemp" => match kv ws "slot" with | some k => .free k | none => .bad
  | some "sadd" => .op .sadd
  | some "sdel" => match (kv ws "id").bind parseU32 with | some x => .op (.sdel x) | none => .bad
  | some "spush" =>
    match (kv ws "ids").bind parseIds, kv ws "route", kvHex ws "data" with
    | some ids, some r, some d => .op (.spush ids r d)
    | _, _, _ => .bad
  | some "syspush" =>
    match (kv ws "ids").bind parseIds, kv ws "route", kvHex ws "data" with
    | some ids, some r, some d => .syspush (.spush ids r d)
    | _, _, _ => .bad
  | _ => .bad

structure DSt where
  st : St := init ""
  slots : List String := []

def stepLine (d : DSt) (line : String) : DSt × String :=
  match parseCmd line with
  | .reset lf => ({ st := init lf, slots := [] }, "ok")
  | .op o => let r := step ser d.st o; ({ d with st := r.1 }, showObs r.2)
  | .syspush o => let r := step ser d.st o; ({ d with st := r.1 }, showObs r.2 ++ " cb=1")
  | .alloc k =>
    if d.slots.contains k then (d, "bad-op")
    else
      let r := step ser d.st (.addch ("@" ++ k))
      ({ st := r.1, slots := k :: d.slots }, showObs r.2)
  | .free k =>
    if d.slots.contains k then
      let r := step ser d.st (.delch ("@" ++ k))
      ({ d with st := r.1 }, showObs r.2)
    else (d, "bad-op")
  | .bad => (d, "bad-op")

/-! ### the property predicate on implementation observations -/

structure Spec where
  lf : String := ""
  chans : List (String × Nat) := []                  -- existing channel names and their identity
  grp : List ((String × String) × List Nat) := []    -- (channel, front) ↦ listed ids; present = addressed
  created : Nat := 0
  live : List Nat := []
  slots : List String := []
  dead : Bool := false                               -- a crash was reported: nothing more is judged until the next reset

def Spec.group (s : Spec) (c f : String) : Option (List Nat) :=
  (s.grp.find? (fun e => e.1.1 == c && e.1.2 == f)).map (·.2)

def Spec.setGroup (s : Spec) (c f : String) (l : List Nat) : Spec :=
  if (s.group c f).isSome then
    { s with grp := s.grp.map fun e => if e.1.1 == c && e.1.2 == f then (e.1, l) else e }
  else { s with grp := s.grp ++ [((c, f), l)] }

def Spec.uidOf (s : Spec) (c : String) : Option Nat := (s.chans.find? (·.1 == c)).map (·.2)

def Spec.create (s : Spec) (c : String) : Spec :=
  { s with chans := s.chans ++ [(c, s.created + 1)], created := s.created + 1 }

def Spec.delete (s : Spec) (c : String) : Spec :=
  { s with chans := s.chans.filter (·.1 != c), grp := s.grp.filter (·.1.1 != c) }

def hasSub (s sub : String) : Bool := (s.splitOn sub).length > 1

/-- parse `push front=F ids=.. route=R msg=M` segments of a broadcast observation -/
def parsePushSeg (seg : String) : Option Push :=
  let ws := words seg
  match ws.head?, kv ws "front", (kv ws "ids").bind parseIds, kv ws "route", kv ws "msg" with
  | some "push", some f, some ids, some r, some m => some ⟨f, ids, r, m⟩
  | _, _, _, _, _ => none

def parseDl (s : String) : Option (List (Nat × String × String)) :=
  if s.isEmpty then some []
  else (s.splitOn ",").foldr (fun w acc => match w.splitOn ":", acc with
    | [i, r, h], some l => (parseU32 i).map fun n => (n, r, h) :: l
    | _, _ => none) (some [])

def expectDl (live ids : List Nat) (route dataHex : String) : List (Nat × String × String) :=
  (ids.filter (fun i => live.contains i)).map fun i => (i, route, dataHex)

def countOf (l : List Nat) (x : Nat) : Nat := (l.filter (· == x)).length

def classifyIds (got want : List Nat) : String :=
  if got.any (fun x => countOf got x > countOf want x) then "removed-or-foreign-id-listed"
  else if want.any (fun x => countOf got x < countOf want x) then "member-not-listed"
  else "not-join-order"

def checkUid (s : Spec) (c : String) (obs : String) (creates : Bool) : Option String :=
  match s.uidOf c with
  | some u => if obs == s!"ch={u}" then none else some s!"channel-map-law existing channel {c} is #{u} but got {obs}"
  | none =>
    if creates then
      if obs == s!"ch={s.created + 1}" then none else some s!"channel-map-law new channel {c} must be a fresh object #{s.created + 1}, got {obs}"
    else if obs == "nil" then none else some s!"channel-map-law missing channel {c} fetched as {obs}"

def viol (reason op : String) : String := "VIOLATION C16/" ++ reason ++ " | op: " ++ op

/-- resolve `@k` — the monitor uses the same naming as the op stream -/
def specStep (s : Spec) (line : String) : Spec × String :=
  match line.splitOn "\t" with
  | [op, obs] =>
    if s.dead && !op.startsWith "reset" then (s, "ok")
    else if obs.startsWith "panic" || obs.startsWith "<no-observation" then ({ s with dead := true }, viol ("crash " ++ obs) op)
    else
    let ws := words op
    let out (s' : Spec) (r : Option String) : Spec × String :=
      (s', match r with | none => "ok" | some why => viol why op)
    match parseCmd op with
    | .bad => (s, "ok")
    | .reset lf => ({ lf := lf }, "ok")
    | .alloc k =>
      if s.slots.contains k then (s, "ok")
      else
        let c := "@" ++ k
        let r := checkUid s c obs true
        let s1 := if (s.uidOf c).isSome then s else s.create c
        out { s1 with slots := k :: s1.slots } r
    | .free k =>
      if s.slots.contains k then out (s.delete ("@" ++ k)) (if obs == "ok" then none else some ("delete-failed " ++ obs))
      else (s, "ok")
    | .op (.addch c) =>
      let r := checkUid s c obs true
      out (if (s.uidOf c).isSome then s else s.create c) r
    | .op (.getch c) => out s (checkUid s c obs false)
    | .op (.delch c) => out (s.delete c) (if obs == "ok" then none else some ("delete-failed " ++ obs))
    | .op (.join c f x) =>
      let r := checkUid s c obs true
      let s1 := if (s.uidOf c).isSome then s else s.create c
      out (s1.setGroup c f ((s1.group c f).getD [] ++ [x])) r
    | .op (.leave c f x) =>
      let s1 := match s.group c f with
        | some l => s.setGroup c f (l.erase x)
        | none => s
      out s1 (if obs == "ok" then none else some ("leave-failed " ++ obs))
    | .op (.bcast c route msg) =>
      match s.uidOf c with
      | none =>
        out s (if obs == "nil" then none
               else some s!"deleted-or-unknown-channel-addressed channel {c} does not exist but the broadcast produced: {obs}")
      | some _ =>
        if obs == "nil" then out s (some s!"existing-channel-not-found channel {c} exists")
        else
        match obs.splitOn " | " with
        | [left, right] =>
          let segs := (left.splitOn " ; ").drop 1
          let rws := words right
          match segs.mapM parsePushSeg, (kv rws "dl").bind parseDl, kv rws "once" with
          | some ps, some dl, some once =>
            let fronts := ps.map (·.front)
            -- fronts the property wants addressed: those with at least one listed id
            let want := (s.grp.filter (fun e => e.1.1 == c && !e.2.isEmpty)).map (·.1.2)
            let listedFor (f : String) : List Nat := (s.group c f).getD []
            let r : Option String :=
              if once != "1" || fronts.eraseDups.length != fronts.length then
                some s!"front-addressed-twice a front-end is addressed more than once in one broadcast: {obs}"
              else match want.find? (fun f => !fronts.contains f) with
              | some f => some s!"front-not-addressed front {f} has members [{showIds (listedFor f)}] in {c} but got no push: {obs}"
              | none =>
              match ps.find? (fun p => listedFor p.front != p.ids) with
              | some p =>
                some s!"{classifyIds p.ids (listedFor p.front)} front {p.front}: listed [{showIds p.ids}] but members in join order are [{showIds (listedFor p.front)}]"
              | none =>
              match ps.find? (fun p => p.route != route || p.msg != msg) with
              | some p => some s!"wrong-route-or-payload {showPush p}"
              | none =>
                let wantDl := expectDl s.live (listedFor s.lf) route (hexOfBytes (ser msg))
                if dl == wantDl then none
                else some s!"local-delivery-mismatch connections of {s.lf} received [{right}] but listed are [{showIds (listedFor s.lf)}] and live sessions are [{showIds s.live}]"
            out s r
          | _, _, _ => out s (some ("unparseable-observation " ++ obs))
        | _ => out s (some ("unparseable-observation " ++ obs))
    | .op .sadd =>
      match (kv (words obs) "id").bind parseU32, (kv (words obs) "live").bind parseIds with
      | some id, some live =>
        let r := if id == 0 || s.live.contains id then some s!"session-id-not-fresh {obs}"
                 else if live != s.live ++ [id] then some s!"session-set-mismatch {obs}" else none
        out { s with live := s.live ++ [id] } r
      | _, _ => out s (some ("unparseable-observation " ++ obs))
    | .op (.sdel id) =>
      let found := s.live.contains id
      let s1 := { s with live := s.live.erase id }
      let wantObs := (if found then "ok" else "missing") ++ s!" live={showIds s1.live}"
      out s1 (if obs == wantObs then none else some s!"session-set-mismatch want [{wantObs}] got [{obs}]")
    | .op (.spush ids route data) =>
      let w := "dl=" ++ ",".intercalate ((expectDl s.live ids route (hexOfBytes data)).map fun d => s!"{d.1}:{d.2.1}:{d.2.2}")
      out s (if obs == w then none else some s!"front-fanout-mismatch want [{w}] got [{obs}] live [{showIds s.live}]")
    | .syspush (.spush ids route data) =>
      let w := "dl=" ++ ",".intercalate ((expectDl s.live ids route (hexOfBytes data)).map fun d => s!"{d.1}:{d.2.1}:{d.2.2}")
      let _ := ws
      if obs == w ++ " cb=1" then out s none
      else if obs.startsWith (w ++ " cb=") then out s (some s!"pushmsg-callback-count {obs}")
      else out s (some s!"front-fanout-mismatch want [{w} cb=1] got [{obs}] live [{showIds s.live}]")
    | .syspush _ => (s, "ok")
  | _ => (s, "bad-line")

end Cell2v.Driver.C16

open Cell2v.Driver in
def main (args : List String) : IO Unit :=
  match args with
  | ["spec"] => runLoop Cell2v.Driver.C16.specStep {}
  | _ => runLoop Cell2v.Driver.C16.stepLine {}
