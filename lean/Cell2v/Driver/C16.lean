import Cell2v.Driver.Util
import Cell2v.Model.Channel
/-!
Model driver for C16.

`modeld_c16 model` : one op line in, one observation line out (state threaded; a
case starts with `reset local=<front>`).
`modeld_c16 spec`  : lines `op\tobs` in, `ok` or `VIOLATION C16/<reason> <text>` out —
the property itself evaluated on what the implementation did.  The monitor keeps
its own flat bookkeeping (one id list per (channel, front) pair, the set of
existing channel names, the set of live sessions) directly from the op stream; it
does not use the model's state or functions.

Op lines (`ch=@k` names the temp channel of slot k):
  reset local=F [second=G] [nosess=1: the issuing service has no "sessions" component] | addch ch=C | getch ch=C | delch ch=C | join ch=C front=F id=N |
  leave ch=C front=F id=N | bcast ch=C route=R msg=M | alloctemp slot=K | freetemp slot=K |
  sadd | sdel id=N | sclose id=N (the socket of a registered connection closes: its Push fails) | spush ids=N,N route=R data=HEX | syspush ids=.. route=R data=HEX
large groups (sugar for the obvious sequences of join / leave, observation `ok`):
  joinrange ch=C front=F lo=A hi=B        joins A, A+1, .., B-1
  leaverange ch=C front=F lo=A hi=B dir=up|down   leaves A..B-1 ascending / descending
  leaveids ch=C front=F ids=N,N,..        leaves the ids in list order
operations issued from inside the sessions handler (`self` = the id being handed out):
  saddpush ids=N,self,N route=R data=HEX  AddSession; OnSessionAdd calls ClientSessions.PushMsg
  saddbcast ch=C route=R msg=M            AddSession; OnSessionAdd joins (C, local front, self) and broadcasts on C
  sdelpush id=N ids=.. route=R data=HEX   RemoveSession; OnSessionRemove calls ClientSessions.PushMsg
two front-end services in one process: `reset local=F second=G` adds a second front-end service G
(own ClientSessions, numbering its connections from 2 as well); `sadd|sdel|spush|syspush ... at=b`
address it (`syspush` through the one `sys` entry object both services share).  The directory knows
the services f1, f2, f3.  A broadcast observation ends with `sent=` — the `sys.pushmsg` requests
`impls.PushMessageByIds` sent onward (front/ids/route/payload, non-empty lists only, sorted by front) —
and `dlb=` — what the connections of the second front-end received from them.
direct pushes (no channel): `dpush front=F ids=N,N route=R msg=M` = channel.Service.PushMessageByIds,
`dpush1 front=F id=N route=R msg=M` = channel.Service.PushMessageById (through the real impls single-id path);
observation as for `bcast` plus ` cb=<completions of the callback>`.  `msg=~inf` (in any broadcast or direct
push) stands for a value the client serializer rejects: the push goes out with empty data.
retained channel handles (`h=N` is the identity of the N-th channel object created in this case — every
creating operation reports it as `ch=N`; an identity not handed out yet makes the line `bad-op`):
  hjoin h=N front=F id=X | hleave h=N front=F id=X     c.Add / c.Leave on the retained *Channel
  hbcast h=N route=R msg=M                             c.PushMessage (observation as for `bcast`)
  hfree h=N                                            Service.FreeTempChannel(c) = DeleteChannel(c.GetName())
The object stays usable after its name was deleted or re-bound; the model is `hstep` (`Model/Channel.lean`).
a membership operation arriving from another goroutine while a broadcast is in flight:
  bcastrace ch=C route=R msg=M front=F act=leave|join id=N
      broadcast on C; when the push layer is handed the tuple for front F (before it reads the id
      list) another goroutine issues leave/join (C, F, N).  The group lock is held across the push
      call, so that operation takes effect only after the tuple was consumed: the model is
      "broadcast (on the snapshot), then the operation".
The model of these is the composition "registration first, then the callback's operations" /
"removal first, then the callback's operations", which is what `AddSession` / `RemoveSession` do.
-/
namespace Cell2v.Driver.C16
open Cell2v.Driver Cell2v.Channel

def parseU32 (s : String) : Option Nat :=
  let cs := s.toList
  if cs.isEmpty || !cs.all Char.isDigit then none
  else
    let n := cs.foldl (fun a c => a * 10 + (c.toNat - 48)) 0
    if n < 2 ^ 32 then some n else none

def parseIds (s : String) : Option (List Nat) :=
  if s.isEmpty then some []
  else (s.splitOn ",").foldr (fun w acc => match parseU32 w, acc with
    | some n, some l => some (n :: l)
    | _, _ => none) (some [])

def showIds (l : List Nat) : String := ",".intercalate (l.map toString)

/-- the client serializer: JSON of a string made of `[A-Za-z0-9._-]` -/
def ser (msg : String) : List Nat :=
  -- `~inf` stands for a value encoding/json rejects (+Inf): the push layer drops the error, the data is empty
  if msg == "~inf" then [] else [34] ++ msg.toUTF8.toList.map (·.toNat) ++ [34]

def showPush (p : Push) : String := s!"push front={p.front} ids={showIds p.ids} route={p.route} msg={p.msg}"

def showDl (dl : List Delivery) : String :=
  "dl=" ++ ",".intercalate (dl.map fun d => s!"{d.id}:{d.route}:{hexOfBytes d.data}")

def insertPush (p : Push) : List Push → List Push
  | [] => [p]
  | q :: l => if p.front < q.front then p :: q :: l else q :: insertPush p l

def sortPushes (ps : List Push) : List Push := ps.foldr insertPush []

def showObs : Obs → String
  | .ok => "ok"
  | .chan uid => s!"ch={uid}"
  | .nil => "nil"
  | .pushes ps dl =>
    -- tuples with an empty id list reach nobody: whether they are sent is not observed,
    -- only that no front is addressed twice (`once=1`, evaluated over all tuples)
    let ne := ps.filter (fun p => !p.ids.isEmpty)
    let fronts := ps.map (·.front)
    s!"n={ne.length}" ++ String.join ((sortPushes ne).map fun p => " ; " ++ showPush p) ++
      " | once=" ++ (if fronts.eraseDups.length == fronts.length then "1" else "0") ++ " " ++ showDl dl
  | .added id live => s!"id={id} live={showIds live}"
  | .removed found live => (if found then "ok" else "missing") ++ s!" live={showIds live}"
  | .delivered dl => showDl dl

/-- the services the cluster directory of the harness knows -/
def directory : List String := ["f1", "f2", "f3"]

def showSent (ps : List Push) : String :=
  "sent=" ++ ";".intercalate (((sortPushes ps).filter (fun p => !p.ids.isEmpty)).map fun p =>
    s!"{p.front}/{showIds p.ids}/{p.route}/{hexOfBytes (ser p.msg)}")

/-- a broadcast observation also tells what was sent onward and what the second front-end's
connections got; everything else is `showObs` -/
def showObsW (st : St) (bname : String) (blive : List Nat) : Obs → String
  | .pushes ps dl =>
    let sent := forwardedFrom st directory ps
    showObs (.pushes ps dl) ++ " " ++ showSent sent ++ " dlb=" ++
      ((showDl (remoteDeliveries ser bname blive sent)).drop 3).toString
  | o => showObs o

/-- parsed op line -/
inductive Cmd
  | reset (lf : String) (second : String) (nosess : Bool)
  | op (o : Op)
  | many (os : List Op)
  | alloc (slot : String)
  | free (slot : String)
  | syspush (o : Op)
  | saddPush (ids : List (Option Nat)) (route : String) (data : List Nat)
  | saddBcast (c route msg : String)
  | sdelPush (id : Nat) (ids : List Nat) (route : String) (data : List Nat)
  | bcastRace (c route msg : String) (after : Op)
  | hop (u : Nat) (o : HOp)
  | dpush (f : String) (ids : List Nat) (route msg : String) (single : Bool)
  | bad

/-- id list in which `self` stands for the id being handed out -/
def parseSelfIds (s : String) : Option (List (Option Nat)) :=
  if s.isEmpty then some []
  else (s.splitOn ",").foldr (fun w acc => match acc with
    | none => none
    | some l => if w == "self" then some (none :: l) else (parseU32 w).map fun n => some n :: l) (some [])

def maxRange : Nat := 5000

def parseCmd (line : String) : Cmd :=
  let ws := words line
  match ws.head? with
  | some "reset" =>
    match kv ws "local" with
    | some lf => let g := (kv ws "second").getD ""; .reset lf (if g == lf then "" else g) (kv ws "nosess" == some "1")
    | none => .bad
  | some "addch" => match kv ws "ch" with | some c => .op (.addch c) | none => .bad
  | some "getch" => match kv ws "ch" with | some c => .op (.getch c) | none => .bad
  | some "delch" => match kv ws "ch" with | some c => .op (.delch c) | none => .bad
  | some "join" =>
    match kv ws "ch", kv ws "front", (kv ws "id").bind parseU32 with
    | some c, some f, some x => .op (.join c f x)
    | _, _, _ => .bad
  | some "leave" =>
    match kv ws "ch", kv ws "front", (kv ws "id").bind parseU32 with
    | some c, some f, some x => .op (.leave c f x)
    | _, _, _ => .bad
  | some "joinrange" =>
    match kv ws "ch", kv ws "front", (kv ws "lo").bind parseU32, (kv ws "hi").bind parseU32 with
    | some c, some f, some lo, some hi =>
      if hi - lo > maxRange then .bad else .many ((List.range (hi - lo)).map fun i => .join c f (lo + i))
    | _, _, _, _ => .bad
  | some "leaverange" =>
    match kv ws "ch", kv ws "front", (kv ws "lo").bind parseU32, (kv ws "hi").bind parseU32, kv ws "dir" with
    | some c, some f, some lo, some hi, some dir =>
      if hi - lo > maxRange then .bad
      else if dir == "up" then .many ((List.range (hi - lo)).map fun i => .leave c f (lo + i))
      else if dir == "down" then .many ((List.range (hi - lo)).reverse.map fun i => .leave c f (lo + i))
      else .bad
    | _, _, _, _, _ => .bad
  | some "leaveids" =>
    match kv ws "ch", kv ws "front", (kv ws "ids").bind parseIds with
    | some c, some f, some ids => .many (ids.map fun x => .leave c f x)
    | _, _, _ => .bad
  | some "bcast" =>
    match kv ws "ch", kv ws "route", kv ws "msg" with
    | some c, some r, some m => .op (.bcast c r m)
    | _, _, _ => .bad
  | some "bcastrace" =>
    match kv ws "ch", kv ws "route", kv ws "msg", kv ws "front", kv ws "act", (kv ws "id").bind parseU32 with
    | some c, some r, some m, some f, some act, some x =>
      if act == "leave" then .bcastRace c r m (.leave c f x)
      else if act == "join" then .bcastRace c r m (.join c f x)
      else .bad
    | _, _, _, _, _, _ => .bad
  | some "hjoin" =>
    match (kv ws "h").bind parseU32, kv ws "front", (kv ws "id").bind parseU32 with
    | some u, some f, some x => .hop u (.hjoin u f x)
    | _, _, _ => .bad
  | some "hleave" =>
    match (kv ws "h").bind parseU32, kv ws "front", (kv ws "id").bind parseU32 with
    | some u, some f, some x => .hop u (.hleave u f x)
    | _, _, _ => .bad
  | some "hbcast" =>
    match (kv ws "h").bind parseU32, kv ws "route", kv ws "msg" with
    | some u, some r, some m => .hop u (.hbcast u r m)
    | _, _, _ => .bad
  | some "hfree" => match (kv ws "h").bind parseU32 with | some u => .hop u (.hfree u) | none => .bad
  | some "dpush" =>
    match kv ws "front", (kv ws "ids").bind parseIds, kv ws "route", kv ws "msg" with
    | some f, some ids, some r, some m => .dpush f ids r m false
    | _, _, _, _ => .bad
  | some "dpush1" =>
    match kv ws "front", (kv ws "id").bind parseU32, kv ws "route", kv ws "msg" with
    | some f, some x, some r, some m => .dpush f [x] r m true
    | _, _, _, _ => .bad
  | some "alloctemp" => match kv ws "slot" with | some k => .alloc k | none => .bad
  | some "freetemp" => match kv ws "slot" with | some k => .free k | none => .bad
  | some "sadd" => .op .sadd
  | some "sdel" => match (kv ws "id").bind parseU32 with | some x => .op (.sdel x) | none => .bad
  | some "sclose" => match (kv ws "id").bind parseU32 with | some x => .op (.sclose x) | none => .bad
  | some "spush" =>
    match (kv ws "ids").bind parseIds, kv ws "route", kvHex ws "data" with
    | some ids, some r, some d => .op (.spush ids r d)
    | _, _, _ => .bad
  | some "syspush" =>
    match (kv ws "ids").bind parseIds, kv ws "route", kvHex ws "data" with
    | some ids, some r, some d => .syspush (.spush ids r d)
    | _, _, _ => .bad
  | some "saddpush" =>
    match (kv ws "ids").bind parseSelfIds, kv ws "route", kvHex ws "data" with
    | some ids, some r, some d => .saddPush ids r d
    | _, _, _ => .bad
  | some "saddbcast" =>
    match kv ws "ch", kv ws "route", kv ws "msg" with
    | some c, some r, some m => .saddBcast c r m
    | _, _, _ => .bad
  | some "sdelpush" =>
    match (kv ws "id").bind parseU32, (kv ws "ids").bind parseIds, kv ws "route", kvHex ws "data" with
    | some id, some ids, some r, some d => .sdelPush id ids r d
    | _, _, _, _ => .bad
  | _ => .bad

structure DSt where
  hs : HSt := hinit ""
  slots : List String := []
  b : Front := ⟨[], 1, []⟩        -- the second front-end service's sessions
  bname : String := ""        -- its name ("" = there is none)

/-- a by-name operation, through the handle model (so that a deleted object is kept for its holders) -/
def nstep (h : HSt) (o : Op) : HSt × Obs := hstep ser h (.name o)

def stepCore (d : DSt) (line : String) : DSt × String :=
  let showObs := showObsW d.hs.st d.bname d.b.reachable
  match parseCmd line with
  | .reset lf g ns =>
    ({ hs := if ns then { st := initBackend lf } else hinit lf, slots := [], b := ⟨[], 1, []⟩, bname := g }, "ok")
  | .op o => let r := nstep d.hs o; ({ d with hs := r.1 }, showObs r.2)
  | .many os => ({ d with hs := hrun ser d.hs (os.map .name) }, "ok")
  | .syspush o =>
    -- sys.pushmsg at a service without a "sessions" component is not exercised (see the check's level_note)
    if d.hs.st.noSessions then (d, "bad-op")
    else let r := nstep d.hs o; ({ d with hs := r.1 }, showObs r.2 ++ " cb=1")
  | .hop u o =>
    -- a handle exists once the object was created
    if u == 0 || u > d.hs.st.svc.created then (d, "bad-op")
    else let r := hstep ser d.hs o; ({ d with hs := r.1 }, showObs r.2)
  | .dpush f ids route msg single =>
    -- Service.PushMessageByIds / PushMessageById: the tuple as given, then the push layer; one callback
    let ps := if single then directPush1 f (ids.headD 0) route msg else directPush f ids route msg
    (d, showObs (directObs ser d.hs.st ps) ++ " cb=1")
  | .alloc k =>
    if d.slots.contains k then (d, "bad-op")
    else
      let r := nstep d.hs (.addch ("@" ++ k))
      ({ d with hs := r.1, slots := k :: d.slots }, showObs r.2)
  | .free k =>
    if d.slots.contains k then
      let r := nstep d.hs (.delch ("@" ++ k))
      ({ d with hs := r.1 }, showObs r.2)
    else (d, "bad-op")
  | .saddPush ids route data =>
    -- AddSession registers the connection, then OnSessionAdd runs the push
    let r1 := nstep d.hs .sadd
    match r1.2 with
    | .added id _ =>
      let r2 := nstep r1.1 (.spush (ids.map fun o => o.getD id) route data)
      ({ d with hs := r2.1 }, showObs r1.2 ++ " " ++ showObs r2.2)
    | _ => (d, "bad-op")
  | .saddBcast c route msg =>
    -- AddSession registers the connection, then OnSessionAdd joins the channel and broadcasts
    let r1 := nstep d.hs .sadd
    match r1.2 with
    | .added id _ =>
      let r2 := nstep r1.1 (.join c r1.1.st.localFront id)
      let r3 := nstep r2.1 (.bcast c route msg)
      ({ d with hs := r3.1 }, showObs r1.2 ++ " " ++ showObs r2.2 ++ " bcast: " ++ showObs r3.2)
    | _ => (d, "bad-op")
  | .sdelPush id ids route data =>
    -- RemoveSession deletes the connection, then (only if it existed) OnSessionRemove runs the push
    let r1 := nstep d.hs (.sdel id)
    match r1.2 with
    | .removed true _ =>
      let r2 := nstep r1.1 (.spush ids route data)
      ({ d with hs := r2.1 }, showObs r1.2 ++ " " ++ showObs r2.2)
    | _ => ({ d with hs := r1.1 }, showObs r1.2 ++ " dl=")
  | .bcastRace c route msg o =>
    -- the push consumes the snapshot; the concurrent operation takes effect afterwards
    let r1 := nstep d.hs (.bcast c route msg)
    let r2 := nstep r1.1 o
    ({ d with hs := r2.1 }, showObs r1.2)
  | .bad => (d, "bad-op")

def sessionHeads : List String := ["sadd", "sdel", "sclose", "spush", "syspush"]

/-- `at=b` on a session operation: the same operation on the second front-end's sessions -/
def atB (line : String) : Option (Option String) :=
  let ws := words line
  if sessionHeads.contains (ws.head?.getD "") then
    match kv ws "at" with
    | none => some none
    | some "a" => some none
    | some "b" => some (some (" ".intercalate (ws.filter (· != "at=b"))))
    | some _ => Option.none
  else some none

def withFront (h : HSt) (fr : Front) (ns : Bool) : HSt := { h with st := { h.st with front := fr, noSessions := ns } }

def stepLine (d : DSt) (line : String) : DSt × String :=
  match atB line with
  | none => (d, "bad-op")
  | some none => stepCore d line
  | some (some inner) =>
    if d.bname == "" then (d, "bad-op")
    else
      -- the second front-end service always has the component
      let r := stepCore { d with hs := withFront d.hs d.b false, b := d.hs.st.front } inner
      ({ r.1 with hs := withFront r.1.hs d.hs.st.front d.hs.st.noSessions, b := r.1.hs.st.front }, r.2)

/-! ### the property predicate on implementation observations -/

structure Spec where
  lf : String := ""
  chans : List (String × Nat) := []                  -- existing channel names and the object each denotes
  names : List (Nat × String) := []                  -- every object created so far and the name it was created under
  grp : List ((Nat × String) × List Nat) := []       -- (object, front) ↦ listed ids; present = addressed
  created : Nat := 0
  live : List Nat := []
  closed : List Nat := []                            -- registered connections whose socket has closed
  liveB : List Nat := []                             -- live connections of the second front-end service
  closedB : List Nat := []
  bname : String := ""
  slots : List String := []
  nosess : Bool := false                             -- the issuing service has no "sessions" component
  dead : Bool := false                               -- a crash was reported: nothing more is judged until the next reset

def Spec.uidOf (s : Spec) (c : String) : Option Nat := (s.chans.find? (·.1 == c)).map (·.2)

def Spec.groupU (s : Spec) (u : Nat) (f : String) : Option (List Nat) :=
  (s.grp.find? (fun e => e.1.1 == u && e.1.2 == f)).map (·.2)

def Spec.group (s : Spec) (c f : String) : Option (List Nat) := (s.uidOf c).bind fun u => s.groupU u f

def Spec.setGroupU (s : Spec) (u : Nat) (f : String) (l : List Nat) : Spec :=
  if (s.groupU u f).isSome then
    { s with grp := s.grp.map fun e => if e.1.1 == u && e.1.2 == f then (e.1, l) else e }
  else { s with grp := s.grp ++ [((u, f), l)] }

/-- connections a push can reach: registered and open -/
def Spec.eff (s : Spec) : List Nat := s.live.filter fun i => !s.closed.contains i
def Spec.effB (s : Spec) : List Nat := s.liveB.filter fun i => !s.closedB.contains i

def Spec.create (s : Spec) (c : String) : Spec :=
  { s with chans := s.chans ++ [(c, s.created + 1)], names := s.names ++ [(s.created + 1, c)], created := s.created + 1 }

/-- deleting a name unbinds it; the object (and what it lists) stays with whoever holds it -/
def Spec.delete (s : Spec) (c : String) : Spec := { s with chans := s.chans.filter (·.1 != c) }

def Spec.ensure (s : Spec) (c : String) : Spec := if (s.uidOf c).isSome then s else s.create c

def Spec.joinU (s : Spec) (u : Nat) (f : String) (x : Nat) : Spec := s.setGroupU u f ((s.groupU u f).getD [] ++ [x])

def Spec.leaveU (s : Spec) (u : Nat) (f : String) (x : Nat) : Spec :=
  match s.groupU u f with
  | some l => s.setGroupU u f (l.erase x)
  | none => s

/-- bookkeeping of one membership operation (what the property statement says it means) -/
def Spec.apply (s : Spec) : Op → Spec
  | .addch c => s.ensure c
  | .delch c => s.delete c
  | .join c f x =>
    let s1 := s.ensure c
    match s1.uidOf c with
    | some u => s1.joinU u f x
    | none => s1
  | .leave c f x =>
    match s.uidOf c with
    | some u => s.leaveU u f x
    | none => s
  | _ => s

/-- the same for the operations on a retained handle -/
def Spec.applyH (s : Spec) : HOp → Spec
  | .hjoin u f x => s.joinU u f x
  | .hleave u f x => s.leaveU u f x
  | .hfree u =>
    match s.names.find? (·.1 == u) with
    | some e => s.delete e.2
    | none => s
  | _ => s

/-- parse `push front=F ids=.. route=R msg=M` segments of a broadcast observation -/
def parsePushSeg (seg : String) : Option Push :=
  let ws := words seg
  match ws.head?, kv ws "front", (kv ws "ids").bind parseIds, kv ws "route", kv ws "msg" with
  | some "push", some f, some ids, some r, some m => some ⟨f, ids, r, m⟩
  | _, _, _, _, _ => none

def parseDl (s : String) : Option (List (Nat × String × String)) :=
  if s.isEmpty then some []
  else (s.splitOn ",").foldr (fun w acc => match w.splitOn ":", acc with
    | [i, r, h], some l => (parseU32 i).map fun n => (n, r, h) :: l
    | _, _ => none) (some [])

def expectDl (live ids : List Nat) (route dataHex : String) : List (Nat × String × String) :=
  (ids.filter (fun i => live.contains i)).map fun i => (i, route, dataHex)

def showExpDl (l : List (Nat × String × String)) : String :=
  "dl=" ++ ",".intercalate (l.map fun d => s!"{d.1}:{d.2.1}:{d.2.2}")

def countOf (l : List Nat) (x : Nat) : Nat := (l.filter (· == x)).length

def classifyIds (got want : List Nat) : String :=
  if got.any (fun x => countOf got x > countOf want x) then "removed-or-foreign-id-listed"
  else if want.any (fun x => countOf got x < countOf want x) then "member-not-listed"
  else "not-join-order"

def checkUid (s : Spec) (c : String) (obs : String) (creates : Bool) : Option String :=
  match s.uidOf c with
  | some u => if obs == s!"ch={u}" then none else some s!"channel-map-law existing channel {c} is #{u} but got {obs}"
  | none =>
    if creates then
      if obs == s!"ch={s.created + 1}" then none else some s!"channel-map-law new channel {c} must be a fresh object #{s.created + 1}, got {obs}"
    else if obs == "nil" then none else some s!"channel-map-law missing channel {c} fetched as {obs}"

def brief (l : List Nat) : String :=
  if l.length ≤ 24 then showIds l else s!"{showIds (l.take 8)},..({l.length} ids)..,{showIds (l.drop (l.length - 4))}"

/-- the property on one broadcast observation, against the monitor's own bookkeeping -/
def checkBcastU (s : Spec) (target : Option Nat) (c route msg obs : String) : Option String :=
  match target with
  | none =>
    if obs == "nil" then none
    else some s!"deleted-or-unknown-channel-addressed channel {c} does not exist but the broadcast produced: {obs}"
  | some u =>
    if obs == "nil" then some s!"existing-channel-not-found channel {c} exists"
    else
    match obs.splitOn " | " with
    | [left, right] =>
      let segs := (left.splitOn " ; ").drop 1
      let rws := words right
      match segs.mapM parsePushSeg, (kv rws "dl").bind parseDl, kv rws "once" with
      | some ps, some dl, some once =>
        let fronts := ps.map (·.front)
        -- fronts the property wants addressed: those with at least one listed id
        let want := (s.grp.filter (fun e => e.1.1 == u && !e.2.isEmpty)).map (·.1.2)
        let listedFor (f : String) : List Nat := (s.groupU u f).getD []
        if once != "1" || fronts.eraseDups.length != fronts.length then
          some s!"front-addressed-twice a front-end is addressed more than once in one broadcast: {obs.take 300}"
        else match want.find? (fun f => !fronts.contains f) with
        | some f => some s!"front-not-addressed front {f} has members [{brief (listedFor f)}] in {c} but got no push: {obs.take 300}"
        | none =>
        match ps.find? (fun p => listedFor p.front != p.ids) with
        | some p =>
          some s!"{classifyIds p.ids (listedFor p.front)} front {p.front}: listed [{brief p.ids}] but members in join order are [{brief (listedFor p.front)}]"
        | none =>
        match ps.find? (fun p => p.route != route || p.msg != msg) with
        | some p => some s!"wrong-route-or-payload front={p.front} route={p.route} msg={p.msg}"
        | none =>
          -- in place only if the issuing service has a "sessions" component
          let wantDl := if s.nosess then [] else expectDl s.eff (listedFor s.lf) route (hexOfBytes (ser msg))
          let hex := hexOfBytes (ser msg)
          -- one sys.pushmsg per other known front-end that has listed members, carrying exactly its list
          let remote := ((directory.filter (fun f => (f != s.lf || s.nosess) && !(listedFor f).isEmpty)).map fun f =>
            s!"{f}/{showIds (listedFor f)}/{route}/{hex}")
          let wantSent := ";".intercalate remote
          let wantDlb := if s.bname != "" && s.bname != s.lf && directory.contains s.bname
                         then expectDl s.effB (listedFor s.bname) route hex else []
          if dl == wantDl then
            match kv rws "sent", (kv rws "dlb").bind parseDl with
            | some sent, some dlb =>
              if sent != wantSent then
                some s!"remote-front-push-mismatch requests sent onward [{sent.take 300}] but the other front-ends with members are [{wantSent.take 300}]"
              else if dlb != wantDlb then
                some s!"other-front-delivery-mismatch connections of {s.bname} received ids [{brief (dlb.map (·.1))}] but listed for it are [{brief (listedFor s.bname)}] and its open live sessions are [{showIds s.effB}]"
              else none
            | _, _ => some ("unparseable-observation " ++ (obs.take 300).toString)
          else some s!"local-delivery-mismatch connections of {s.lf} received {dl.length} pushes (ids [{brief (dl.map (·.1))}]) but listed are [{brief (listedFor s.lf)}] and open live sessions are [{showIds s.eff}]"
      | _, _, _ => some ("unparseable-observation " ++ obs.take 300)
    | _ => some ("unparseable-observation " ++ obs.take 300)

/-- the property on a direct push `(f, ids)`: one tuple with the caller's list; in place (listed open live
connections, in list order) iff it addresses the issuing service and that has the component; otherwise one
`sys.pushmsg` with the list iff the directory knows the front (its connections get the listed open live
ones); one completion of the callback -/
def checkDirect (s : Spec) (f : String) (ids : List Nat) (route msg obs : String) : Option String :=
  match obs.splitOn " | " with
  | [left, right] =>
    let segs := (left.splitOn " ; ").drop 1
    let rws := words right
    match segs.mapM parsePushSeg, (kv rws "dl").bind parseDl, kv rws "once", kv rws "sent", (kv rws "dlb").bind parseDl, kv rws "cb" with
    | some ps, some dl, some once, some sent, some dlb, some cb =>
      let hex := hexOfBytes (ser msg)
      let wantPs : List Push := if ids.isEmpty then [] else [⟨f, ids, route, msg⟩]
      let inPlace := f == s.lf && !s.nosess
      let wantDl := if inPlace then expectDl s.eff ids route hex else []
      let wantSent := if !inPlace && directory.contains f && !ids.isEmpty then s!"{f}/{showIds ids}/{route}/{hex}" else ""
      let wantDlb := if !inPlace && s.bname != "" && f == s.bname && directory.contains f then expectDl s.effB ids route hex else []
      if once != "1" then some s!"front-addressed-twice a front-end is addressed more than once by one direct push: {obs.take 300}"
      else if ps != wantPs then some s!"direct-push-tuple-mismatch the push layer must be handed exactly ({f}, [{brief ids}]): {obs.take 300}"
      else if dl != wantDl then
        some s!"local-delivery-mismatch connections of {s.lf} received ids [{brief (dl.map (·.1))}] from a direct push to {f} listing [{brief ids}]; open live sessions are [{showIds s.eff}]"
      else if sent != wantSent then
        some s!"remote-front-push-mismatch requests sent onward [{sent.take 300}] but a direct push to {f} must send [{wantSent.take 300}]"
      else if dlb != wantDlb then
        some s!"other-front-delivery-mismatch connections of {s.bname} received ids [{brief (dlb.map (·.1))}] from a direct push to {f} listing [{brief ids}]; its open live sessions are [{showIds s.effB}]"
      else if cb != "1" then some s!"pushmsg-callback-count {obs.take 200}"
      else none
    | _, _, _, _, _, _ => some ("unparseable-observation " ++ (obs.take 300).toString)
  | _ => some ("unparseable-observation " ++ (obs.take 300).toString)

/-- a broadcast by name: on the object the name denotes now -/
def checkBcast (s : Spec) (c route msg obs : String) : Option String := checkBcastU s (s.uidOf c) c route msg obs

def viol (reason op : String) : String := "VIOLATION C16/" ++ reason ++ " | op: " ++ op

def specCore (s : Spec) (line : String) : Spec × String :=
  match line.splitOn "\t" with
  | [op, obs] =>
    if s.dead && !op.startsWith "reset" then (s, "ok")
    else if obs.startsWith "panic" || obs.startsWith "<no-observation" then ({ s with dead := true }, viol ("crash " ++ obs) op)
    else
    let out (s' : Spec) (r : Option String) : Spec × String :=
      (s', match r with | none => "ok" | some why => viol why op)
    let expectOk (what : String) : Option String := if obs == "ok" then none else some (what ++ " " ++ obs)
    match parseCmd op with
    | .bad => (s, "ok")
    | .reset lf g ns => ({ lf := lf, bname := g, nosess := ns }, "ok")
    | .alloc k =>
      if s.slots.contains k then (s, "ok")
      else
        let c := "@" ++ k
        let s1 := s.ensure c
        out { s1 with slots := k :: s1.slots } (checkUid s c obs true)
    | .free k =>
      if s.slots.contains k then out (s.delete ("@" ++ k)) (expectOk "delete-failed") else (s, "ok")
    | .many os => out (os.foldl Spec.apply s) (expectOk "membership-op-failed")
    | .op (.addch c) => out (s.apply (.addch c)) (checkUid s c obs true)
    | .op (.getch c) => out s (checkUid s c obs false)
    | .op (.delch c) => out (s.apply (.delch c)) (expectOk "delete-failed")
    | .op (.join c f x) => out (s.apply (.join c f x)) (checkUid s c obs true)
    | .op (.leave c f x) => out (s.apply (.leave c f x)) (expectOk "leave-failed")
    | .op (.bcast c route msg) => out s (checkBcast s c route msg obs)
    | .hop u o =>
      if u == 0 || u > s.created then (s, "ok")   -- no such object yet: the line is malformed
      else
        match o with
        | .hbcast _ route msg =>
          -- a retained object is addressed whether or not a name still denotes it
          out s ((checkBcastU s (some u) s!"#{u}" route msg obs).map fun why => why ++ s!" (broadcast through the retained handle #{u})")
        | .hfree _ => out (s.applyH o) (expectOk "delete-failed")
        | _ => out (s.applyH o) (expectOk "membership-op-failed")
    | .dpush f ids route msg _ => out s (checkDirect s f ids route msg obs)
    | .bcastRace c route msg o =>
      -- every front must receive the membership as it was when the broadcast was issued
      out (s.apply o) ((checkBcast s c route msg obs).map fun why =>
        why ++ " (the id list was read while a concurrent leave/join of the same front was pending)")
    | .op .sadd =>
      match (kv (words obs) "id").bind parseU32, (kv (words obs) "live").bind parseIds with
      | some id, some live =>
        let r := if id == 0 || s.live.contains id then some s!"session-id-not-fresh {obs}"
                 else if live != s.live ++ [id] then some s!"session-set-mismatch {obs}" else none
        out { s with live := s.live ++ [id] } r
      | _, _ => out s (some ("unparseable-observation " ++ obs))
    | .op (.sdel id) =>
      let found := s.live.contains id
      let s1 := { s with live := s.live.erase id, closed := s.closed.filter (· != id) }
      let wantObs := (if found then "ok" else "missing") ++ s!" live={showIds s1.live}"
      out s1 (if obs == wantObs then none else some s!"session-set-mismatch want [{wantObs}] got [{obs}]")
    | .op (.sclose id) =>
      let found := s.live.contains id
      let s1 := if found then { s with closed := id :: s.closed } else s
      let wantObs := (if found then "ok" else "missing") ++ s!" live={showIds s1.live}"
      out s1 (if obs == wantObs then none else some s!"session-set-mismatch want [{wantObs}] got [{obs}]")
    | .op (.spush ids route data) =>
      let w := showExpDl (expectDl s.eff ids route (hexOfBytes data))
      out s (if obs == w then none else some s!"front-fanout-mismatch want [{w}] got [{obs}] registered [{showIds s.live}] closed [{showIds s.closed}]")
    | .syspush (.spush ids route data) =>
      if s.nosess then (s, "ok") else
      let w := showExpDl (expectDl s.eff ids route (hexOfBytes data))
      if obs == w ++ " cb=1" then out s none
      else if obs.startsWith (w ++ " cb=") then out s (some s!"pushmsg-callback-count {obs}")
      else out s (some s!"front-fanout-mismatch want [{w} cb=1] got [{obs}] registered [{showIds s.live}] closed [{showIds s.closed}]")
    | .syspush _ => (s, "ok")
    | .saddPush ids route data =>
      -- the connection being added has its id and is listed: it is live for a push issued from OnSessionAdd
      let ows := words obs
      match (kv ows "id").bind parseU32, (kv ows "live").bind parseIds with
      | some id, some live =>
        let s1 := { s with live := s.live ++ [id] }
        let w := s!"id={id} live={showIds s1.live} " ++ showExpDl (expectDl s1.eff (ids.map fun o => o.getD id) route (hexOfBytes data))
        let r := if id == 0 || s.live.contains id then some s!"session-id-not-fresh {obs}"
                 else if live != s1.live then some s!"session-set-mismatch {obs}"
                 else if obs == w then none
                 else some s!"session-add-callback-push-mismatch a push issued from OnSessionAdd must reach the listed live connections including the new one #{id}: want [{w}] got [{obs}]"
        out s1 r
      | _, _ => out s (some ("unparseable-observation " ++ obs))
    | .saddBcast c route msg =>
      match obs.splitOn " bcast: " with
      | [pre, bobs] =>
        let ows := words pre
        match (kv ows "id").bind parseU32, (kv ows "live").bind parseIds, kv ows "ch" with
        | some id, some live, some chv =>
          let s1 := { s with live := s.live ++ [id] }
          let s2 := s1.apply (.join c s.lf id)
          let r := if id == 0 || s.live.contains id then some s!"session-id-not-fresh {obs.take 200}"
                   else if live != s1.live then some s!"session-set-mismatch {obs.take 200}"
                   else match checkUid s1 c ("ch=" ++ chv) true with
                   | some why => some why
                   | none => (checkBcast s2 c route msg bobs).map fun why => "in-OnSessionAdd " ++ why
          -- keep the signature of the underlying broadcast violation first
          out s2 (r.map fun why => if why.startsWith "in-OnSessionAdd " then (why.drop 16).toString ++ " (broadcast issued from OnSessionAdd of #" ++ toString id ++ ")" else why)
        | _, _, _ => out s (some ("unparseable-observation " ++ obs.take 300))
      | _ => out s (some ("unparseable-observation " ++ obs.take 300))
    | .sdelPush id ids route data =>
      -- the connection being removed is no longer live for a push issued from OnSessionRemove
      let found := s.live.contains id
      let s1 := { s with live := s.live.erase id, closed := s.closed.filter (· != id) }
      let w := (if found then "ok" else "missing") ++ s!" live={showIds s1.live} " ++
        (if found then showExpDl (expectDl s1.eff ids route (hexOfBytes data)) else "dl=")
      out s1 (if obs == w then none
              else if obs.startsWith ((if found then "ok" else "missing") ++ s!" live={showIds s1.live} ") then
                some s!"session-remove-callback-push-mismatch want [{w}] got [{obs}]"
              else some s!"session-set-mismatch want [{w}] got [{obs}]")
  | _ => (s, "bad-line")

def specStep (s : Spec) (line : String) : Spec × String :=
  match line.splitOn "\t" with
  | [op, obs] =>
    match atB op with
    | some (some inner) =>
      if s.bname == "" || s.dead then (s, "ok")
      else
        -- the same predicate, on the second front-end's own connection table
        let r := specCore { s with live := s.liveB, liveB := s.live, closed := s.closedB, closedB := s.closed, nosess := false } (inner ++ "\t" ++ obs)
        ({ r.1 with live := r.1.liveB, liveB := r.1.live, closed := r.1.closedB, closedB := r.1.closed, nosess := s.nosess },
          if r.2.startsWith "VIOLATION" then r.2 ++ " (addressed to the second front-end " ++ s.bname ++ ")" else r.2)
    | none => (s, "ok")
    | some none => specCore s line
  | _ => (s, "bad-line")

end Cell2v.Driver.C16

open Cell2v.Driver in
def main (args : List String) : IO Unit :=
  match args with
  | ["spec"] => runLoop Cell2v.Driver.C16.specStep {}
  | _ => runLoop Cell2v.Driver.C16.stepLine {}
