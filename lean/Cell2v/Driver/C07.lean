import Cell2v.Driver.Util
import Cell2v.Model.Route
/-!
Model driver for C07.

* `modeld_c07 model`  : op line in, observation out (directory built for the
  iteration order "types in order of first appearance").
* `modeld_c07 accept` : `op\tobs` in, `ok` / `REJECT why` out.  Everything is compared
  for equality with the model's observation except the name ↦ item map printed by a
  `view` op: which of two same-named items of DIFFERENT types wins depends on Go's
  map iteration order, so the observed map is checked against `ServicesOk`
  (`servicesOkOn` over every possible name) and then pinned as the model's map.
* `modeld_c07 spec`   : `op\tobs` in, `ok` / `VIOLATION <signature> <why>` out — the
  property itself, evaluated on what the implementation did, from the *view* and the
  rule table alone (own state, no use of the model's directory or routing functions).
-/
namespace Cell2v.Driver.C07
open Cell2v.Driver Cell2v.Route

/-! ### parsing -/

def dropS (s : String) (n : Nat) : String := (s.drop n).toString

def parseServices (f : String) : List String :=
  if f = "" then [] else (f.splitOn "+").drop 1

def parseMember (w : String) : Option Member :=
  match (dropS w 2).splitOn "|" with
  | [id, host, port, state, svcs] =>
    some { id := id, host := host, port := port.toNat?.getD 0, state := state.toNat?.getD 0, services := parseServices svcs }
  | _ => none

def parseMembers (ws : List String) : List Member :=
  ws.filterMap fun w => if w.startsWith "m=" then parseMember w else none

def parseKVs (s : String) : KVs :=
  if s = "" then [] else
  (s.splitOn ";").filterMap fun e =>
    match e.splitOn "~" with
    | [k, v] =>
      if v = "" then none
      else if v.startsWith "s" then some (k, Val.str (dropS v 1))
      else if v.startsWith "n" then some (k, Val.null) else some (k, Val.other)
    | _ => none

def parseParam (ws : List String) : Param :=
  match kv ws "p" with
  | none => .nil
  | some v =>
    if v = "nil" || v = "" then .nil
    else if v = "tnil" then .tnil
    else if v = "nilmap" then .map []          -- a nil map[string]interface{} is still a key map
    else if v.startsWith "sess:" then .sess (parseKVs (dropS v 5))
    else if v.startsWith "map:" then .map (parseKVs (dropS v 4))
    else if v.startsWith "str:" then .str (dropS v 4)
    else .other

def parseBeh (v : String) : Option Beh :=
  if v.startsWith "const:" then some (.const (dropS v 6))
  else if v.startsWith "key:" then some (.key (dropS v 4))
  else if v.startsWith "keyd:" then
    match (dropS v 5).splitOn "," with
    | [k, d] => some (.keyd k d)
    | _ => none
  else if v.startsWith "nilor:" then
    match (dropS v 6).splitOn "," with
    | [nn, k] => some (.nilor nn k)
    | _ => none
  else if v.startsWith "nest:" then
    match (dropS v 5).splitOn "," with
    | [k, tB, inner] => some (.nest k tB (parseKVs inner))
    | _ => none
  else if v = "empty" then some .empty
  else if v = "panic" then some .panic
  else none

def kvS (ws : List String) (k : String) : String := (kv ws k).getD ""

/-! ### rendering -/

def showPid : Option Pid → String
  | none => "nil"
  | some (a, i) => a ++ "/" ++ i

def showItem (it : Item) : String :=
  it.name ++ "@" ++ it.node ++ "#" ++ toString it.state ++ ">" ++ showPid (it.addr.map fun a => (a, it.name))

def join (sep : String) (xs : List String) : String := sep.intercalate xs

def sortStrings (xs : List String) : List String :=
  (xs.toArray.qsort (fun a b => a < b)).toList

/-- every string that can be a type or an instance name of the view (superset) -/
def probes (ms : List Member) : List String :=
  sortStrings (("" :: ms.flatMap fun m => m.services.flatMap fun s => s :: splitDots s).eraseDups)

def showList (l : List Item) : String := join "," (l.map showItem)

def showFixed (ms : List Member) : String :=
  let ids := sortStrings ((ms.map (·.id)).eraseDups)
  let mem := ids.filterMap fun id => (memberOf ms id).map fun m =>
    id ++ ">" ++ m.host ++ ":" ++ toString m.port ++ "#" ++ toString m.state
  let ps := probes ms
  let tl := typeList ms
  let wl := workList ms
  let types := ps.filterMap fun k => (tl.lookup k).map fun l => k ++ "[" ++ showList l ++ "]"
  let work := ps.filterMap fun k => (wl.lookup k).map fun l => k ++ "[" ++ showList l ++ "]"
  "mem=" ++ join ";" mem ++ " types=" ++ join ";" types ++ " work=" ++ join ";" work

def showSvc (ms : List Member) (sv : List (String × Item)) : String :=
  join ";" ((probes ms).filterMap fun k => (sv.lookup k).map fun it => k ++ "=" ++ showItem it)

/-- `c = stopped`: the completion of a request that WAS sent is not observed (`cb=~`): the reply goes to a
service whose loop no longer runs — delivery and completion of a sent request are C01/C09's business -/
def showOutcomeIn (c : Caller) (o : Outcome) : String :=
  let s := if o.sent.isEmpty then "-" else
    join "," (o.sent.map fun x => showPid (some x.target) ++ "!" ++ x.api ++ "!" ++ (if x.isReq then "R" else "N"))
  let cbs := o.cbs.map (fun _ => "noservice") ++ (if o.pending && !o.sent.isEmpty then ["ok"] else [])
  if c == .stopped && !o.sent.isEmpty then "sent=" ++ s ++ " cb=~"
  else "sent=" ++ s ++ " cb=" ++ (if cbs.isEmpty then "-" else join "," cbs)

def showOutcome (o : Outcome) : String := showOutcomeIn .running o

def callerOf (ws : List String) : Caller := if kvS ws "ctx" == "stopped" then .stopped else .running

/-! ### model / accept -/

structure DSt where
  rules : Rules := ⟨[], true, none⟩
  dir : Dir := emptyDir
  armed : Option (List Member) := none   -- `midview`: installed while the route function of the NEXT call is parked

/-- the service type a call routes for (`none`: the op does not route) -/
def routedType (ws : List String) : Option String :=
  match ws.head? with
  | some "req" | some "ntf" => some (splitClientRoute (kvS ws "r")).1
  | some "pid" | some "route" => some (kvS ws "type")
  | _ => none

/-- ops other than `view` and `midview` -/
def stepCall0 (s : DSt) (ws : List String) : DSt × String :=
  let nocb := kvS ws "nocb" == "1"
  match ws.head? with
  | some "reset" =>
    -- `default=0`: SetDefaultRoute(nil); otherwise the default function (built-in or replaced) stays as it is
    let drop := kvS ws "default" == "0"
    let hd := s.rules.hasDefault && !drop
    ({ rules := ⟨[], hd, if drop then none else s.rules.custom⟩, dir := emptyDir }, if hd then "ok default=1" else "ok default=0")
  | some "setdef" => ({ s with rules := s.rules.setDefault (parseBeh (kvS ws "beh")) }, "ok")
  | some "rule" => ({ s with rules := s.rules.register (kvS ws "type") (parseBeh (kvS ws "beh")) }, "ok")
  | some "route" => (s, "name=" ++ route s.rules s.dir (kvS ws "type") (parseParam ws))
  | some "pid" => (s, "pid=" ++ showPid (routePID s.rules s.dir (kvS ws "type") (parseParam ws)))
  | some "getpid" => (s, "pid=" ++ showPid (getServicePID s.dir (kvS ws "name")))
  | some "workpid" => (s, "pid=" ++ showPid (getWorkServicePID s.dir (kvS ws "name")))
  | some "firstwork" => (s, "pid=" ++ showPid (getFirstWorkService s.dir (kvS ws "type")))
  | some "race" =>
    -- two independent evaluations (the first one is parked inside its route function while the second runs)
    (s, "a=" ++ route s.rules s.dir (kvS ws "ta") (.map (parseKVs (kvS ws "pa")))
        ++ " b=" ++ route s.rules s.dir (kvS ws "tb") (.map (parseKVs (kvS ws "pb"))))
  | some "split" =>
    let x := splitClientRoute (kvS ws "r")
    (s, "t=" ++ x.1 ++ " a=" ++ x.2.1 ++ " m=" ++ x.2.2)
  | some "req" => (s, showOutcomeIn (callerOf ws) (requestIn (callerOf ws) s.rules s.dir (kvS ws "r") (parseParam ws) (!nocb)))
  | some "ntf" => (s, showOutcome (notify s.rules s.dir (kvS ws "r") (parseParam ws)))
  | some "qs" => (s, showOutcomeIn (callerOf ws) (helperIn (callerOf ws) s.dir (kvS ws "front") "sys.querysession" (!nocb)))
  | some "kick" => (s, showOutcomeIn (callerOf ws) (helperIn (callerOf ws) s.dir (kvS ws "front") "sys.kick" (!nocb)))
  | _ => (s, "bad-op")

/-- `midview m=…` arms a view; the NEXT op consumes it: if that op routes through a function that reads its
parameter (`straddles`), the view update lands while the function runs, i.e. between `Route`'s start and the
name lookup — `requestTorn`, which for such functions is the call in the new view
(`straddling_call_served_from_new_view`); any other op just drops the armed view. -/
def stepCall (s : DSt) (ws : List String) : DSt × String :=
  if ws.head? == some "midview" then ({ s with armed := some (parseMembers ws) }, "ok") else
  let s1 : DSt := match s.armed, routedType ws with
    | some ms, some t => if straddles s.rules t (parseParam ws) then { s with dir := mkDir ms } else s
    | _, _ => s
  stepCall0 { s1 with armed := none } ws

def stepModel (s : DSt) (line : String) : DSt × String :=
  let ws := words line
  if ws.head? == some "view" then
    let ms := parseMembers ws
    let d := mkDir ms
    ({ s with dir := d, armed := none }, showFixed ms ++ " svc=" ++ showSvc ms d.services)
  else stepCall s ws

/-- the observed name map of a `view` observation, checked and turned into items -/
def pinServices (ms : List Member) (svcObs : String) : Except String (List (String × Item)) := do
  let tl := typeList ms
  let ps := probes ms
  let entries := if svcObs = "" then [] else svcObs.splitOn ";"
  let mut sv : List (String × Item) := []
  for e in entries do
    match e.splitOn "=" with
    | n :: rest =>
      let shown := join "=" rest
      if !ps.contains n then throw s!"name {n} cannot occur in this view"
      if (sv.lookup n).isSome then throw s!"name {n} listed twice"
      match (candidates tl n).find? (fun c => showItem c == shown) with
      | some c => sv := sv ++ [(n, c)]
      | none => throw s!"{n} maps to {shown}, which is not the first item named {n} of any type list"
    | [] => throw "empty entry"
  if servicesOkOn tl sv ps then pure sv else throw "a name with candidates is missing from the name map"

def stepAccept (s : DSt) (line : String) : DSt × String :=
  match line.splitOn "\t" with
  | [op, obs] =>
    let ws := words op
    if ws.head? == some "view" then
      let ms := parseMembers ws
      match obs.splitOn " svc=" with
      | [fixed, svcObs] =>
        if fixed != showFixed ms then ({ s with dir := mkDir ms, armed := none }, "REJECT model=" ++ showFixed ms)
        else match pinServices ms svcObs with
          | .ok sv => ({ s with dir := ⟨ms, sv⟩, armed := none }, "ok")
          | .error e => ({ s with dir := mkDir ms, armed := none }, "REJECT " ++ e)
      | _ => ({ s with dir := mkDir ms, armed := none }, "REJECT unparsable view observation; model=" ++ (stepModel s op).2)
    else
      let (s', m) := stepCall s ws
      (s', if m == obs then "ok" else "REJECT model=" ++ m)
  | _ => (s, "REJECT bad-line")

/-! ### the property predicate (spec monitor) -/

structure SSt where
  ms : List Member := []
  rules : List (String × Option Beh) := []     -- newest first
  hasDefault : Bool := true
  custom : Option Beh := none                  -- `SetDefaultRoute(f)` with another function: the rule of every type without one
  armed : Option (List Member) := none         -- `midview`: the view update that lands inside the next call's route function

/-- a well-formed full service name `type.name` -/
def wf (s : String) : Option (String × String) :=
  match splitDots s with
  | [t, n] => if t = "" || n = "" then none else some (t, n)
  | _ => none

structure Inst where
  typ : String
  name : String
  state : Nat
  pid : String

/-- the instances the view announces; an instance's address is that of the node whose id lists it -/
def instances (ms : List Member) : List Inst :=
  ms.flatMap fun m => m.services.filterMap fun s =>
    (wf s).map fun (t, n) =>
      let host := ((ms.reverse.find? (fun x => x.id == m.id)).map fun x => x.host ++ ":" ++ toString x.port).getD "?"
      { typ := t, name := n, state := m.state, pid := host ++ "/" ++ n }

def pidsNamed (ms : List Member) (n : String) : List String :=
  ((instances ms).filter (fun i => i.name == n)).map (·.pid)

inductive Expect
  | name (n : String)        -- the rule names instance `n`
  | anyWorking (t : String)  -- no function registered: some instance of the type on a working node
  | fail                     -- the rule yields nothing: nothing may be sent
  | skip                     -- outside the stated guards

def sentinelNamed (ms : List Member) : Bool :=
  (instances ms).any fun i => i.name == noService || i.name == badRouteParam || i.name == missRouteFunc

/-- switch for the lead's decision (c): an explicit instance name on a malformed route is out of scope -/
def flagExplicitOnMalformed : Bool := false

/-- the function that rules type `t`: the registered one, else a replaced default function -/
def ruling (s : SSt) (t : String) : Option Beh :=
  match s.rules.lookup t with
  | some (some b) => some b
  | _ => s.custom

/-- the call runs a route function that reads its parameter: a view armed by `midview` lands before the lookup -/
def fires (s : SSt) (t : String) (p : Param) : Bool :=
  match p.viaFunc, ruling s t with
  | some fp, some b => b.reads fp
  | _, _ => false

def expect (s : SSt) (t : String) (p : Param) (routeOk : Bool) : Expect :=
  -- `get k`: none = the function cannot read the parameter (nil / nil pointer), some none = key absent
  -- (an EMPTY or nil key map is a readable parameter with every key absent); `untypedNil`: p == nil
  let viaFunc (untypedNil : Bool) (get : String → Option (Option Val)) : Expect :=
    let byKey (k dflt : String) : Expect :=
      match get k with
      | some (some (.str v)) => .name v
      | some none => .name dflt          -- `Get` hands the function's default back ("" = no instance)
      | _ => .fail
    -- the function that rules the type: the registered one, else a replaced default function
    match ruling s t with
    | some (.const n) => .name n
    | some (.key k) | some (.nest k _ _) => byKey k ""   -- a nesting function answers from the OUTER parameter
    | some (.keyd k d) => byKey k d
    | some (.nilor nn k) => if untypedNil then .name nn else byKey k ""
    | some .empty => .fail
    | some .panic => .fail
    | none => if s.hasDefault then .anyWorking t else .fail
  let lastKey (l : KVs) (k : String) : Option Val := (l.reverse.find? (fun e => e.1 == k)).map (·.2)
  match p with
  | .str n => if routeOk || flagExplicitOnMalformed then .name n else .skip
  | .other => .fail
  | .nil => viaFunc true fun _ => none
  | .tnil => viaFunc false fun _ => none
  | .sess l => viaFunc false fun k => some (lastKey l k)
  | .map l => viaFunc false fun k => some (lastKey l k)

/-- targets the property allows; `[]` = nothing may be sent -/
def allowed (s : SSt) : Expect → List String
  | .name n => if n = "" then [] else pidsNamed s.ms n
  | .anyWorking t =>
    let ws := (instances s.ms).filter fun i => i.typ == t && i.state == working
    (ws.flatMap fun w => pidsNamed s.ms w.name).eraseDups
  | .fail => []
  | .skip => []

def parseSent (obs : String) : List (String × String × String) :=
  match kv (words obs) "sent" with
  | none => []
  | some v =>
    if v = "-" then [] else
    (v.splitOn ",").map fun e =>
      match e.splitOn "!" with
      | [p, api, k] => (p, api, k)
      | _ => (e, "?", "?")

def viol (sig why op obs : String) : String := s!"VIOLATION C07/{sig} {why} | op: {op} | observed: {obs}"

/-- check of one request/notify/helper observation against the allowed targets -/
def checkCall (op obs : String) (al : List String) (api kind : String) (wantCb : Bool) (helper : Bool) : String :=
  let sent := parseSent obs
  let cb := kvS (words obs) "cb"
  -- issued by a service whose loop has stopped: the completion of a SENT request is not observed
  -- (C01/C09); a REFUSED one must still be completed, by the call itself
  let sentUnobserved := kvS (words op) "ctx" == "stopped"
  if al.isEmpty then
    if !sent.isEmpty then viol "sent-despite-no-instance" "the rule yields no known instance but a message was sent" op obs
    else if wantCb && cb != "noservice" then
      viol (if helper then "helper-callback-missing" else "callback-missing-or-duplicated")
        "nothing was sent, so the callback must receive the no-service error exactly once" op obs
    else if !wantCb && cb != "-" then viol "callback-missing-or-duplicated" "a completion without a callback" op obs
    else "ok"
  else
    match sent with
    | [] =>
      if cb == "-" && wantCb then viol "callback-missing-or-duplicated" "silently dropped: nothing sent, no callback" op obs
      else viol "not-sent-despite-instance" "the named instance is in the view but nothing was sent" op obs
    | [(p, a, k)] =>
      if !al.contains p then viol "wrong-target" s!"sent to {p}, allowed {al}" op obs
      else if a != api || k != kind then viol "wrong-api-route" s!"forwarded as {a}/{k}, expected {api}/{kind}" op obs
      else if sentUnobserved then "ok"
      else if wantCb && cb != "ok" then viol "callback-missing-or-duplicated" "one reply, so exactly one completion" op obs
      else if !wantCb && cb != "-" then viol "callback-missing-or-duplicated" "a completion without a callback" op obs
      else "ok"
    | _ => viol "sent-more-than-once" "more than one message for one call" op obs

def specLine (s : SSt) (line : String) : SSt × String :=
  match line.splitOn "\t" with
  | [op, obs] =>
    let ws := words op
    let nocb := kvS ws "nocb" == "1"
    -- a call that straddles a view update is judged against the view in force at the name lookup: the NEW one
    let s : SSt := match s.armed with
      | none => s
      | some ms =>
        if ws.head? == some "midview" then s
        else match routedType ws with
          | some t => if fires s t (parseParam ws) then { s with ms := ms, armed := none } else { s with armed := none }
          | none => { s with armed := none }
    if (obs.splitOn "panic").length > 1 || (obs.splitOn "no-observation").length > 1 then
      (s, viol "panic" "the call crashed" op obs)
    else if obs == "blocked" then
      (s, viol "blocked" "the call never returned (real-time watchdog): neither sent nor refused, and everything behind it hangs" op obs)
    else match ws.head? with
    | some "reset" =>
      let drop := kvS ws "default" == "0"
      ({ ms := [], rules := [], hasDefault := s.hasDefault && !drop, custom := if drop then none else s.custom }, "ok")
    | some "setdef" => ({ s with hasDefault := false, custom := parseBeh (kvS ws "beh") }, "ok")
    | some "view" => ({ s with ms := parseMembers ws }, "ok")
    | some "midview" => ({ s with armed := some (parseMembers ws) }, "ok")
    | some "rule" => ({ s with rules := (kvS ws "type", parseBeh (kvS ws "beh")) :: s.rules }, "ok")
    | some "req" | some "ntf" =>
      let isReq := ws.head? == some "req"
      let parts := splitDots (kvS ws "r")
      let (t, api, okR) := match parts with
        | [t, a, m] => (t, a ++ "." ++ m, true)
        | _ => ("", ".", false)
      match expect s t (parseParam ws) okR with
      | .skip => (s, "ok")
      | e =>
        let al := allowed s e
        if al.isEmpty && sentinelNamed s.ms then (s, "ok")   -- guard: a sentinel string is an instance name
        else (s, checkCall op obs al api (if isReq then "R" else "N") (isReq && !nocb) false)
    | some "qs" | some "kick" =>
      let api := if ws.head? == some "qs" then "sys.querysession" else "sys.kick"
      (s, checkCall op obs (allowed s (.name (kvS ws "front"))) api "R" (!nocb) true)
    | some "route" =>
      (s, match expect s (kvS ws "type") (parseParam ws) true with
          | .name n => if obs == "name=" ++ n then "ok"
                       else viol "wrong-target" s!"Route must return {n}, the name the rule yields for THIS parameter" op obs
          | _ => "ok")
    | some "race" =>
      let chk (t : String) (l : KVs) (got : String) : Bool :=
        match expect s t (.map l) true with
        | .name n => got == n
        | _ => true
      let ow := words obs
      (s, if chk (kvS ws "ta") (parseKVs (kvS ws "pa")) (kvS ow "a") && chk (kvS ws "tb") (parseKVs (kvS ws "pb")) (kvS ow "b")
          then "ok" else viol "wrong-target" "each of two overlapping Route calls must be answered from its own key map" op obs)
    | some "pid" | some "getpid" =>
      let e := if ws.head? == some "pid" then expect s (kvS ws "type") (parseParam ws) true
               else .name (kvS ws "name")
      match e with
      | .skip => (s, "ok")
      | e =>
        let al := allowed s e
        let got := kvS (words obs) "pid"
        if al.isEmpty && sentinelNamed s.ms && ws.head? == some "pid" then (s, "ok")
        else if al.isEmpty then
          (s, if got == "nil" then "ok" else viol "sent-despite-no-instance" "a PID although the rule yields no known instance" op obs)
        else if got == "nil" then (s, viol "not-sent-despite-instance" "no PID although the named instance is in the view" op obs)
        else (s, if al.contains got then "ok" else viol "wrong-target" s!"resolved to {got}, allowed {al}" op obs)
    | _ => (s, "ok")
  | _ => (s, "bad-line")

end Cell2v.Driver.C07

open Cell2v.Driver in
def main (args : List String) : IO Unit :=
  match args with
  | ["spec"] => runLoop Cell2v.Driver.C07.specLine {}
  | ["accept"] => runLoop Cell2v.Driver.C07.stepAccept {}
  | _ => runLoop Cell2v.Driver.C07.stepModel {}
