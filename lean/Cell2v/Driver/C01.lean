import Cell2v.Driver.Util
import Cell2v.Model.Service
import Cell2v.Model.ServiceLife
/-!
Model driver for C01.

`modeld_c01 model` : harness op line in, observation line out.  A harness op is a
*composite* of model ops: `deliver` = `response` + the callback's script + `ret`;
`adv` = `advance`/`tick` pairs at the expiry timer's instants (armed at T: fires at
T+1000, T+2000, … — `timer.Mgr` re-arms after the callback) + scripts + `ret`s.
The scripts (what a callback does) live here, not in the model: the model only
sees the resulting `issue … ret` op stream, over which its theorems quantify.

`modeld_c01 spec` : `op<TAB>implObs` in, `ok` / `VIOLATION <sig> <why>` out — the
property itself ("completed exactly once, by the right reply or by the timeout and
only after the deadline; nothing left behind; notifies register nothing"), kept
independent of the model: it only does bookkeeping on the observed events.
-/
namespace Cell2v.Driver.C01
open Cell2v.Driver Cell2v.Service

/-! ### scripts -/

inductive Act where
  | mk (kind : Char) (sub : List Act)

def Act.kind : Act → Char | .mk k _ => k
def Act.sub : Act → List Act | .mk _ s => s

def isKind (c : Char) : Bool :=
  c == 'R' || c == 'r' || c == 'N' || c == 'F' || c == 'f' || c == 'n' || c == 'P' || c == 'X' || c == 'x' || c == 'y'

/-- node-level `app.Request` (X: with callback, x: without) / `app.Notify` (y) whose route finds no target -/
def isNoRoute (c : Char) : Bool := c == 'X' || c == 'x' || c == 'y'

/-- recursive descent over `R(..)rNF(..)fnX(..)xy`; returns the items and the unread rest -/
partial def parseActs (cs : List Char) (acc : List Act) : List Act × List Char :=
  match cs with
  | [] => (acc.reverse, [])
  | ')' :: _ => (acc.reverse, cs)
  | c :: rest =>
    if !isKind c then parseActs rest acc
    else match rest with
      | '(' :: r2 =>
        let (sub, r3) := parseActs r2 []
        let r4 := match r3 with | ')' :: r => r | r => r
        let sub := if c == 'R' || c == 'F' || c == 'X' then sub else []
        parseActs r4 (.mk c sub :: acc)
      | _ => parseActs rest (.mk c [] :: acc)

/-- (isReq, serOk, hasCb) -/
def flags (c : Char) : Bool × Bool × Bool :=
  match c with
  | 'R' => (true, true, true)
  | 'r' => (true, true, false)
  | 'N' => (false, true, false)
  | 'F' => (true, false, true)
  | 'f' => (true, false, false)
  | _ => (false, false, false)

/-! ### model mode -/

def maxReqId : Nat := 0x7FFFFFF0

structure D where
  s : State := init maxReqId 0
  scripts : List (Nat × List Act) := []
  routes : List (Nat × String) := []
  sentId : List (Nat × Nat) := []      -- instance -> id the peer saw (0 = notify)
  nextFire : Nat := 0
  iss : List String := []              -- newest first
  pans : List Nat := []                -- times at which a timeout callback panicked (newest first)
  panicked : Bool := false             -- a panic is unwinding the current expiry scan
  started : Bool := false
  stopped : Bool := false              -- the actor was stopped: no `ServiceResponse` reaches the object any more (dead letters);
                                       -- its run service and expiry timer live on (`onStop` is unreachable: `*actor.Stop` is a
                                       -- system message), so every other op goes on as before — a history without `response` ops

def lookupD {α : Type} (k : Nat) (l : List (Nat × α)) : Option α := (l.find? (fun e => e.1 == k)).map (·.2)

mutual
/-- what a callback does: its items in order; `P` = panic, which only happens inside an
expiry scan (the harness' scripts panic on timeout completions only) and unwinds everything -/
partial def runScript (d : D) (acts : List Act) : D :=
  match acts with
  | [] => d
  | a :: rest =>
    if d.panicked then d
    else if a.kind == 'P' then
      match d.s.base with
      | .inTick _ _ => { d with s := step d.s .panic, panicked := true, pans := d.s.now :: d.pans }
      | _ => runScript d rest
    else runScript (doIssue d a "x.y") rest

partial def doIssue (d : D) (a : Act) (route : String) : D :=
  let inst := d.s.ninst
  let (isReq, serOk, hasCb) := flags a.kind
  -- without a route the call never reaches `doRequestEx` (model: `noroute`); with one it is `issue`
  let s' := if isNoRoute a.kind then noroute d.s (a.kind != 'y') (a.kind == 'X') else issue d.s isReq serOk hasCb
  let d' : D := { d with
    s := s', scripts := (inst, a.sub) :: d.scripts, routes := (inst, route) :: d.routes,
    sentId := if serOk && !isNoRoute a.kind then (inst, if isReq then s'.nextId else 0) :: d.sentId else d.sentId,
    nextFire := if !d.s.armed && s'.armed then s'.now + 1000 else d.nextFire,
    iss := s!"{inst}:{a.kind}@{d.s.now}" :: d.iss }
  if s'.nest > d.s.nest then
    let d'' := runScript d' a.sub
    if d''.panicked then d'' else { d'' with s := ret d''.s }
  else d'
end

/-- run the callbacks the model is waiting for, until the goroutine is free again -/
partial def settle (d : D) : D :=
  match d.s.base with
  | .idle => d
  | .inResp inst | .inTick inst _ =>
    let d := runScript d ((lookupD inst d.scripts).getD [])
    if d.panicked then { d with panicked := false } else settle { d with s := ret d.s }

/-- `order` token: an instance tag, or `i<id>` for a raw id (nil-callback entries) -/
def orderId (d : D) (tok : String) : Option Nat :=
  if tok.startsWith "i" then (tok.drop 1).toString.toNat? else tok.toNat?.bind (fun k => lookupD k d.sentId)

partial def advLoop (d : D) (target : Nat) (order : List String) : D :=
  if d.s.armed && d.nextFire ≤ target then
    let d := { d with s := step d.s (.advance (d.nextFire - d.s.now)) }
    let d := settle { d with s := tick d.s (order.filterMap (orderId d)) }
    let d := if d.s.armed then { d with nextFire := d.s.now + 1000 } else d
    advLoop d target order
  else { d with s := { d.s with now := target } }

/-- stands for a reply of the field-less type `EmptyArg` -/
def emptySentinel : Nat := 4294967295

def classOf : Outcome → String
  | .reply (some v) => if v == emptySentinel then "ok:empty" else s!"ok:{v}"
  | .reply none => "ok:nil"
  | .remoteErr e => s!"rerr:{e}"
  | .decodeErr => "err"
  | .timeout => "timeout"
  | .serErr => "err"
  | .noService => "noservice"

def joinC (l : List String) : String := ",".intercalate l

def insertSorted (x : Nat) : List Nat → List Nat
  | [] => [x]
  | y :: ys => if x ≤ y then x :: y :: ys else y :: insertSorted x ys

def sortNat (l : List Nat) : List Nat := l.foldr insertSorted []

def observe (d : D) (status : String) : D × String :=
  let evs := d.s.log.reverse
  let cbs := evs.filterMap fun e => match e with
    | .cb inst _ o t => some s!"{inst}:{classOf o}@{t}"
    | _ => none
  let sent := evs.filterMap fun e => match e with
    | .sent inst id => some s!"{inst}:{id}:{(lookupD inst d.routes).getD "?"}"
    | _ => none
  let pend := (sortNat (keys d.s.pending)).map toString
  let o := s!"{status} iss={joinC d.iss.reverse} cb={joinC cbs} sent={joinC sent} pend={joinC pend} pan={joinC (d.pans.reverse.map toString)}"
  ({ d with s := { d.s with log := [] }, iss := [], pans := [] }, o)

/-- is the `code=<int32>` of an error reply non-zero (absent: the default 999)? only that matters -/
def codeNonzero (ws : List String) : Bool :=
  match kv ws "code" with
  | none => true
  | some c => c != "0" && c != "-0" && c != ""

def payloadOf (kind : String) (w : Nat) (nz : Bool := true) : Option Payload :=
  match kind with
  | "ok" => some (.ok (some w))
  | "nil" => some (.ok none)
  | "empty" => some (.ok (some emptySentinel))
  | "err" => if nz then some (.err w) else some (.ok none)   -- `ErrCode == 0` is not an error reply
  | "bad" => some .bad
  | "badtype" => some .badType   -- a type name nobody registered (D22)
  | _ => none

/-- the `id=<int32>` of an injected raw response: a negative id (never allocated: `AllocReqId` returns 1..MaxReqId)
is represented by its two's-complement value, which no table ever holds -/
def wireId (ws : List String) : Option Nat :=
  match kv ws "id" with
  | none => none
  | some v =>
    if v.startsWith "-" then
      match (v.drop 1).toString.toNat? with
      | some n => if n == 0 then some 0 else if n ≤ 2147483648 then some (4294967296 - n) else none
      | none => none
    else match v.toNat? with
      | some n => if n ≤ 2147483647 then some n else none
      | none => none

def parseNatList (s : String) : List Nat := (s.splitOn ",").filterMap String.toNat?

/-- `count` successive `AllocReqId` calls on a fresh service; the last `tail` results -/
def allocRun (count tail : Nat) : List Nat :=
  let rec go : Nat → Nat → Nat → List Nat → List Nat
    | 0, _, _, acc => acc.reverse
    | n + 1, i, x, acc =>
      let y := allocId maxReqId x
      go n (i + 1) y (if i + tail ≥ count then y :: acc else acc)
  go count 0 0 []

/-! ### the composite op `restart` (Model/ServiceLife.lean) -/

def insertPair (x : Nat × String) : List (Nat × String) → List (Nat × String)
  | [] => [x]
  | y :: ys => if x.1 ≤ y.1 then x :: y :: ys else y :: insertPair x ys

/-- observation of a `Life` with at most one orphan: harness tag = instance number of the orphan, `off` + instance
number of the live object; callbacks of one sub-step sorted by tag; the logs are consumed -/
def lifeObs (l : Life) (status : String) (off : Nat) : Life × String :=
  let cbOf (s : State) (o : Nat) : List (Nat × String) := s.log.reverse.filterMap fun e => match e with
    | .cb i _ oc t => some (i + o, s!"{i + o}:{classOf oc}@{t}")
    | _ => none
  let cbs := ((cbOf l.cur off ++ (l.old.map (cbOf · 0)).flatten).foldr insertPair []).map (·.2)
  let iss := l.cur.log.reverse.filterMap fun e => match e with
    | .issued i _ t => some s!"{i + off}:R@{t}"
    | _ => none
  let sent := l.cur.log.reverse.filterMap fun e => match e with
    | .sent i id => some s!"{i + off}:{id}:a.b"
    | _ => none
  let pend := (sortNat (keys l.cur.pending)).map toString
  let clr (s : State) : State := { s with log := [] }
  (⟨clr l.cur, l.old.map clr⟩,
   s!"{status};iss={joinC iss};cb={joinC cbs};sent={joinC sent};pend={joinC pend};pan=")

def lrepeat (l : Life) (op : LOp) : Nat → Life
  | 0 => l
  | n + 1 => lrepeat (lstep l op) op n

/-- the expiry timers during `adv dt=31000` from time `off`: the orphan's (armed at 0) fires at 1000k, the live
object's (armed at `off`, if it ever sent a request) at off + 1000k; callbacks (no scripts) return at once -/
def restartAdv (l : Life) (a b off : Nat) : Nat → Nat → Life
  | 0, _ => l
  | n + 1, k =>
    let l := lstep l (.live (.advance (1000 * k - l.cur.now)))
    let l := lrepeat (lstep l (.orphan 0 (.tick []))) (.orphan 0 .ret) (a + 1)
    let l := lstep l (.live (.advance (off + 1000 * k - l.cur.now)))
    let l := lrepeat (lstep l (.live (.tick []))) (.live .ret) (b + 1)
    restartAdv l a b off n (k + 1)

def restartModel (a b w off : Nat) : String :=
  let l := Life.start maxReqId
  let rec reqs (l : Life) (st : String) (o : Nat) (acc : List String) : Nat → Life × List String
    | 0 => (l, acc)
    | n + 1 =>
      let (l, ob) := lifeObs (lstep l (.live (.issue true true true))) st o
      reqs l st o (ob :: acc) n
  let (l, acc) := reqs l "ok" 0 [] (a + 1)
  let (l, o1) := lifeObs (lstep l (.live (.advance off))) "ok" 0
  -- the reply to request `a` (id a+1): its callback runs (not recorded by the harness) and panics -> restart
  let l := lstep (lstep l (.live (.response (a + 1) (.ok (some 1))))) .crash
  let l : Life := ⟨l.cur, l.old.map fun s => { s with log := [] }⟩
  let (l, o2) := lifeObs l "restarted" (a + 1)
  let (l, acc) := reqs l "restarted" (a + 1) (o2 :: o1 :: acc) b
  -- the peer's reply to the OLD request 0 (id 1) is handled by the live object
  let (l, o3) := lifeObs (lstep (lstep l (.live (.response 1 (.ok (some w))))) (.live .ret)) "restarted" (a + 1)
  let (_, o4) := lifeObs (restartAdv l a b off 31 1) "restarted" (a + 1)
  "ok r=" ++ "|".intercalate (o4 :: o3 :: acc).reverse

def stepModel (d : D) (line : String) : D × String :=
  let ws := words line
  match ws.head? with
  | some "crowd" =>
    -- n independent services (one model instance each): one request, one reply, callback returns
    match kvNat ws "n", kvNat ws "w" with
    | some n, some w =>
      if n < 1 || n > 64 then (d, "bad-op") else
      let one (i : Nat) : String :=
        let s := run (init maxReqId 0) [.issue true true true, .response 1 (.ok (some w)), .ret]
        let cbs := s.log.reverse.filterMap fun e => match e with
          | .cb _ _ o _ => some (classOf o)
          | _ => none
        s!"{i}:{if cbs.isEmpty then "none" else "+".intercalate cbs}"
      let left := (run (init maxReqId 0) [.issue true true true, .response 1 (.ok (some w)), .ret]).pending.length * n
      (d, s!"ok crowd={n} cb={joinC ((List.range n).map one)} timers=3 posts=3 left={left} viol=")
    | _, _ => (d, "bad-op")
  | some "restart" =>
    -- only as the first op of a case (fresh requester); the case is over afterwards
    if !d.started || d.s.ninst != 0 then (d, "bad-op") else
    match kvNat ws "a", kvNat ws "b", kvNat ws "w", kvNat ws "off" with
    | some a, some b, some w, some off =>
      if a < 1 || a > 6 || b > 6 || off < 1 || off > 999 then (d, "bad-op")
      else ({ d with started := false }, restartModel a b w off)
    | _, _, _, _ => (d, "bad-op")
  | some "allocrun" =>
    match kvNat ws "count", kvNat ws "tail" with
    | some c, some t => (d, s!"ok ids={joinC ((allocRun c t).map toString)}")
    | _, _ => (d, "bad-op")
  | some "reset" =>
    ({ s := init maxReqId ((kvNat ws "next").getD 0), started := true }, "ok")
  | some op =>
    if !d.started then (d, "bad-op") else
    match op with
    | "req" =>
      match parseActs ((kv ws "s").getD "").toList [] with
      | ([a], _) => if a.kind == 'P' then (d, "bad-op") else observe (doIssue d a "a.b") "ok"
      | _ => (d, "bad-op")
    | "stop" => observe { d with stopped := true } "ok"
    | "burst" =>
      -- n top-level issues of one script item by one piece of handler code: n `issue` ops (and what their
      -- synchronous callbacks do) in a row
      match parseActs ((kv ws "s").getD "").toList [] with
      | ([a], _) =>
        match kvNat ws "n" with
        | some n =>
          if a.kind == 'P' || n < 1 || n > 300 then (d, "bad-op")
          else observe ((List.range n).foldl (fun d _ => doIssue d a "a.b") d) "ok"
        | none => (d, "bad-op")
      | _ => (d, "bad-op")
    | "preq" =>
      -- the peer with asynchronous API handlers is, for the requester, one more peer that answers when told to
      match parseActs ((kv ws "s").getD "").toList [] with
      | ([a], _) => if a.kind == 'P' || isNoRoute a.kind then (d, "bad-op") else observe (doIssue d a "park.Park") "ok"
      | _ => (d, "bad-op")
    | "areq" =>
      -- node-level `app.Request` routed to a peer: the same `RequestEx`; the echo peer answers at once
      let peer := (kv ws "peer").getD ""
      match parseActs ((kv ws "s").getD "").toList [] with
      | ([a], _) =>
        if a.kind == 'P' || a.kind == 'N' || a.kind == 'n' || isNoRoute a.kind || (peer != "echo" && peer != "hold") then (d, "bad-op") else
        let inst := d.s.ninst
        let d := doIssue d a "remote.hello"
        let d := if peer == "echo" then
            match lookupD inst d.sentId with
            | some id => if id != 0 && !d.stopped then settle { d with s := response d.s id (.ok (some (7000 + inst))) } else d
            | none => d
          else d
        observe d "ok"
      | _ => (d, "bad-op")
    | "anotify" =>
      let peer := (kv ws "peer").getD ""
      if peer == "none" then observe (doIssue d (.mk 'y' []) "") "ok"
      else if peer != "echo" && peer != "hold" then (d, "bad-op")
      else observe (doIssue d (.mk (if kv ws "ser" == some "0" then 'n' else 'N') []) "remote.hello") "ok"
    | "noroute" =>
      -- node-level `app.Request` without a routable target: nothing reaches the service core (model: `noroute`)
      observe (doIssue d (.mk (if kvNat ws "cb" == some 1 then 'X' else 'x') []) "") "ok"
    | "deliver" =>
      match kvNat ws "k", payloadOf ((kv ws "kind").getD "") ((kvNat ws "w").getD 0) (codeNonzero ws) with
      | some k, some p =>
        match lookupD k d.sentId with
        | none => observe d "nopeer"
        | some id =>
          -- `ResponseEx` (model: `respondsTo`): a notification is never answered
          if !respondsTo id true || d.stopped then observe d "ok"
          else observe (settle { d with s := response d.s id p }) "ok"
      | _, _ => (d, "bad-op")
    | "inject" =>
      match wireId ws, payloadOf ((kv ws "kind").getD "") ((kvNat ws "w").getD 0) (codeNonzero ws) with
      | some id, some p => if d.stopped then observe d "ok" else observe (settle { d with s := response d.s id p }) "ok"
      | _, _ => (d, "bad-op")
    | "adv" =>
      match kvNat ws "dt" with
      | some dt =>
        let order := (((kv ws "order").getD "").splitOn ",").filter (· ≠ "")   -- resolved to ids at each scan
        if ((kvNat ws "flood").getD 0) > 0 then
          -- the service goroutine is parked for the whole `dt`: at most one expiry tick is pending (the timer is
          -- re-armed only after its callback ran); it is delivered at the end, and the period restarts there
          -- (+2 ms: after a frame of >= 100 ms the run-service loop sleeps 2 ms before it polls its queues again)
          if dt < 100 then (d, "bad-op") else
          let target := d.s.now + dt + 2
          if d.s.armed && d.nextFire ≤ target then
            let d := { d with s := { d.s with now := target } }
            let d := settle { d with s := tick d.s (order.filterMap (orderId d)) }
            let d := if d.s.armed then { d with nextFire := d.s.now + 1000 } else d
            observe d "ok"
          else observe { d with s := { d.s with now := target } } "ok"
        else
        observe (advLoop d (d.s.now + dt) order) "ok"
      | none => (d, "bad-op")
    | _ => (d, "bad-op")
  | none => (d, "bad-op")

/-! ### spec mode: the property predicate on implementation observations -/

structure Inst where
  tag : Nat
  kind : Char
  t0 : Nat
  id : Option Nat := none
  cbSeen : Bool := false
  answered : Bool := false     -- a response carrying its id was delivered while it was pending
  deriving Repr

structure SS where
  now : Nat := 0
  insts : List Inst := []
  prevPend : List Nat := []
  pans : List Nat := []        -- times of recovered callback panics: each one excuses one expiry scan
  floods : List (Nat × Nat) := []   -- (end time, length) of the windows in which the service goroutine was parked
  stopped : Bool := false      -- the requester actor was stopped: responses are dead letters, only the timeout can complete
  poisoned : Bool := false     -- a violation was already reported in this case: the bookkeeping is void

structure CbEv where
  tag : String
  cls : String
  t : Nat
  foreign : Bool

/-- `tag:class[:payload]@t[!ctx]` -/
def parseCb (s : String) : Option CbEv :=
  match s.splitOn "@" with
  | [l, r] =>
    let foreign := r.endsWith "!ctx"
    let tstr := if foreign then (r.dropEnd 4).toString else r
    match l.splitOn ":", tstr.toNat? with
    | tag :: cls, some t => some ⟨tag, ":".intercalate cls, t, foreign⟩
    | _, _ => none
  | _ => none

def listOf (ws : List String) (key : String) : List String :=
  ((kv ws key).getD "").splitOn "," |>.filter (· ≠ "")

def updInst (l : List Inst) (tag : Nat) (f : Inst → Inst) : List Inst :=
  l.map fun i => if i.tag == tag then f i else i

def getInst (l : List Inst) (tag : Nat) : Option Inst := l.find? (·.tag == tag)

def viol (sig why op : String) : String := s!"VIOLATION C01/{sig} {why} :: {op}"

/-- expected class of the completion produced by a response of `kind`/`w` -/
def wantClass (kind : String) (w : Nat) (nz : Bool) : String :=
  match kind with
  | "ok" => s!"ok:{w}"
  | "nil" => "ok:nil"
  | "empty" => "ok:empty"                             -- zero bytes on the wire, still a message of its type
  | "err" => if nz then s!"rerr:{w}" else "ok:nil"   -- any ErrCode ≠ 0, negative ones included, is a remote error
  | _ => "err"

def firstSome {α : Type} (l : List (Option α)) : Option α := l.findSome? id

def specStep (st : SS) (line : String) : SS × String :=
  match line.splitOn "\t" with
  | [op, obs] =>
    let ws := words op
    let os := words obs
    match ws.head? with
    | some "reset" => ({}, if obs == "ok" then "ok" else viol "harness" "reset failed" op)
    | some "crowd" =>
      -- many services on one dispatcher: each request completed exactly once with its reply, all code of the
      -- services on the one service goroutine, never two pieces at a time
      if os.head? != some "ok" then (st, "ok") else
      let v := (kv os "viol").getD ""
      let w := (kvNat ws "w").getD 0
      let bad := (listOf os "cb").filter fun e => match e.splitOn ":" with
        | _ :: rest => ":".intercalate rest != s!"ok:{w}"
        | _ => true
      if (v.splitOn "ctx:").length > 1 then
        (st, viol "callback-foreign-context" s!"service code ran outside the service goroutine: {v}" op)
      else if v != "" then
        (st, viol "callback-foreign-context" s!"two pieces of service code ran at the same time: {v}" op)
      else match bad with
        | b :: _ =>
          if (b.splitOn "+").length > 1 then (st, viol "callback-twice" s!"crowd member completed more than once: {b}" op)
          else if (b.splitOn "none").length > 1 then (st, viol "never-completed" s!"crowd member never completed: {b}" op)
          else (st, viol "callback-wrong-reply" s!"crowd member completed with the wrong reply: {b}" op)
        | [] => if (kvNat os "left").getD 0 != 0 then (st, viol "pending-residue" "crowd members left entries behind" op) else (st, "ok")
    | some "restart" =>
      -- a user callback that panics under handleResponse: outside the property's assumptions.  What the restart does is
      -- fixed by the model (Model/ServiceLife.lean, differential); here the count: no completion callback ran twice, and
      -- every request issued before or after the restart — except the one whose callback panicked (tag `a`) — has been
      -- completed once when the op ends (+31 s after the last issue: by its reply, or by the expiry timer of the
      -- object that holds it, the orphaned one included)
      if os.head? != some "ok" then ({ st with poisoned := true }, "ok") else
      let segsOf (key : String) : List String :=
        (((obs.splitOn key).drop 1).map fun seg => ((seg.splitOn ";").headD "").splitOn "," |>.filter (· ≠ "")).flatten
      let tags := (segsOf "cb=").map fun e => (e.splitOn ":").headD ""
      let issued := (segsOf "iss=").map fun e => (e.splitOn ":").headD ""
      let crashTag := (kv ws "a").getD ""
      let rec dup : List String → Option String
        | [] => none
        | x :: xs => if xs.contains x then some x else dup xs
      match dup tags with
      | some t => ({ st with poisoned := true }, viol "callback-twice" s!"instance {t} completed twice across a restart" op)
      | none =>
        match issued.find? (fun t => t != crashTag && !tags.contains t) with
        | some t => ({ st with poisoned := true }, viol "never-completed" s!"request {t}, outstanding across a restart of the requester, was never completed (31 s after the last issue)" op)
        | none => ({ st with poisoned := true }, "ok")
    | some opk =>
      if st.poisoned || os.head? == some "bad-op" then (st, "ok") else
      -- D22: a reply whose type cannot be decoded must complete the request it answers, once, with an error;
      -- anything else after such a reply (no completion, a restart of the requester, a wrong class) is that defect
      let badType := (opk == "deliver" || opk == "inject") && kv ws "kind" == some "badtype"
      if os.head? == some "restarted" then
        ({ st with poisoned := true },
          if badType then viol "undecodable-reply-crashes-requester" "the requester was restarted as a fresh service (ids restart at 1, pending requests orphaned)" op
          else viol "crash" "the requester crashed and was restarted as a fresh service" op) else
      if (obs.splitOn "panic").length > 1 || (obs.splitOn "<no-observation").length > 1 then
        ({ st with poisoned := true }, viol (if badType then "undecodable-reply-crashes-requester" else "crash") "the requester crashed or hung" op) else
      let now := if opk == "adv" then st.now + (kvNat ws "dt").getD 0 + (if ((kvNat ws "flood").getD 0) > 0 then 2 else 0) else st.now
      -- 1. instances issued during the op, ids the peer saw
      let newInsts : List Inst := (listOf os "iss").filterMap fun e =>
        match e.splitOn "@" with
        | [l, t] => match l.splitOn ":" with
          | [tg, k] => match tg.toNat?, k.toList, t.toNat? with
            | some tag, [c], some t0 => some { tag := tag, kind := c, t0 := t0 }
            | _, _, _ => none
          | _ => none
        | _ => none
      let sent : List (Nat × Nat) := (listOf os "sent").filterMap fun e =>
        match e.splitOn ":" with
        | tg :: id :: _ => match tg.toNat?, id.toNat? with
          | some a, some b => some (a, b)
          | _, _ => none
        | _ => none
      let insts := st.insts ++ newInsts
      let insts := sent.foldl (fun l (tg, id) => updInst l tg (fun i => if i.id.isNone then { i with id := some id } else i)) insts
      let isNew (tag : Nat) : Bool := newInsts.any (·.tag == tag)
      let badSent := firstSome (sent.map fun (tg, id) =>
        match getInst insts tg with
        | some i => if (i.kind == 'R' || i.kind == 'r') && id == 0 then some (viol "never-completed" s!"request {tg} was sent with the notification id 0" op)
                    else if (i.kind == 'N') && id != 0 then some (viol "notify-created-pending" s!"notify {tg} was sent with request id {id}" op) else none
        | none => none)
      -- 2. the response this op delivers: (target id, expected class)
      -- `areq peer=echo`: the peer answers the request issued by this very op with TestHello{7000+tag}
      let echoInst : Option Inst :=
        if opk == "areq" && kv ws "peer" == some "echo" && !st.stopped then
          match newInsts.head? with
          | some n => insts.find? fun i => i.tag == n.tag && (i.kind == 'R' || i.kind == 'r') && i.id.isSome && i.id != some 0
          | none => none
        else none
      let target : Option (Nat × String) :=
        let cls := wantClass ((kv ws "kind").getD "") ((kvNat ws "w").getD 0) (codeNonzero ws)
        if st.stopped then none    -- no response is processed by a stopped actor
        else if opk == "deliver" then
          match (kvNat ws "k").bind (getInst st.insts) with
          | some i => match i.id with
            | some id => if id != 0 && os.head? == some "ok" then some (id, cls) else none
            | none => none
          | none => none
        else if opk == "inject" then (wireId ws).map (·, cls)
        else match echoInst with
          | some e => e.id.map (·, s!"ok:{7000 + e.tag}")
          | none => none
      -- the instance that response answers: registered under that id right now
      let answers : Option Inst := if echoInst.isSome then echoInst else target.bind fun (id, _) =>
        insts.find? fun i => i.id == some id && (i.kind == 'R' || i.kind == 'r') && !i.cbSeen && !i.answered
                              && st.prevPend.contains id && !isNew i.tag
      -- 3. callbacks, in order
      let cbs := (listOf os "cb").filterMap parseCb
      let rec go (cbs : List CbEv) (insts : List Inst) (xSeen : Bool) : List Inst × Option String :=
        match cbs with
        | [] => (insts, none)
        | c :: rest =>
          if c.foreign then (insts, some (viol "callback-foreign-context" s!"callback of {c.tag} ran outside the service goroutine" op)) else
          match c.tag.toNat? with
          | none => (insts, some (viol "callback-wrong-reply" s!"callback for unknown instance {c.tag}" op))
          | some tag =>
            match getInst insts tag with
            | none => (insts, some (viol "callback-wrong-reply" s!"callback for unknown instance {tag}" op))
            | some i =>
              if i.cbSeen then (insts, some (viol "callback-twice" s!"instance {tag} completed again with {c.cls}" op)) else
              if i.kind != 'R' && i.kind != 'F' && i.kind != 'X' then (insts, some (viol "callback-wrong-reply" s!"instance {tag} has no callback but {c.cls} was delivered" op)) else
              let ok : Option String :=
                if i.kind == 'F' then
                  if c.cls == "err" && isNew tag then none
                  else some (viol "callback-wrong-reply" s!"unserialisable request {tag} completed with {c.cls}" op)
                else if i.kind == 'X' then
                  -- no route: completed by the issuing call itself, with ErrorNoService
                  if c.cls == "noservice" && isNew tag then none
                  else some (viol "callback-wrong-reply" s!"unexpected no-route completion {c.cls} of {tag}" op)
                else if c.cls == "timeout" then
                  if opk != "adv" then some (viol "timeout-before-deadline" s!"timeout of {tag} outside an expiry scan" op)
                  else if !(c.t > i.t0 + reqTimeout) then some (viol "timeout-before-deadline" s!"request {tag} issued at {i.t0} timed out at {c.t}" op)
                  else if c.t > now then some (viol "timeout-before-deadline" s!"timeout of {tag} stamped {c.t} after now {now}" op)
                  else if i.answered then some (viol "callback-twice" s!"request {tag} timed out although its response had been processed" op)
                  else none
                else
                  match target, answers with
                  | some (_, cls), some a =>
                    if a.tag == tag && c.cls == cls then none
                    else some (viol "callback-wrong-reply" s!"request {tag} completed with {c.cls}; the response was for {a.tag} with {cls}" op)
                  | _, _ => some (viol "callback-wrong-reply" s!"request {tag} completed with {c.cls} although no response answering it was delivered" op)
              match ok with
              | some v => (insts, some v)
              | none => go rest (updInst insts tag (fun i => { i with cbSeen := true })) xSeen
      let (insts, cbViol) := go cbs insts false
      -- 4. what must have happened in this op
      let insts := match answers with
        | some a => updInst insts a.tag (fun i => { i with answered := true })
        | none => insts
      let pend : List Nat := (listOf os "pend").filterMap String.toNat?
      let pans : List Nat := st.pans ++ (listOf os "pan").filterMap String.toNat?
      -- the scan period, stretched by one period per panic that aborted a scan after the deadline
      let floodLen := (kvNat ws "flood").getD 0
      let floods : List (Nat × Nat) :=
        if opk == "adv" && floodLen > 0 then (now, (kvNat ws "dt").getD 0 + 2) :: st.floods else st.floods
      -- … and by every window, ending after the deadline, in which the service goroutine was kept busy (no scan can run)
      let grace (i : Inst) : Nat := 1000 * (1 + (pans.filter (fun t => t > i.t0 + reqTimeout)).length)
        + ((floods.filter (fun f => f.1 > i.t0 + reqTimeout)).map (·.2)).foldl (· + ·) 0
      let unknownNew := pend.filter fun id => !st.prevPend.contains id && !(insts.any (·.id == some id))
      let missedAnswer : Option String := answers.bind fun a =>
        if a.kind == 'R' && !(getInst insts a.tag).any (·.cbSeen) then
          some (viol "never-completed" s!"the response answering request {a.tag} did not complete it" op) else none
      let serFail : Option String := firstSome (newInsts.map fun n =>
        if n.kind == 'F' && !(getInst insts n.tag).any (·.cbSeen) then
          if !unknownNew.isEmpty then some (viol "pending-residue" s!"unserialisable request {n.tag}: no completion and entry {unknownNew} left in the table" op)
          else some (viol "never-completed" s!"unserialisable request {n.tag} was never completed" op)
        else none)
      let xMissing : Option String := firstSome (newInsts.map fun n =>
        if n.kind == 'X' && !(getInst insts n.tag).any (·.cbSeen) then
          some (viol "never-completed" s!"request {n.tag} without a routable target was not completed with ErrorNoService" op) else none)
      -- 5. the table at quiescence
      let pendViol : Option String := firstSome (pend.map fun id =>
        match insts.filter (fun i => i.id == some id && (i.kind == 'R' || i.kind == 'r')) with
        | [] =>
          if ((opk == "req" || opk == "burst") && (((kv ws "s").getD "") == "N" || ((kv ws "s").getD "") == "n")) || opk == "anotify" then
            some (viol "notify-created-pending" s!"a notification registered pending id {id}" op)
          else some (viol "pending-residue" s!"pending id {id} belongs to no outstanding request" op)
        | is =>
          -- some instance registered under this id may legitimately still be pending
          if is.any (fun i => !i.cbSeen && !i.answered && now < i.t0 + reqTimeout + grace i) then none
          else if is.any (fun i => i.kind == 'R' && !i.cbSeen && !i.answered) then
            some (viol "never-completed" s!"request under id {id} is {now} - t0 past deadline + scan period and still not completed" op)
          else some (viol "pending-residue" s!"id {id} is still pending after its request was completed / answered / expired" op))
      let lostViol : Option String := firstSome (insts.map fun i =>
        match i.id with
        | some id =>
          -- at quiescence a request with a callback is either still registered or has been completed
          if i.kind == 'R' && !i.cbSeen && !i.answered && id != 0 && !pend.contains id then
            some (viol "never-completed" s!"request {i.tag} (id {id}) vanished from the table without ever being completed" op)
          else none
        | none => none)
      let ntfViol : Option String :=
        if (((opk == "req" || opk == "burst") && (((kv ws "s").getD "") == "N" || ((kv ws "s").getD "") == "n")) || opk == "anotify")
            && sortNat pend != sortNat st.prevPend then
          some (viol "notify-created-pending" s!"a notification changed the pending table {st.prevPend} -> {pend}" op) else none
      -- after a reply of an unregistered type: a missing / repeated / wrong-class completion of the request it answers is D22's signature
      let d22 (v : Option String) : Option String :=
        if badType then v.map (fun x => x.replace "VIOLATION C01/" "VIOLATION C01/undecodable-reply-crashes-requester was:") else v
      let res := firstSome [badSent, d22 cbViol, serFail, ntfViol, d22 missedAnswer, xMissing, pendViol, lostViol]
      ({ now := now, insts := insts, prevPend := pend, pans := pans, floods := floods, stopped := st.stopped || opk == "stop", poisoned := res.isSome }, res.getD "ok")
    | none => (st, "ok")
  | _ => (st, "bad-line")

end Cell2v.Driver.C01

open Cell2v.Driver in
def main (args : List String) : IO Unit :=
  match args with
  | ["spec"] => runLoop Cell2v.Driver.C01.specStep {}
  | _ => runLoop Cell2v.Driver.C01.stepModel {}
