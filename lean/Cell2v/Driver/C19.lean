import Cell2v.Driver.Util
import Cell2v.Model.SceneMNode
/-!
Model driver for C19 (MMO scene manager).

* `modeld_c19 model`  : op line in → observation out; the two nondeterministic
  choices are fixed (services visited in first-refresh order, request draws 0).
* `modeld_c19 accept` : `op<TAB>implObs` in → `ok` / `REJECT …`: everything is
  compared exactly with the model except the two legitimately nondeterministic
  results — `alloc` (any least-busy working service: Go map order breaks ties) and
  `req` (any line of the configuration: `math/rand`).
* `modeld_c19 spec`   : `op<TAB>implObs` in → `ok` / `VIOLATION <sig> …`: the property
  itself, evaluated on the implementation's own dumps (it keeps only the previous
  dump of the implementation, never the model's state).

Ops that place a scene (`spawn`, `keeper`, `halloc`) and `reply` run `Sys.spawn` / `Sys.keeper` / `Sys.halloc` /
`Sys.reply` of Model/SceneM.lean — the functions the theorems of Props/C19.lean are about.

Observation: `r=<result> S=<sid:cfg:line:svc,…> L=<cfg:line/sid,…;…> V=<svc:working:n:failed:idle,…>`.
-/
namespace Cell2v.Driver.C19
open Cell2v.Driver Cell2v.SceneM

/-! ### model side -/

structure DSt where
  node : Node := Node.init true true        -- the node-level model (Model/SceneMNode.lean): system + public-scene table + the two timers
  cfgs : List Nat := []

/-- manager, cluster view, allocation requests in flight (Model/SceneM.lean) -/
def DSt.s (d : DSt) : Sys := d.node.sys

def DSt.setS (d : DSt) (s : Sys) : DSt := { d with node := { d.node with sys := s } }

/-- the system moved and may have sent requests (deadlines noted, expiry check armed: `Node.withSys`) -/
def DSt.moveS (d : DSt) (s : Sys) : DSt := { d with node := d.node.withSys s }

def DSt.m (d : DSt) : Mgr := d.s.m

def DSt.setM (d : DSt) (m : Mgr) : DSt := d.setS { d.s with m := m }

def joinWith (sep : String) (xs : List String) : String := sep.intercalate xs

def showScene (o : SceneObj) : String := s!"{o.sid}:{o.cfg}:{o.line}:{o.svc}"

def dump (s : DSt) : String :=
  let sc := s.m.world.scenes.mergeSort (fun a b => a.sid ≤ b.sid)
  let cfgs := (s.cfgs.mergeSort (fun a b => a ≤ b)).eraseDups.filter (fun c => !(s.m.world.lines c).isEmpty)
  let ls := cfgs.map fun c => s!"{c}:" ++ joinWith "," ((s.m.world.lines c).map fun l =>
    s!"{l.line}/{l.sid}" ++ (if l.cfg = c then "" else s!"!cfg{l.cfg}"))
  let sv := s.m.services.mergeSort (fun a b => a.1 ≤ b.1)
  let vs := sv.map fun e => s!"{e.1}:{if e.2.working then 1 else 0}:{e.2.n}:{e.2.failed}:{s.m.now - e.2.last}"
  "S=" ++ joinWith "," (sc.map showScene) ++ " L=" ++ joinWith ";" ls ++ " V=" ++ joinWith "," vs ++
    " P=" ++ joinWith "," (s.s.pending.map fun e => s!"{e.sid}:{e.cfg}:{e.svc}") ++
    " T=" ++ joinWith "," ((s.node.table.mergeSort (fun a b => a.1 ≤ b.1)).map fun e => s!"{e.1}:{e.2}") ++
    " K=" ++ (if s.node.keeperDue.isSome then "1" else "0") ++ s!" N={s.m.nextId}"

def isArgmin (svcs : List (Nat × Stat)) (k : Nat) : Bool :=
  svcs.any fun e => e.1 == k && e.2.working &&
    svcs.all fun e' => !e'.2.working || decide (e.2.busy satKey ≤ e'.2.busy satKey)

def cmpKey (a b : Nat) : String :=
  if satKey a < satKey b then "lt" else if satKey a = satKey b then "eq" else "gt"

/-- every answer `ReqSceneByCfgId` can give (one per line the generator may draw) -/
def reqAnswers (w : World) (cfg : Nat) : List (Option SceneObj) :=
  let n := (w.lines cfg).length
  if n = 0 then [none] else (List.range n).map (fun r => w.reqScene cfg r)

def showReq : Option SceneObj → String
  | none => "none"
  | some o => showScene o

def showHAlloc : HAlloc → String
  | .silent => "silent"
  | .refused _ _ => "answered:nack"
  | .sent sid k => s!"{sid}:{k}:sent"

def showSpawned : Spawned → String
  | .noService => "false"
  | .noRoute _ _ => "noroute"
  | .sent sid k => s!"{sid}:{k}:sent"

/-- `spawn` / `keeper` with the service map visited in `order`: new state and result -/
def placeOp (s : DSt) (ws : List String) (order : List (Nat × Stat)) : DSt × String :=
  let cfg := (kvNat ws "cfg").getD 0
  if ws.head? == some "keeper" then
    let n := (kvNat ws "n").getD 0
    -- the harness's `keeper` op replaces the table by this one entry, then runs `Update`
    let s : DSt := { s with node := s.node.step (.setOne cfg n) }
    let (sys', cnt) := s.s.keeper cfg n order
    -- what was sent is visible as the new last entry of the request table
    let tag := if sys'.pending.length == s.s.pending.length then "quiet"
               else match sys'.pending.getLast? with | some p => s!"{p.sid}:{p.svc}:sent" | none => "quiet"
    (s.moveS sys', s!"{tag}/{cnt}")
  else if ws.head? == some "halloc" then
    let (sys', r) := s.s.halloc cfg order
    (s.moveS sys', showHAlloc r)
  else
    let (sys', r) := s.s.spawn cfg order
    (s.moveS sys', showSpawned r)

/-- the visiting orders worth trying: the map's own order, and each service first (by
`alloc_any_least_busy_possible` / `alloc_prefers_least_busy` these reach every possible choice) -/
def orders (s : DSt) : List (List (Nat × Stat)) :=
  let svcs := s.m.services
  svcs :: svcs.map (fun e => e :: svcs.erase e)

/-- deterministic part of an op: new state and, for deterministic ops, the result -/
def apply (s : DSt) (ws : List String) : Option (DSt × Option String) :=
  let sev (e : SEv) : Option (DSt × Option String) := some ({ s with node := s.node.step (.sys e) }, some "ok")
  match ws.head? with
  | some "reset" =>
    -- the flags of mmo/common/config as the harness read them (absent: both set, as in the repository)
    some ({ node := Node.init ((kvNat ws "perf").getD 1 != 0) ((kvNat ws "pub").getD 1 != 0) }, some "ok")
  | some "pubadd" => do
    some ({ s with node := s.node.step (.addPublic (← kvNat ws "cfg") (← kvNat ws "n")) }, some "ok")
  | some "update" => some (s, none)
  | some "timers" => some (s, none)
  | some "route" => do
    let v ← kv ws "svcs"
    sev (.route ((v.splitOn ",").filterMap String.toNat?))
  | some "spawn" => do let _ ← kvNat ws "cfg"; some (s, none)
  | some "halloc" => do let _ ← kvNat ws "cfg"; some (s, none)
  | some "keeper" => do let _ ← kvNat ws "cfg"; let _ ← kvNat ws "n"; some (s, none)
  | some "reply" => do
    let sid ← kvNat ws "sid"
    let res ← kv ws "res"
    match s.s.pending.find? (fun e => e.sid == sid) with
    | none => some (s.setS (s.s.step (.reply sid (res == "ok"))), some "unknown")
    | some p =>
      -- the waiting client of the AllocScene handler (if any) is answered now
      let ack := match s.s.replyAck sid (res == "ok") with
        | none => ""
        | some true => s!"+ack:{sid}:{p.svc}"
        | some false => "+nack"
      some ({ s.setS (s.s.step (.reply sid (res == "ok"))) with cfgs := p.cfg :: s.cfgs }, some ("done" ++ ack))
  | some "refresh" => do sev (.refresh (← kvNat ws "svc") (← kvNat ws "n"))
  | some "adv" => do sev (.adv (← kvNat ws "ms"))
  | some "tick" => sev .tick
  | some "lost" => do sev (.lost (← kvNat ws "svc"))
  | some "wlost" => do sev (.wlost (← kvNat ws "svc"))
  | some "create" => do
    let cfg ← kvNat ws "cfg"
    some ({ s.setM (s.m.step (.create (← kvNat ws "sid") cfg (← kvNat ws "svc"))) with cfgs := cfg :: s.cfgs }, some "ok")
  | some "end" => do sev (.endScene (← kvNat ws "sid"))
  | some "weight" => do some (s, some (cmpKey (← kvNat ws "a") (← kvNat ws "b")))
  | some "alloc" => do let _ ← kvNat ws "cfg"; some (s, none)
  | some "req" => do let _ ← kvNat ws "cfg"; some (s, none)
  | _ => none

/-! ### whole keeper rounds and the timer queue (Model/SceneMNode.lean) -/

def insertions (x : α) : List α → List (List α)
  | [] => [[x]]
  | y :: ys => (x :: y :: ys) :: (insertions x ys).map (y :: ·)

def perms : List α → List (List α)
  | [] => [[]]
  | x :: xs => (perms xs).flatMap (insertions x)

/-- visiting orders of the service map that lead to different choices of `FindIdleService` -/
def ordersDistinct (svcs : List (Nat × Stat)) : List (List (Nat × Stat)) :=
  let all := svcs :: svcs.map (fun e => e :: svcs.erase e)
  all.foldl (fun acc o => if acc.any (fun o' => findIdle satKey o' == findIdle satKey o) then acc else acc ++ [o]) []

/-- every way one `Update` can go: the table in any order, every `SpawnScene` with any choice among the least busy -/
def visitCands (table : List (Nat × Nat)) (svcs : List (Nat × Stat)) : List (List Visit) :=
  let os := ordersDistinct svcs
  (perms table).flatMap fun t =>
    t.foldr (fun e acc => os.flatMap fun o => acc.map fun vs => ((e, o) : Visit) :: vs) [[]]

def showSent (old new : List Pend) : String :=
  let added := new.filter (fun p => !(old.any (fun q => q.sid == p.sid)))
  if added.isEmpty then "quiet" else joinWith ";" (added.map fun p => s!"{p.sid}:{p.svc}:{p.cfg}")

def updateOp (s : DSt) (visits : List Visit) : DSt × String :=
  let n' := s.node.step (.update visits)
  ({ s with node := n' }, showSent s.s.pending n'.sys.pending)

def allKinds : List TK := [.tick, .keeper, .expiry]

def firedCount (n : Node) : Nat := (allKinds.filter fun k => (n.queuedAt k).isSome).length

def timersOp (s : DSt) (order : List TK) (visits : List Visit) : DSt × String :=
  let n' := s.node.step (.timers order visits)
  -- clients of the AllocScene handler whose request expired are told so
  let nacks := s.s.waiting.length - n'.sys.waiting.length
  ({ s with node := n' }, s!"f{firedCount s.node}/" ++ showSent s.s.pending n'.sys.pending ++
    String.join (List.replicate nacks "+nack"))

/-- `NEv.Ok`: the queue is in firing order -/
def orderOk (n : Node) : List TK → Bool
  | [] => true
  | a :: rest => rest.all (fun b => match n.queuedAt a, n.queuedAt b with
      | some da, some db => decide (da ≤ db)
      | _, _ => true) && orderOk n rest

def orderCands (n : Node) : List (List TK) := (perms allKinds).filter (orderOk n)

def timersCands (s : DSt) : List (DSt × String) :=
  (orderCands s.node).flatMap fun order =>
    let base := s.node.beforeKeeper order
    let vcs := if base.keeperQueued then visitCands base.table base.sys.m.services else [[]]
    vcs.map (timersOp s order)

def defaultVisits (n : Node) : List Visit := n.table.map fun e => (e, n.sys.m.services)

def isRoundOp (ws : List String) : Bool := ws.head? == some "update" || ws.head? == some "timers"

def roundModel (s : DSt) (ws : List String) : DSt × String :=
  if ws.head? == some "update" then updateOp s (defaultVisits s.node)
  else
    let order := (orderCands s.node).headD allKinds
    timersOp s order (defaultVisits (s.node.beforeKeeper order))

def roundCands (s : DSt) (ws : List String) : List (DSt × String) :=
  if ws.head? == some "update" then (visitCands s.node.table s.m.services).map (updateOp s) else timersCands s

def isPlaceOp (ws : List String) : Bool :=
  ws.head? == some "spawn" || ws.head? == some "keeper" || ws.head? == some "halloc"

def stepModel (s : DSt) (line : String) : DSt × String :=
  let ws := words line
  match apply s ws with
  | none => (s, "bad-op")
  | some (s', some r) => (s', s!"r={r} " ++ dump s')
  | some (_, none) =>
    if ws.head? == some "alloc" then
      match s.m.alloc satKey s.m.services with
      | (m', none) => let s' := s.setM m'; (s', "r=none " ++ dump s')
      | (m', some (k, sid)) => let s' := s.setM m'; (s', s!"r={sid}:{k} " ++ dump s')
    else if isPlaceOp ws then
      let (s', r) := placeOp s ws s.m.services
      (s', s!"r={r} " ++ dump s')
    else if isRoundOp ws then
      let (s', r) := roundModel s ws
      (s', s!"r={r} " ++ dump s')
    else
      let cfg := (kvNat ws "cfg").getD 0
      (s, s!"r={showReq (s.m.world.reqScene cfg 0)} " ++ dump s)

def stepAccept (s : DSt) (line : String) : DSt × String :=
  match line.splitOn "\t" with
  | [op, obs] =>
    let ws := words op
    match apply s ws with
    | none => (s, if obs == "bad-op" then "ok" else "REJECT model cannot parse the op")
    | some (s', some r) =>
      let want := s!"r={r} " ++ dump s'
      (s', if obs == want then "ok" else "REJECT want " ++ want)
    | some (_, none) =>
      let r := ((kv (words obs) "r").getD "?")
      if ws.head? == some "alloc" && s.m.services.any (fun e => e.1 == 0) then
        -- a service is registered under the empty id (outside the property's hypothesis): the literal loop of
        -- FindIdleService (`findIdleGo`) decides, over every visiting order of the service map
        let answers := (perms s.m.services).map (findIdleGo satKey)
        if r == "none" then
          let want := "r=none " ++ dump s
          (s, if answers.contains none && obs == want then "ok" else "REJECT (empty service id) want a placement or " ++ want)
        else
          let s' := s.setM (s.m.step .alloc)
          let okR := match r.splitOn ":" with
            | [a, b] => a.toNat? == some s.m.nextId && (match b.toNat? with | some k => answers.contains (some k) | none => false)
            | _ => false
          if okR && obs == s!"r={r} " ++ dump s' then (s', "ok")
          else (s, "REJECT (empty service id) want one of the answers of the literal FindIdleService loop and " ++ dump s)
      else if ws.head? == some "alloc" then
        if r == "none" then
          let want := "r=none " ++ dump s
          (s, if (findIdle satKey s.m.services).isNone && obs == want then "ok" else "REJECT want a placement or " ++ want)
        else
          let s' := s.setM (s.m.step .alloc)
          let okR := match r.splitOn ":" with
            | [a, b] => a.toNat? == some s.m.nextId && (match b.toNat? with | some k => isArgmin s.m.services k | none => false)
            | _ => false
          let want := s!"r={r} " ++ dump s'
          if okR && obs == want then (s', "ok")
          else
            -- follow the model's own choice
            let (sm, o) := stepModel s op
            (sm, "REJECT want (any least-busy working service) e.g. " ++ o)
      else if isRoundOp ws then
        -- a whole keeper round / the timer queue: accepted iff the model gives exactly this result and state for SOME
        -- order of the table, SOME choice among the least busy per entry and SOME admissible queue order
        match (roundCands s ws).find? (fun o => s!"r={o.2} " ++ dump o.1 == obs) with
        | some o => (o.1, "ok")
        | none =>
          let (sm, o) := stepModel s op
          (sm, "REJECT want (for some order of the table / of the service map / of the timer queue) e.g. " ++ o)
      else if isPlaceOp ws then
        -- SpawnScene / the keeper: accepted iff the model, for SOME visiting order of the service map,
        -- gives exactly this result and this state
        let outs := (orders s).map (placeOp s ws)
        match outs.find? (fun o => s!"r={o.2} " ++ dump o.1 == obs) with
        | some o => (o.1, "ok")
        | none =>
          let (sm, o) := stepModel s op
          (sm, "REJECT want (any least-busy working service; sent iff it is in the cluster view) e.g. " ++ o)
      else
        let cfg := (kvNat ws "cfg").getD 0
        let okR := (reqAnswers s.m.world cfg).any (fun a => showReq a == r)
        let want := s!"r={r} " ++ dump s
        (s, if okR && obs == want then "ok"
            else "REJECT want one of [" ++ joinWith " " ((reqAnswers s.m.world cfg).map showReq) ++ "] and " ++ dump s)
  | _ => (s, "REJECT bad-line")

/-! ### the property predicate on implementation dumps (no model state) -/

structure PScene where
  sid : Nat
  cfg : Nat
  line : Nat
  svc : String
  deriving BEq, Repr

structure PLine where
  cfg : Nat
  line : Nat
  sid : Nat
  bad : Bool      -- the line object's own cfgId differs from the key it is filed under
  deriving BEq, Repr

structure PStat where
  svc : String
  working : Bool
  n : Nat
  deriving BEq, Repr

structure PDump where
  scenes : List PScene
  lines : List PLine      -- in the implementation's slice order, per configuration
  stats : List PStat
  pending : List PScene   -- unanswered allocation requests (sid, cfg, svc; `line` unused)
  table : List (Nat × Nat) := []   -- the public-scene table (configuration, required number)
  deriving BEq

def splitNonEmpty (s : String) (sep : String) : List String := (s.splitOn sep).filter (· ≠ "")

def parseScene (e : String) : Option PScene :=
  match e.splitOn ":" with
  | [a, b, c, d] => do some ⟨← a.toNat?, ← b.toNat?, ← c.toNat?, d⟩
  | _ => none

def parseDump (ws : List String) : Option PDump := do
  let sS ← kv ws "S"
  let sL ← kv ws "L"
  let sV ← kv ws "V"
  let scenes ← (splitNonEmpty sS ",").mapM parseScene
  let lines ← (splitNonEmpty sL ";").mapM (fun grp =>
    match grp.splitOn ":" with
    | [c, rest] => do
      let cfg ← c.toNat?
      (splitNonEmpty rest ",").mapM (fun e =>
        let bad := (e.splitOn "!").length > 1
        match ((e.splitOn "!").headD "").splitOn "/" with
        | [l, sid] => do some (⟨cfg, ← l.toNat?, ← sid.toNat?, bad⟩ : PLine)
        | _ => none)
    | _ => none)
  let stats ← (splitNonEmpty sV ",").mapM (fun e =>
    match e.splitOn ":" with
    | [k, w, n, _, _] => do some (⟨k, w == "1", ← n.toNat?⟩ : PStat)
    | _ => none)
  let sP := ((((kv ws "P").getD "").splitOn "!").headD "")
  let pending ← (splitNonEmpty sP ",").mapM (fun e =>
    match e.splitOn ":" with
    | [a, b, c] => do some (⟨← a.toNat?, ← b.toNat?, 0, c⟩ : PScene)
    | _ => none)
  let table := (splitNonEmpty ((kv ws "T").getD "") ",").filterMap (fun e =>
    match e.splitOn ":" with
    | [a, b] => do some (← a.toNat?, ← b.toNat?)
    | _ => none)
  some ⟨scenes, lines.flatten, stats, pending, table⟩

def strictlyIncreasing : List Nat → Bool
  | a :: b :: rest => a < b && strictlyIncreasing (b :: rest)
  | _ => true

/-- smallest natural number not in the list -/
def mex (xs : List Nat) : Nat :=
  ((List.range (xs.length + 1)).find? (fun i => !xs.contains i)).getD xs.length

def sortScenes (xs : List PScene) : List PScene := xs.mergeSort (fun a b => a.sid ≤ b.sid)

def sameScenes (a b : List PScene) : Bool := sortScenes a == sortScenes b

/-- scenes ↔ lines of one dump -/
def consistency (d : PDump) : Option String :=
  if d.lines.any (·.bad) then some "C19/scene-line-mismatch a line is filed under another configuration than its own"
  else if !(d.scenes.all fun o => (d.lines.filter (fun l => l.sid == o.sid)) == [⟨o.cfg, o.line, o.sid, false⟩]) then
    some "C19/scene-line-mismatch a live scene is not registered under exactly one line of its configuration with its line number"
  else if !(d.lines.all fun l => d.scenes.any (fun o => o.sid == l.sid && o.cfg == l.cfg && o.line == l.line)) then
    some "C19/scene-line-mismatch a line does not belong to a live scene of its configuration"
  else if !((d.lines.map (·.cfg)).eraseDups.all fun c => strictlyIncreasing ((d.lines.filter (·.cfg == c)).map (·.line))) then
    some "C19/line-ids-not-unique-sorted line numbers of a configuration are not strictly increasing"
  else none

structure SpecSt where
  prev : Option PDump := none
  tainted : Bool := false
  now : Nat := 0                          -- virtual time: the sum of the `adv` steps of this case
  since : List (String × Nat) := []       -- per service: time of its last refresh
  sentAt : List (Nat × Nat) := []         -- per allocation request (scene id): when it first showed in flight

def satW (n : Nat) : Nat := min n 5000

def svcTok (ws : List String) : String := (kv ws "svc").getD "?"

/-- a create-success for the fresh id `sid`: registered as asked, on the smallest free line, nothing else touched -/
def checkCreate (p d : PDump) (sid cfg : Nat) (svc : String) : Option String :=
  match d.scenes.find? (·.sid == sid) with
  | none => some "C19/create-wrong-registration the created scene is not registered"
  | some o =>
    let want := mex ((p.lines.filter (·.cfg == cfg)).map (·.line))
    if !(o.cfg == cfg && o.svc == svc) then some "C19/create-wrong-registration registered with another configuration or service"
    else if !sameScenes (d.scenes.filter (·.sid != sid)) p.scenes then some "C19/create-wrong-registration other scenes changed"
    else if o.line != want then some s!"C19/new-line-not-smallest-free got line {o.line}, smallest free was {want}"
    else none

/-- a placement decision: on a working service, none less busy, with an id that is not live -/
def checkPlacement (d : PDump) (a k : String) : Option String :=
  match d.stats.find? (·.svc == k) with
  | none => some s!"C19/alloc-on-non-working placed on unknown service {k}"
  | some st =>
    if !st.working then some s!"C19/alloc-on-non-working placed on {k} which is not considered working"
    else if d.stats.any (fun t => t.working && satW t.n < satW st.n) then
      some s!"C19/alloc-not-least-busy placed on {k} although a less busy working service exists"
    else if d.scenes.any (fun o => some o.sid == a.toNat?) then some s!"C19/alloc-live-scene-id {a}"
    else none

/-- the requests one keeper round sent (`sid:svc:cfg;…`): each for an entry of the table that has fewer confirmed
lines than required, at most one per entry, each placed on a least-busy working service -/
def checkRound (r : String) (p d : PDump) : Option String :=
  let sent := (splitNonEmpty r ";").filterMap (fun e =>
    match e.splitOn ":" with
    | [a, k, c] => c.toNat?.map (fun cfg => (a, k, cfg))
    | _ => none)
  if r != "quiet" && sent.length != (splitNonEmpty r ";").length then some "C19/keeper-spawned-beyond-need unreadable list of requests"
  else if !(sent.map (·.2.2)).eraseDups.length == sent.length then
    some "C19/keeper-spawned-beyond-need more than one request for one public scene in one round"
  else
    match sent.find? (fun e => !(d.table.any fun t => t.1 == e.2.2 && decide ((d.lines.filter (·.cfg == e.2.2)).length < t.2))) with
    | some e => some s!"C19/keeper-spawned-beyond-need a request was sent for configuration {e.2.2} which is not a public scene below its required number"
    | none =>
      -- placement: judged on the service stats of the moment; when the keep-alive check ran in the same serving of
      -- the queue that is the state before it or after it
      sent.findSome? (fun e => match checkPlacement { d with stats := p.stats } e.1 e.2.1 with
        | none => none
        | some _ => checkPlacement d e.1 e.2.1)

def lostByCheck (p d : PDump) : List String :=
  (p.stats.filter fun s => s.working && !(d.stats.any fun t => t.svc == s.svc && t.working)).map (·.svc)

def checkOp (ws : List String) (r : String) (p d : PDump) : Option String :=
  let unchanged : Option String :=
    if sameScenes p.scenes d.scenes && p.lines == d.lines then none
    else some "C19/world-changed-by-readonly-op scenes or lines changed although the event does not touch them"
  match ws.head? with
  | some "create" =>
    match kvNat ws "sid", kvNat ws "cfg" with
    | some sid, some cfg => checkCreate p d sid cfg (svcTok ws)
    | _, _ => none
  | some "spawn" | some "halloc" =>
    -- SpawnScene / the AllocScene handler only send the request; nothing may be registered before (or without) a successful answer
    if !(sameScenes p.scenes d.scenes && p.lines == d.lines) then
      if r == "noroute" || r == "answered:nack" then some "C19/failed-create-registered the allocation request failed at once, yet the world changed"
      else some "C19/world-changed-by-readonly-op a scene was registered before its creation was confirmed"
    else match r.splitOn ":" with
      | [a, k, "sent"] => checkPlacement d a k
      | _ => none
  | some "keeper" =>
    -- the keeper: like SpawnScene, and nothing at all while the configuration has enough confirmed lines
    let rs := (r.splitOn "/").headD ""
    let cnt := ((r.splitOn "/").getD 1 "").toNat?
    let have_ := (p.lines.filter (fun l => some l.cfg == kvNat ws "cfg")).length
    if !(sameScenes p.scenes d.scenes && p.lines == d.lines) then
      if rs == "quiet" then some "C19/failed-create-registered no request is outstanding for it (none was sent or it failed at once), yet the world changed"
      else some "C19/world-changed-by-readonly-op a scene was registered before its creation was confirmed"
    else if decide (have_ ≥ (kvNat ws "n").getD 0) && (rs != "quiet" || cnt != some have_ || p.pending != d.pending) then
      some s!"C19/keeper-spawned-beyond-need the configuration already has {have_} lines"
    else match rs.splitOn ":" with
      | [a, k, "sent"] => checkPlacement d a k
      | _ => none
  | some "reply" =>
    match kvNat ws "sid" with
    | none => none
    | some sid =>
      match p.pending.find? (·.sid == sid) with
      | none => unchanged
      | some q =>
        -- a client of the handler is told "ok" only for a scene that is live now, on the service it is told
        let ackBad := match (r.splitOn "+ack:").getD 1 "" |>.splitOn ":" with
          | [a, k] => !(d.scenes.any fun o => some o.sid == a.toNat? && o.svc == k) || (kv ws "res") != some "ok"
          | _ => false
        if ackBad then some "C19/client-told-ok-without-live-scene the handler's client was answered ok, yet that scene is not live on that service"
        else if (kv ws "res") == some "ok" then checkCreate p d sid q.cfg q.svc
        else if sameScenes p.scenes d.scenes && p.lines == d.lines then none
        else some "C19/failed-create-registered the scene service refused the allocation, yet the scene became live"
  | some "end" =>
    match kvNat ws "sid" with
    | some sid =>
      if sameScenes d.scenes (p.scenes.filter (·.sid != sid)) then none
      else if p.scenes.any (·.sid == sid) then some "C19/end-removed-wrong-set ending a live scene must remove exactly that scene"
      else some "C19/end-unknown-changed-world ending an unknown scene must change nothing"
    | none => none
  | some "lost" | some "wlost" =>
    let svc := svcTok ws
    if sameScenes d.scenes (p.scenes.filter (·.svc != svc)) then none
    else some "C19/lost-removed-wrong-set a service loss must remove exactly the scenes of that service"
  | some "tick" =>
    let lost := (p.stats.filter fun s => s.working && !(d.stats.any fun t => t.svc == s.svc && t.working)).map (·.svc)
    if sameScenes d.scenes (p.scenes.filter (fun o => !lost.contains o.svc)) then none
    else some "C19/lost-removed-wrong-set the periodic check must remove exactly the scenes of the services it declares lost"
  | some "refresh" =>
    let svc := svcTok ws
    match unchanged with
    | some v => some v
    | none =>
      if d.stats.any (fun s => s.svc == svc && s.working && some s.n == kvNat ws "n") then none
      else some "C19/refresh-not-working a refreshed service must be considered working with the reported load"
  | some "req" =>
    match unchanged with
    | some v => some v
    | none =>
      if r == "none" then none
      else match parseScene r, kvNat ws "cfg" with
        | some o, some cfg =>
          if o.cfg == cfg && d.scenes.contains o then none
          else some s!"C19/request-wrong-scene answered {r}, not a live scene of configuration {cfg}"
        | _, _ => some "C19/request-wrong-scene unreadable answer"
  | some "alloc" =>
    match unchanged with
    | some v => some v
    | none =>
      if r == "none" then none
      else match r.splitOn ":" with
        | [a, k] => checkPlacement d a k
        | _ => some "C19/alloc-on-non-working unreadable answer"
  | some "update" =>
    match unchanged with
    | some _ => some "C19/world-changed-by-readonly-op a keeper round registered or removed a scene (only a confirmed creation registers one)"
    | none => if p.table != d.table then some "C19/world-changed-by-readonly-op the public-scene table changed in a round" else checkRound r p d
  | some "timers" =>
    -- the keep-alive check (if it ran) removes exactly the scenes of the services it declares lost; the keeper registers nothing
    if !sameScenes d.scenes (p.scenes.filter (fun o => !(lostByCheck p d).contains o.svc)) then
      some "C19/lost-removed-wrong-set the periodic check must remove exactly the scenes of the services it declares lost"
    else if (r.splitOn "/").headD "" == "f0" && !(p == d) then
      some "C19/world-changed-by-readonly-op no timer was due, yet the state changed"
    else checkRound ((((r.splitOn "/").getD 1 "quiet").splitOn "+").headD "quiet") p d
  | some "pubadd" =>
    match unchanged with
    | some v => some v
    | none =>
      -- addPublicScene: an existing entry is kept, a new one is added; nothing else
      match kvNat ws "cfg", kvNat ws "n" with
      | some cfg, some k =>
        let want := if p.table.any (·.1 == cfg) then p.table else p.table ++ [(cfg, k)]
        if (want.mergeSort (fun a b => a.1 ≤ b.1)) == d.table then none
        else some "C19/public-table-wrong addPublicScene must keep an existing entry and add a new one"
      | _, _ => none
  | some "adv" | some "weight" | some "route" => unchanged
  | _ => none

def stepSpec (s : SpecSt) (line : String) : SpecSt × String :=
  match line.splitOn "\t" with
  | [op, obs] =>
    let ws := words op
    if (obs.splitOn "panic").length > 1 || (obs.splitOn "<no-observation").length > 1 then
      ({ s with tainted := true }, "VIOLATION C19/crash " ++ op)
    else
      let ows := words obs
      match parseDump ows with
      | none => (s, if obs == "bad-op" then "ok" else "bad-line")
      | some d =>
        let r := (kv ows "r").getD ""
        if ws.head? == some "reset" then ({ prev := some d, tainted := false }, "ok")
        else
          -- a create-success for a live id is outside the property's hypothesis: stop judging this case
          let dup := (ws.head? == some "create" || ws.head? == some "reply") &&
            (match s.prev, kvNat ws "sid" with | some p, some sid => p.scenes.any (·.sid == sid) | _, _ => false)
          -- a service registered under the empty id is outside the hypothesis as well (FindIdleService uses "" for "none yet")
          let emptyId := ws.head? == some "refresh" && kvNat ws "svc" == some 0
          let tainted := s.tainted || dup || emptyId
          -- the keep-alive clock of the monitor itself
          let now := if ws.head? == some "adv" then s.now + (kvNat ws "ms").getD 0 else s.now
          let since := if ws.head? == some "refresh" then (svcTok ws, now) :: s.since.filter (·.1 != svcTok ws) else s.since
          let fresh := match s.prev with
            | some p => (d.pending.filter fun q => !(p.pending.any (·.sid == q.sid))).map (fun q => (q.sid, now))
            | none => []
          let s' : SpecSt := { prev := some d, tainted := tainted, now := now, since := since, sentAt := fresh ++ s.sentAt }
          if tainted then (s', "ok")
          else
            match consistency d with
            | some v => (s', "VIOLATION " ++ v ++ " after: " ++ op)
            | none =>
              match s.prev with
              | none => (s', "ok")
              | some p =>
                match checkOp ws r p d with
                | some v => (s', "VIOLATION " ++ v ++ " after: " ++ op)
                | none =>
                  -- the periodic check declares a service lost only after at least 4 x 3 s without a refresh
                  let early := if ws.head? == some "tick" || ws.head? == some "timers" then
                      (p.stats.filter fun st => st.working && !(d.stats.any fun t => t.svc == st.svc && t.working)).find? fun st =>
                        match s.since.find? (·.1 == st.svc) with
                        | some (_, t0) => decide (now < t0 + 12000)
                        | none => false
                    else none
                  -- the request layer gives up on a request only when it has been unanswered for more than 30 s
                  let expiredEarly := if ws.head? == some "timers" then
                      (p.pending.filter fun q => !(d.pending.any (·.sid == q.sid))).find? fun q =>
                        match s.sentAt.find? (·.1 == q.sid) with
                        | some (_, t0) => decide (now ≤ t0 + 30000)
                        | none => false
                    else none
                  match early, expiredEarly with
                  | some st, _ => (s', s!"VIOLATION C19/lost-before-silence service {st.svc} was declared lost less than 12 s after its last refresh after: " ++ op)
                  | none, some q => (s', s!"VIOLATION C19/request-expired-early the request for scene {q.sid} was given up less than 30 s after it was sent after: " ++ op)
                  | none, none => (s', "ok")
  | _ => (s, "bad-line")

end Cell2v.Driver.C19

open Cell2v.Driver in
def main (args : List String) : IO Unit :=
  match args with
  | ["spec"] => runLoop Cell2v.Driver.C19.stepSpec {}
  | ["accept"] => runLoop Cell2v.Driver.C19.stepAccept {}
  | _ => runLoop Cell2v.Driver.C19.stepModel {}
