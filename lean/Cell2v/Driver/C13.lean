import Cell2v.Driver.Util
import Cell2v.Model.ApiMap
/-!
Model driver for C13 (API mapper).
`modeld_c13 model` : one op line in, one observation out (state threaded per case).
`modeld_c13 spec`  : lines `op\tobs` in, `ok` or `VIOLATION <signature> <why>` out —
the property predicate evaluated on the implementation's own observations.  The
spec monitor keeps its own bookkeeping (descriptors, registered entries) and
decides with the DECLARATIVE route table (`specRoute`/`owner`/`handlerShapedB`),
never with the operational model (`build`/`call…`); the two are tied together
by `Props/C13.route_table_eq_spec`.
-/
namespace Cell2v.Driver.C13
open Cell2v.Driver Cell2v.ApiMap

def strBytes (s : String) : Bytes := s.toUTF8.toList.map (·.toNat)
def bytesStr (b : Bytes) : String := String.ofList (b.map Char.ofNat)

/-! ### state -/

structure Store where
  fmtOK : Bool := true
  custom : Option String := none  -- a formater of the harness's own was handed to SetFormater ("permval" / "permall")
  reg : Bool := false
  entries : List Entry := []
  built : Collection := []        -- model: the table made by the last Build
  builtPanic : Bool := false      -- model: that Build panicked (a nil entry)
  snap : List Entry := []         -- spec: the entries registered at the last Build, as far as Build can get
  snapPanic : Bool := false       -- spec: a registered nil entry stops the Build there
  snapFmt : Bool := true

structure St where
  types : List (String × List Method) := []
  cols : List (Nat × Nat) := []          -- collection index of the op lines → store id
  stores : List (Nat × Store) := []

def St.store (s : St) (k : Nat) : Option (Nat × Store) := do
  let (_, sid) ← s.cols.find? (·.1 == k)
  let (_, st) ← s.stores.find? (·.1 == sid)
  pure (sid, st)

def St.setStore (s : St) (sid : Nat) (st : Store) : St :=
  { s with stores := (s.stores.filter (·.1 != sid)) ++ [(sid, st)] }

/-! ### parsing -/

def parseKind : String → Kind
  | "ptr" => .ptr | "struct" => .struct | "func" => .func | "iface" => .iface | "slice" => .slice
  | "map" => .map | "chan" => .chan | "array" => .array | _ => .other

def parseTy (v : String) : Option TyDesc :=
  match v.splitOn "/" with
  | [k, i, c, h] => (bytesOfHex h).map fun id => ⟨parseKind k, i == "1", c == "1", id, [], none, none⟩
  | [k, i, c, h, asg, nid, z] =>
    -- asg: comma separated ids of the other pool types assignable to this one ("-" = none);
    -- nid: reflect.PtrTo(t.Elem()).String() where it differs from t.String() ("-" = the same);
    -- z: digest of the zero value where that is not a nil pointer ("-" = none)
    (bytesOfHex h).map fun id =>
      ⟨parseKind k, i == "1", c == "1", id, if asg == "-" then [] else (asg.splitOn ",").filterMap bytesOfHex,
        if nid == "-" then none else bytesOfHex nid, if z == "-" then none else bytesOfHex z⟩
  | _ => none

def parseIns (ws : List String) (n : Nat) : Option (List TyDesc) :=
  (List.range n).mapM fun i => (kv ws s!"i{i}").bind parseTy

def parseMethod (ws : List String) : Option Method := do
  let nin ← kvNat ws "nin"
  let ins ← parseIns ws nin
  let exp ← kvNat ws "exp"
  let name := (kv ws "name").getD "Synth"
  let id := (kv ws "id").getD name
  pure { name := strBytes name, id := strBytes id, exported := exp == 1, valRecv := (kvNat ws "val").getD 0 == 1, ins := ins }

def lowerB (b : Bytes) : Bytes := b.map fun c => if 65 ≤ c ∧ c ≤ 90 then c + 32 else c
def upperB (b : Bytes) : Bytes := b.map fun c => if 97 ≤ c ∧ c ≤ 122 then c - 32 else c
def lcamelB : Bytes → Bytes
  | c :: r => (if 65 ≤ c ∧ c ≤ 90 then c + 32 else c) :: r
  | [] => []

def parseNF : Option String → Option (Bytes → Bytes)
  | some "lower" => some lowerB
  | some "upper" => some upperB
  | some "lcamel" => some lcamelB
  | _ => none

def parseLegacy : Option String → Legacy
  | some "absent" => .absent
  | some "answers" => .answers
  | _ => .silent

structure BehX where
  beh : Beh
  known : Bool

def parseBeh : Option String → Option Beh
  | some "ok" => some ⟨[true], false, false⟩
  | some "late" => some ⟨[true], false, false⟩
  | some "err" => some ⟨[false], false, false⟩
  | some "twice" => some ⟨[true, true], false, false⟩
  | some "errok" => some ⟨[false, true], false, false⟩
  | some "none" => some ⟨[], false, false⟩
  | some "panic" => some ⟨[], true, false⟩
  | some "nilpan" => some ⟨[], true, false⟩
  | some "okpanic" => some ⟨[true], true, false⟩
  | some "badval" => some ⟨[true], false, true⟩
  | some "errpanic" => some ⟨[false], true, false⟩
  | some "errbad" => some ⟨[false, true], false, true⟩
  | some "twicepanic" => some ⟨[true, true], true, false⟩
  | some "latebad" => some ⟨[true], false, true⟩
  | _ => none

/-- the `late` scripts complete AFTER the call returned: (what the handler does inside the call, what it plays later) -/
def splitLate (name : Option String) (b : Beh) : Beh × List Bool :=
  if name == some "late" || name == some "latebad" then ({ b with comps := [] }, b.comps) else (b, [])

/-- `d:<hex type id>=<hex value|err>` hints: what the serializer makes of the payload per declared type -/
def parseHints (ws : List String) : List (Bytes × Option Bytes) :=
  ws.filterMap fun w =>
    if w.startsWith "d:" then
      match ((w.drop 2).toString).splitOn "=" with
      | [t, v] => (bytesOfHex t).map fun tid => (tid, if v == "err" then none else bytesOfHex v)
      | _ => none
    else none

def hintDecoder (hints : List (Bytes × Option Bytes)) : Decoder :=
  fun tid _ => ((hints.find? (·.1 == tid)).map (·.2)).getD none

/-- the declared types for which the reference decoder PANICKED (`d:<type>=panic`) -/
def parsePanicHints (ws : List String) : List Bytes :=
  ws.filterMap fun w =>
    if w.startsWith "d:" then
      match ((w.drop 2).toString).splitOn "=" with
      | [t, "panic"] => bytesOfHex t
      | _ => none
    else none

/-- the serializer as the execution semantics takes it: value | error | panics -/
def hintDecoderX (ws : List String) : DecoderX :=
  let hints := parseHints ws
  let pans := parsePanicHints ws
  fun tid d => if pans.contains tid then .panics else Decoder.lift (hintDecoder hints) tid d

/-- `cb=0` no completion function, `cb=1` a plain one, `cb=2` a picky one of the harness's own (panics, before
delivering anything, on the value the "bad" scripts complete with — like the dispatcher's closure does in `Response`) -/
def parseCb (ws : List String) : Cb :=
  match kvNat ws "cb" with
  | some 1 => some false
  | some 2 => some true
  | _ => none

def parseCtx (ws : List String) : CtxArg :=
  match kv ws "ctxt" with
  | some "-" | none => .nil
  | some h => match bytesOfHex h with
    | some b => .ty b
    | none => .nil

def parseArg (ws : List String) : ArgV :=
  match kv ws "argt", kv ws "argv" with
  | some "-", _ | none, _ => .nil
  | some t, some v => match bytesOfHex t, bytesOfHex v with
    | some tb, some vb => .val tb vb
    | _, _ => .nil
  | some _, none => .nil

def parseNatList (v : String) : List Nat := (v.splitOn ",").filterMap String.toNat?

/-! ### printing -/

def sortStrings (l : List String) : List String := l.mergeSort (fun a b => decide (a ≤ b))

def dedupKeys {α : Type} (l : List (Bytes × α)) : List (Bytes × α) :=
  l.foldl (fun acc kv => if acc.any (fun x => x.1 == kv.1) then acc else acc ++ [kv]) []

def showItem (g k : Bytes) (h : Handler) : String :=
  s!"{hexOfBytes g}.{hexOfBytes k}={bytesStr h.meth.id}@{h.eid}:{if h.isRequest then "req" else "ntf"}:{hexOfBytes h.argT.id}:{hexOfBytes h.ctxT.id}"

def showDump (items : List String) : String :=
  s!"n={items.length} " ++ " ".intercalate (sortStrings items)

def dumpBuilt (col : Collection) : String :=
  showDump (col.flatMap fun c => (dedupKeys c.handlers).map fun (k, h) => showItem c.name k h)

def showRan (h : Handler) (ctxSet : Bool) (arg : ArgV) : String :=
  -- a nil argument becomes the zero value of the declared type (makeValueMaybeNil): a nil pointer ("null"), or the zero struct
  let v := match arg with | .nil => (h.argT.zero.map hexOfBytes).getD "6e756c6c" | .val _ v => hexOfBytes v
  s!"{bytesStr h.meth.id}@{h.eid}:{hexOfBytes h.argT.id}:{v}:ctx={if ctxSet then "set" else "nil"}"

def showComp (sfx : String) : Comp → String
  | .h true => "h:ok" ++ sfx
  | .h false => "h:err" ++ sfx
  | .f => "f:err" ++ sfx

def showComps (sfx : String) (l : List Comp) : String :=
  if l.isEmpty then "-" else ",".intercalate (l.map (showComp sfx))

/-- an execution as the harness prints it: `[panic ]ran=<runs> comps=<completions>` -/
def showExec (x : Exec) (sfx : String) : String :=
  let runs := x.runs.map fun (h, cs, a) => showRan h cs a
  let comps := x.evs.filterMap fun e => match e with
    | .cb byH isErr => some ((if byH then "h:" else "f:") ++ (if isErr then "err" else "ok") ++ sfx)
    | .run _ _ _ => none
  let lst := fun (l : List String) => if l.isEmpty then "-" else ",".intercalate l
  s!"{if x.panicking then "panic " else ""}ran={lst runs} comps={lst comps}"

def showOutcome (o : Outcome) (comps : List Comp) (sfx : String) : String :=
  let ran := match o with | .invoked h cs a => showRan h cs a | _ => "-"
  let p := match o with | .escaped => "panic " | _ => ""
  s!"{p}ran={ran} comps={showComps sfx comps}"

/-! ### bookkeeping shared by both modes -/

def mkEntry (s : St) (ws : List String) : Option Entry := do
  let ty ← kv ws "ty"
  let eid ← kvNat ws "eid"
  let tname ← kvHex ws "tname"
  let ptr ← kvNat ws "ptr"
  let ms := ((s.types.find? (·.1 == ty)).map (·.2)).getD []
  let group := match kv ws "gvia" with
    | some "none" | none => []
    | some "inner" => [95]
    | _ => (kvHex ws "group").getD []
  pure { eid := eid, typeName := tname, isPtr := ptr == 1, methods := ms, group := group, nameFunc := parseNF (kv ws "nf"),
         isNil := (kvNat ws "nil").getD 0 != 0 }

/-- the spec's own reading of what a Build reaches: entries in order; a nil entry is passed over when its configured
group is already owned by an earlier entry, and stops the Build otherwise -/
def specEffective (fmtOK : Bool) : List Entry → List Entry → List Entry × Bool
  | [], acc => (acc, false)
  | e :: r, acc =>
    if e.isNil then
      if e.group == [] || (owner fmtOK acc e.group).isNone then (acc, true) else specEffective fmtOK r acc
    else specEffective fmtOK r (acc ++ [e])

/-- the harness's own formaters (`SetFormater` takes any `IAPIFormatter`): "permval" = the default predicate with one check
relaxed — the message may also be a struct BY VALUE; "permall" = every exported method -/
def customFormater : String → Formater
  | "permval" => some fun m =>
      m.exported && (m.ins.length == 3 || m.ins.length == 4) &&
      (match m.ins[1]? with | some t => t.kind == .ptr && t.implCtx | none => false) &&
      (match m.ins[2]? with | some t => t.kind == .ptr || t.kind == .struct | none => false) &&
      (match m.ins[3]? with | some t => t.kind == .func | none => true)
  | _ => some fun m => m.exported

def Store.formater (st : Store) : Formater :=
  match st.custom with
  | some n => customFormater n
  | none => Formater.ofBool st.fmtOK

def rebuild (st : Store) : Store :=
  let b := buildX st.formater st.entries []
  let e := specEffective st.fmtOK st.entries []
  { st with built := b.1, builtPanic := b.2, snap := e.1, snapPanic := e.2, snapFmt := st.fmtOK }

/-- state changes of the bookkeeping ops; `none` = malformed op -/
def update (s : St) (ws : List String) : Option St :=
  match ws.head? with
  | some "reset" => some {}
  | some "shape" => some s
  | some "meth" => do
    let ty ← kv ws "ty"
    let m ← parseMethod ws
    let old := ((s.types.find? (·.1 == ty)).map (·.2)).getD []
    pure { s with types := (s.types.filter (·.1 != ty)) ++ [(ty, old ++ [m])] }
  | some "newcol" => do
    let k ← kvNat ws "col"
    let s1 ← match kv ws "same" with
      | some "-" | none =>
        let s0 : St := { s with cols := (s.cols.filter (fun c => c.1 != k)) ++ [(k, k)] }
        pure (s0.setStore k { reg := kvNat ws "reg" == some 1 })
      | some j => do
        let j ← j.toNat?
        let (sid, _) ← s.store j
        let s0 : St := { s with cols := (s.cols.filter (fun c => c.1 != k)) ++ [(k, sid)] }
        pure s0
    match kv ws "fmt" with
    | some "nil" => do
      let (sid, st) ← s1.store k
      pure (s1.setStore sid { st with fmtOK := false })
    | some "permval" | some "permall" => do
      let (sid, st) ← s1.store k
      pure (s1.setStore sid { st with custom := kv ws "fmt" })
    | _ => pure s1
  | some "regrace" => do
    -- n goroutines call Registry.AddCollection(same fresh name) concurrently: a sequence of atomic
    -- `Registry.add` steps, so every one of them holds the same collection (registry_same_name_same_collection)
    let k ← kvNat ws "col"
    let n ← kvNat ws "n"
    let s0 : St := { s with cols := (s.cols.filter (fun c => c.1 < k || c.1 ≥ k + n)) ++ (List.range n).map (fun i => (k + i, k)) }
    pure (s0.setStore k { reg := true })
  | some "entry" => do
    let k ← kvNat ws "col"
    let (sid, st) ← s.store k
    let e ← mkEntry s ws
    pure (s.setStore sid { st with entries := st.entries ++ [e] })
  | some "build" => do
    let k ← kvNat ws "col"
    let (sid, st) ← s.store k
    if kv ws "via" == some "reg" then
      pure { s with stores := s.stores.map fun (i, x) => if x.reg then (i, rebuild x) else (i, x) }
    else pure (s.setStore sid (rebuild st))
  | _ => some s

/-! ### model mode -/

def b2s (b : Bool) : String := if b then "1" else "0"

def step (s : St) (line : String) : St × String :=
  let ws := words line
  match update s ws with
  | none => (s, "bad-op")
  | some s' =>
    match ws.head? with
    | some "reset" | some "newcol" | some "entry" => (s', "ok")
    | some "regrace" =>
      -- the model: all callers get collection (Registry.add …).2, which the registry holds
      let n := (kvNat ws "n").getD 0
      let r1 := Registry.add [] [0]
      let ids := (List.range n).map fun _ => (r1.1.add [0]).2
      (s', s!"distinct={(r1.2 :: ids).eraseDups.length} held={b2s (lookup r1.1 [0] == some r1.2)}")
    | some "shape" | some "meth" =>
      match parseMethod ws with
      | some m => (s', s!"valid={b2s (isValidMethod m)}")
      | none => (s', "bad-op")
    | some "build" =>
      match (kvNat ws "col").bind s'.store with
      | some (_, st) => (s', if st.builtPanic then "panic" else dumpBuilt st.built)
      | none => (s', "bad-op")
    | some "has" =>
      match (kvNat ws "col").bind s'.store, kvHex ws "route" with
      | some (_, st), some route =>
        (s', match getArgType st.built route with
          | none => "0"
          | some t => "1 " ++ hexOfBytes t.id)
      | _, _ => (s', "bad-op")
    | some "csz" =>
      match (kvNat ws "col").bind s'.store, kvHex ws "route", kvHex ws "data", parseBeh (kv ws "beh"), kv ws "ser" with
      | some (_, st), some route, some data, some beh, some ser =>
        let dec : Option DecoderX := if ser == "nil" then none else some (hintDecoderX ws)
        let (inCall, late) := splitLate (kv ws "beh") beh
        (s', showExec ((callWithSerializeX st.built dec route (parseCtx ws) data (parseCb ws) inCall).thenLate (parseCb ws) beh.bad late) "")
      | _, _, _, _, _ => (s', "bad-op")
    | some "call" =>
      match (kvNat ws "col").bind s'.store, kvHex ws "route", parseBeh (kv ws "beh") with
      | some (_, st), some route, some beh =>
        let (inCall, late) := splitLate (kv ws "beh") beh
        (s', showExec ((callX st.built route (parseCtx ws) (parseArg ws) (parseCb ws) inCall).thenLate (parseCb ws) beh.bad late) "")
      | _, _, _ => (s', "bad-op")
    | some "disp" =>
      match kvHex ws "route", kvHex ws "data", parseBeh (kv ws "beh"), kvNat ws "reqid", kvHex ws "rc" with
      | some route, some data, some beh, some reqid, some rc =>
        let cols := (parseNatList ((kv ws "cols").getD "")).filterMap fun k => (s'.store k).map (·.2.built)
        let isNotify := reqid == 0
        let hasSender := kvNat ws "snd" != some 0
        let (inCall, late) := splitLate (kv ws "beh") beh
        -- the function a request handler keeps is the dispatcher's closure: picky iff there is a sender, and without
        -- a sender nothing it is invoked with is ever sent
        let lateCb : Cb := if isNotify then none else some hasSender
        let withLate := fun (x : Exec) => let y := x.thenLate lateCb beh.bad late; if hasSender then y else y.unsent
        if kv ws "via" == some "recv" then
          -- through Service.Receive / handleRequest: dispatcher (unless nodisp=1), then the legacy receiver
          let disp := if kv ws "nodisp" == some "1" then none else some cols
          let r := handleRequestXB (kv ws "body" != some "bad") disp (hintDecoderX ws) rc route data isNotify hasSender (parseLegacy (kv ws "legacy")) inCall
          let x := withLate r.1
          (s', (if x.panicking then "panic " else "") ++ s!"legacy={b2s r.2} " ++ showExec { x with panicking := false } s!"#{reqid}")
        else
        let r := dispatchX cols (hintDecoderX ws) rc route data isNotify hasSender inCall
        let x := withLate r.2
        -- a Dispatch that panics returns nothing: the harness shows its zero value
        (s', (if x.panicking then "panic " else "") ++ s!"ret={b2s (r.1 && !r.2.panicking)} " ++ showExec { x with panicking := false } s!"#{reqid}")
      | _, _, _, _, _ => (s', "bad-op")
    | _ => (s', "bad-op")

/-! ### spec mode: the property predicate on implementation observations -/

/-- the exposed set as the property words it: for every entry that owns its group name,
every handler-shaped method of its method set, under its renamed name -/
def specDump (fmtOK : Bool) (es : List Entry) : String :=
  let items := es.flatMap fun e =>
    let g := containerName e
    match owner fmtOK es g with
    | some o =>
      if o.eid == e.eid then
        (methodSet e).filterMap fun x =>
          if handlerShapedB x then
            let k := applyNF e.nameFunc x.name
            (specHandler fmtOK es g k).map fun h => showItem g k h
          else none
      else []
    | none => []
  showDump items.eraseDups

def contains (s sub : String) : Bool := (s.splitOn sub).length > 1

structure Obs where
  panic : Bool
  ret : Option String
  ran : List String
  comps : List String

def parseObs (obs : String) : Obs :=
  let ws := words obs
  let lst := fun (k : String) => match kv ws k with
    | some "-" | none => []
    | some v => v.splitOn ","
  { panic := contains obs "panic" || contains obs "no-observation" || contains obs "timeout",
    ret := kv ws "ret", ran := lst "ran", comps := lst "comps" }

/-- judgement of one call.  `target` = the handler the route names per the declarative table,
`expRan` = the invocation record the property demands (none = the handler must not run),
`reaches` = the inputs get as far as CallMethod (serializer present, payload decodes) -/
def judgeCall (op : String) (o : Obs) (hasCb : Bool) (beh : Beh) (cbPanicsOnBad : Bool) (target : Option Handler)
    (expRan : Option String) (reaches : Bool) (sfx : String) : String :=
  if o.panic then "VIOLATION C13/escaping-panic " ++ op
  else
    let fs := o.comps.filter (·.startsWith "f:")
    let hs := o.comps.filter (·.startsWith "h:")
    let hran := !o.ran.isEmpty
    let handlerPanics := beh.panics || (cbPanicsOnBad && beh.bad && beh.comps.any id)
    match expRan, o.ran with
    | some r, [] => s!"VIOLATION C13/handler-not-invoked expected {r} :: {op}"
    | some r, [r'] =>
      if r != r' then s!"VIOLATION C13/wrong-handler-or-argtype expected {r} got {r'} :: {op}" else
      if !hasCb then (if o.comps.isEmpty then "ok" else "VIOLATION C13/notify-was-completed " ++ op)
      else if fs.any (· != "f:err" ++ sfx) then "VIOLATION C13/completed-without-error " ++ op
      -- the framework's own completion ("panic in rpc") is due iff the handler's frame panicked and NO completion of the
      -- handler went through before: a handler that completed and THEN panicked must not be completed a second time (D23,
      -- fixed in /repo 7b326e6; Props.exec_panic_completion_iff_not_completed), and one whose completion function choked
      -- (nothing went through) must still get the error
      else if !hs.isEmpty && !fs.isEmpty then
        "VIOLATION C13/callback-completed-twice the framework completed on top of the handler's own completion :: " ++ op
      else if fs.length > (if handlerPanics then 1 else 0) then "VIOLATION C13/callback-completed-twice " ++ op
      else if handlerPanics && fs.isEmpty && hs.isEmpty then "VIOLATION C13/callback-never-completed (panicking handler) " ++ op
      else "ok"
    | some r, _ => s!"VIOLATION C13/wrong-handler-or-argtype expected once {r} :: {op}"
    | none, _ =>
      if hran then s!"VIOLATION C13/wrong-handler-or-argtype nothing may run, ran {o.ran} :: {op}"
      else if !hasCb then (if o.comps.isEmpty then "ok" else "VIOLATION C13/notify-was-completed " ++ op)
      else if !hs.isEmpty then "VIOLATION C13/wrong-handler-or-argtype completion by a handler that did not run :: " ++ op
      else if fs.any (· != "f:err" ++ sfx) then "VIOLATION C13/completed-without-error " ++ op
      else match fs.length with
        | 1 => "ok"
        | 0 =>
          match target with
          | some h =>
            if !h.isRequest && reaches then "VIOLATION C13/request-on-notify-shaped-never-completes " ++ op
            else "VIOLATION C13/callback-never-completed " ++ op
          | none => "VIOLATION C13/callback-never-completed " ++ op
        | _ => "VIOLATION C13/callback-completed-twice " ++ op

/-- a handler that completes AFTER the call returned (from a timer / another goroutine) with a value its completion
function panics on: the call itself ran exactly the handler the property demands and completed nothing, then the panic
of that late completion escaped — there is no `SafeCall` above it (Props: late_choking_completion_escapes).  User code
outside the statement's quantifier (routes and payloads); reported, not alarmed on.  Anything else is judged as usual -/
def lateChokes (behName : Option String) (picky : Bool) (expRan : Option String) (o : Obs) : Bool :=
  behName == some "latebad" && picky && o.panic && o.comps.isEmpty &&
    (match expRan with | some r => o.ran == [r] | none => false)

def cbOK (h : Handler) : Bool := !h.isRequest || ((h.meth.ins[3]?).map (·.cbAssignable)).getD false

def ctxOK (h : Handler) : CtxArg → Bool
  | .nil => true
  | .ty id => assignableTo id h.ctxT

def specStep (s : St) (line : String) : St × String :=
  match line.splitOn "\t" with
  | [op, obs] =>
    let ws := words op
    if op.startsWith "<harness-exit" then (s, "VIOLATION C13/escaping-panic the harness process died: " ++ op)
    else
    match update s ws with
    | none => (s, "bad-op")
    | some s' =>
      let o := parseObs obs
      -- a collection with a formater of the harness's own: "exposes exactly the handler-shaped methods" and "nothing escapes"
      -- are claims about the default formater; these ops tie the model (buildX, the Elem() panic) and are not judged
      let customInvolved :=
        (match (kvNat ws "col").bind s'.store with | some (_, st) => st.custom.isSome | none => false) ||
        (ws.head? == some "disp" &&
          ((parseNatList ((kv ws "cols").getD "")).filterMap fun k => (s'.store k).map (·.2)).any (·.custom.isSome))
      if customInvolved && (ws.head? == some "build" || ws.head? == some "has" || ws.head? == some "csz" ||
          ws.head? == some "call" || ws.head? == some "disp") then (s', "ok outside-statement custom-formater")
      else
      match ws.head? with
      | some "reset" | some "newcol" | some "entry" => (s', "ok")
      | some "regrace" =>
        if o.panic then (s', "VIOLATION C13/escaping-panic " ++ op)
        else if obs == "distinct=1 held=1" then (s', "ok")
        else (s', s!"VIOLATION C13/registry-lost-collection concurrent AddCollection of one name: {obs} (want one object, held by the registry) :: {op}")
      | some "shape" | some "meth" =>
        match parseMethod ws with
        | some m =>
          if o.panic then (s', "VIOLATION C13/escaping-panic " ++ op)
          else if obs == s!"valid={b2s (handlerShapedB m)}" then (s', "ok")
          else (s', s!"VIOLATION C13/exposed-set-wrong shape predicate answers {obs} :: {op}")
        | none => (s', "bad-op")
      | some "build" =>
        match (kvNat ws "col").bind s'.store with
        | some (_, st) =>
          -- a nil entry was registered: programmer error at start-up, outside "calling a route"; what Build does
          -- with it (panic: Props.build_nil_entry_panics) is tied by the model, not judged
          if st.snapPanic then (s', "ok outside-statement nil-entry-registered")
          else if o.panic then (s', "VIOLATION C13/escaping-panic " ++ op)
          else
            let want := specDump st.snapFmt st.snap
            if obs == want then (s', "ok") else (s', s!"VIOLATION C13/exposed-set-wrong want [{want}] got [{obs}]")
        | none => (s', "bad-op")
      | some "has" =>
        match (kvNat ws "col").bind s'.store, kvHex ws "route" with
        | some (_, st), some route =>
          let want := match specRoute st.snapFmt st.snap route with
            | none => "0"
            | some h => "1 " ++ hexOfBytes h.argT.id
          if o.panic then (s', "VIOLATION C13/escaping-panic " ++ op)
          else if obs == want then (s', "ok") else (s', s!"VIOLATION C13/exposed-set-wrong HasMethod/GetArgType want {want} got {obs} :: {op}")
        | _, _ => (s', "bad-op")
      | some "csz" =>
        match (kvNat ws "col").bind s'.store, kvHex ws "route", parseBeh (kv ws "beh"), kv ws "ser" with
        | some (_, st), some route, some beh, some ser =>
          let hasCb := (parseCb ws).isSome
          let picky := parseCb ws == some true
          let ctx := parseCtx ws
          let target := specRoute st.snapFmt st.snap route
          let dec := hintDecoder (parseHints ws)
          let decoded := if ser == "nil" then none else target.bind fun h => dec h.argT.id []
          let expRan := match target, decoded with
            | some h, some v =>
              if ctxOK h ctx && cbOK h && (h.isRequest || !hasCb) then some (showRan h (ctx != .nil) (.val h.argT.id v)) else none
            | _, _ => none
          -- the serializer ITSELF panicked on this payload for the declared type (a user serializer, a message type
          -- whose UnmarshalJSON panics): outside the statement's quantifier (JSON / protobuf serializers decoding
          -- or rejecting the payload); the escaping panic is what the code does today (Props: exec_serializer_panic_escapes)
          -- and is reported, not alarmed on.  Anything else than a panic is judged like an undecodable payload.
          let serPanics := ser != "nil" && (target.map fun h => (parsePanicHints ws).contains h.argT.id).getD false
          if serPanics && o.panic && o.ran.isEmpty && o.comps.isEmpty then (s', "ok outside-statement serializer-panics")
          else if lateChokes (kv ws "beh") picky expRan o then (s', "ok outside-statement late-completion-chokes-outside-safecall")
          else (s', judgeCall op o hasCb beh picky target expRan decoded.isSome "")
        | _, _, _, _ => (s', "bad-op")
      | some "call" =>
        match (kvNat ws "col").bind s'.store, kvHex ws "route", parseBeh (kv ws "beh") with
        | some (_, st), some route, some beh =>
          let hasCb := (parseCb ws).isSome
          let picky := parseCb ws == some true
          let ctx := parseCtx ws
          let arg := parseArg ws
          let target := specRoute st.snapFmt st.snap route
          let argOK := fun (h : Handler) => match arg with | .nil => true | .val t _ => assignableTo t h.argT
          let expRan := match target with
            | some h =>
              if ctxOK h ctx && argOK h && cbOK h && (h.isRequest || !hasCb) then some (showRan h (ctx != .nil) arg) else none
            | none => none
          if lateChokes (kv ws "beh") picky expRan o then (s', "ok outside-statement late-completion-chokes-outside-safecall")
          else (s', judgeCall op o hasCb beh picky target expRan true "")
        | _, _, _ => (s', "bad-op")
      | some "disp" =>
        match kvHex ws "route", parseBeh (kv ws "beh"), kvNat ws "reqid", kvHex ws "rc" with
        | some route, some beh, some reqid, some rc =>
          let stores := (parseNatList ((kv ws "cols").getD "")).filterMap fun k => (s'.store k).map (·.2)
          let hasCb := reqid != 0
          let sfx := s!"#{reqid}"
          let hasSender := kvNat ws "snd" != some 0
          let viaRecv := kv ws "via" == some "recv"
          let legacy := parseLegacy (kv ws "legacy")
          -- Dispatch is reached: always for a direct Dispatch; through handleRequest only with a dispatcher and a route
          let toApi := !viaRecv || (kv ws "nodisp" != some "1" && route != [])
          -- the first collection whose table has the route processes the request
          let tgt := if toApi then stores.findSome? fun st => specRoute st.snapFmt st.snap route else none
          let dec := hintDecoder (parseHints ws)
          let decoded := tgt.bind fun h => dec h.argT.id []
          let ctx := CtxArg.ty rc
          let expRan := match tgt, decoded with
            | some h, some v =>
              if ctxOK h ctx && cbOK h && (h.isRequest || !hasCb) then some (showRan h true (.val h.argT.id v)) else none
            | _, _ => none
          -- who gets the request
          let wantRet := b2s tgt.isSome
          let wantLegacy := b2s (tgt.isNone && legacy != .absent)
          -- the fall-through of handleRequest deserialises the body before anything else and panics when it cannot
          -- (`body=bad`: a type name the process does not know): a request no collection has the route of is answered
          -- "no method" (if it reached Dispatch and can be answered) and then the panic escapes — the legacy path's own
          -- `panic(err)`, outside the statement (Props: handle_request_unknown_route_bad_body_escapes), reported, not alarmed on
          if viaRecv && kv ws "body" == some "bad" && tgt.isNone then
            let fromApi := if toApi && hasCb && hasSender then ["f:err" ++ sfx] else []
            if o.panic && o.ran.isEmpty && o.comps == fromApi && kv (words obs) "legacy" == some "0" then
              (s', "ok outside-statement undeserialisable-body-panics-in-legacy-path")
            else if !o.ran.isEmpty then (s', s!"VIOLATION C13/wrong-handler-or-argtype nothing may run, ran {o.ran} :: {op}")
            else if !fromApi.isEmpty && !o.comps.contains ("f:err" ++ sfx) then (s', "VIOLATION C13/callback-never-completed " ++ op)
            else if o.comps != fromApi then (s', s!"VIOLATION C13/callback-completed-twice responses {o.comps} :: {op}")
            else (s', "VIOLATION C13/dispatch-wrong-collection handleRequest with an undeserialisable body went on to the legacy receiver :: " ++ op)
          else
          if !viaRecv && !o.panic && o.ret != some wantRet then
            (s', s!"VIOLATION C13/dispatch-wrong-collection Dispatch returned {o.ret} want {wantRet} :: {op}")
          else if viaRecv && !o.panic && kv (words obs) "legacy" != some wantLegacy then
            (s', s!"VIOLATION C13/dispatch-wrong-collection handleRequest: legacy receiver consulted={kv (words obs) "legacy"} want {wantLegacy} :: {op}")
          else if !hasSender then
            -- a request without a sender cannot be answered: nothing may be sent, nothing may escape, and the
            -- handler runs exactly when it would have with a sender
            if o.panic then (s', "VIOLATION C13/escaping-panic " ++ op)
            else if !o.comps.isEmpty then (s', "VIOLATION C13/wrong-handler-or-argtype a response was sent for a request without sender :: " ++ op)
            else match expRan, o.ran with
              | none, [] => (s', "ok")
              | some r, [r'] => if r == r' then (s', "ok") else (s', s!"VIOLATION C13/wrong-handler-or-argtype expected {r} got {r'} :: {op}")
              | some r, [] => (s', s!"VIOLATION C13/handler-not-invoked expected {r} :: {op}")
              | _, _ => (s', s!"VIOLATION C13/wrong-handler-or-argtype ran {o.ran} :: {op}")
          else if viaRecv && tgt.isNone then
            -- no collection has the route (or the request never reaches the dispatcher): a request that reached
            -- Dispatch is answered "no method" exactly once; an ANSWERING legacy receiver then answers as well —
            -- user code outside the statement (Props: unknown_route_answered_once_full_fails), reported, not alarmed on
            let fromApi := if toApi && hasCb then ["f:err" ++ sfx] else []
            let fromLegacy := if legacy == .answers && hasCb then ["h:ok" ++ sfx] else []
            if o.panic then (s', "VIOLATION C13/escaping-panic " ++ op)
            else if !o.ran.isEmpty then (s', s!"VIOLATION C13/wrong-handler-or-argtype nothing may run, ran {o.ran} :: {op}")
            else if o.comps == fromApi ++ fromLegacy then
              (s', if !fromApi.isEmpty && !fromLegacy.isEmpty then "ok outside-statement legacy-receiver-answers-after-no-method" else "ok")
            else if !fromApi.isEmpty && !o.comps.contains ("f:err" ++ sfx) then (s', "VIOLATION C13/callback-never-completed " ++ op)
            else (s', s!"VIOLATION C13/callback-completed-twice responses {o.comps} :: {op}")
          else if lateChokes (kv ws "beh") hasCb expRan o then (s', "ok outside-statement late-completion-chokes-outside-safecall")
          else
            (s', judgeCall op o hasCb beh true tgt expRan decoded.isSome sfx)
        | _, _, _, _ => (s', "bad-op")
      | _ => (s', "bad-op")
  | _ => (s, "bad-line")

/-- `bin/check` keeps the first 50 witnesses of a run; report each signature at most
three times so that a frequent one (the known finding D11) cannot crowd out another -/
def specStepCapped (sc : St × List (String × Nat)) (line : String) : (St × List (String × Nat)) × String :=
  let (s, counts) := sc
  let (s', r) := specStep s line
  if r.startsWith "VIOLATION " then
    let sig := ((r.splitOn " ").drop 1).headD "?"
    let n := ((counts.find? (·.1 == sig)).map (·.2)).getD 0
    let counts' := (counts.filter (·.1 != sig)) ++ [(sig, n + 1)]
    if n < 3 then ((s', counts'), r) else ((s', counts'), "ok repeat-of " ++ sig)
  else ((s', counts), r)

end Cell2v.Driver.C13

open Cell2v.Driver in
def main (args : List String) : IO Unit :=
  match args with
  | ["spec"] => runLoop Cell2v.Driver.C13.specStepCapped ({}, [])
  | _ => runLoop Cell2v.Driver.C13.step {}
