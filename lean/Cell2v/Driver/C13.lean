import Cell2v.Driver.Util
import Cell2v.Model.ApiMap
/-!
Model driver for C13 (API mapper).
`modeld_c13 model` : one op line in, one observation out (state threaded per case).
`modeld_c13 spec`  : lines `op\tobs` in, `ok` or `VIOLATION <signature> <why>` out —
the property predicate evaluated on the implementation's own observations.  The
spec monitor keeps its own bookkeeping (descriptors, registered entries) and
decides with the DECLARATIVE route table (`specRoute`/`owner`/`handlerShapedB`),
never with the operational model (`build`/`call…`); the two are tied together
by `Props/C13.route_table_eq_spec`.
-/
namespace Cell2v.Driver.C13
open Cell2v.Driver Cell2v.ApiMap

def strBytes (s : String) : Bytes := s.toUTF8.toList.map (·.toNat)
def bytesStr (b : Bytes) : String := String.ofList (b.map Char.ofNat)

/-! ### state -/

structure Store where
  fmtOK : Bool := true
  reg : Bool := false
  entries : List Entry := []
  built : Collection := []        -- model: the table made by the last Build
  snap : List Entry := []         -- spec: the entries registered at the last Build
  snapFmt : Bool := true

structure St where
  types : List (String × List Method) := []
  cols : List (Nat × Nat) := []          -- collection index of the op lines → store id
  stores : List (Nat × Store) := []

def St.store (s : St) (k : Nat) : Option (Nat × Store) := do
  let (_, sid) ← s.cols.find? (·.1 == k)
  let (_, st) ← s.stores.find? (·.1 == sid)
  pure (sid, st)

def St.setStore (s : St) (sid : Nat) (st : Store) : St :=
  { s with stores := (s.stores.filter (·.1 != sid)) ++ [(sid, st)] }

/-! ### parsing -/

def parseKind : String → Kind
  | "ptr" => .ptr | "struct" => .struct | "func" => .func | "iface" => .iface | "slice" => .slice
  | "map" => .map | "chan" => .chan | "array" => .array | _ => .other

def parseTy (v : String) : Option TyDesc :=
  match v.splitOn "/" with
  | [k, i, c, h] => (bytesOfHex h).map fun id => ⟨parseKind k, i == "1", c == "1", id⟩
  | _ => none

def parseIns (ws : List String) (n : Nat) : Option (List TyDesc) :=
  (List.range n).mapM fun i => (kv ws s!"i{i}").bind parseTy

def parseMethod (ws : List String) : Option Method := do
  let nin ← kvNat ws "nin"
  let ins ← parseIns ws nin
  let exp ← kvNat ws "exp"
  let name := (kv ws "name").getD "Synth"
  let id := (kv ws "id").getD name
  pure { name := strBytes name, id := strBytes id, exported := exp == 1, valRecv := (kvNat ws "val").getD 0 == 1, ins := ins }

def lowerB (b : Bytes) : Bytes := b.map fun c => if 65 ≤ c ∧ c ≤ 90 then c + 32 else c
def upperB (b : Bytes) : Bytes := b.map fun c => if 97 ≤ c ∧ c ≤ 122 then c - 32 else c
def lcamelB : Bytes → Bytes
  | c :: r => (if 65 ≤ c ∧ c ≤ 90 then c + 32 else c) :: r
  | [] => []

def parseNF : Option String → Option (Bytes → Bytes)
  | some "lower" => some lowerB
  | some "upper" => some upperB
  | some "lcamel" => some lcamelB
  | _ => none

structure BehX where
  beh : Beh
  known : Bool

def parseBeh : Option String → Option Beh
  | some "ok" => some ⟨[true], false, false⟩
  | some "late" => some ⟨[true], false, false⟩
  | some "err" => some ⟨[false], false, false⟩
  | some "twice" => some ⟨[true, true], false, false⟩
  | some "errok" => some ⟨[false, true], false, false⟩
  | some "none" => some ⟨[], false, false⟩
  | some "panic" => some ⟨[], true, false⟩
  | some "nilpan" => some ⟨[], true, false⟩
  | some "okpanic" => some ⟨[true], true, false⟩
  | some "badval" => some ⟨[true], false, true⟩
  | _ => none

/-- `d:<hex type id>=<hex value|err>` hints: what the serializer makes of the payload per declared type -/
def parseHints (ws : List String) : List (Bytes × Option Bytes) :=
  ws.filterMap fun w =>
    if w.startsWith "d:" then
      match ((w.drop 2).toString).splitOn "=" with
      | [t, v] => (bytesOfHex t).map fun tid => (tid, if v == "err" then none else bytesOfHex v)
      | _ => none
    else none

def hintDecoder (hints : List (Bytes × Option Bytes)) : Decoder :=
  fun tid _ => ((hints.find? (·.1 == tid)).map (·.2)).getD none

def parseCtx (ws : List String) : CtxArg :=
  match kv ws "ctxt" with
  | some "-" | none => .nil
  | some h => match bytesOfHex h with
    | some b => .ty b
    | none => .nil

def parseArg (ws : List String) : ArgV :=
  match kv ws "argt", kv ws "argv" with
  | some "-", _ | none, _ => .nil
  | some t, some v => match bytesOfHex t, bytesOfHex v with
    | some tb, some vb => .val tb vb
    | _, _ => .nil
  | some _, none => .nil

def parseNatList (v : String) : List Nat := (v.splitOn ",").filterMap String.toNat?

/-! ### printing -/

def sortStrings (l : List String) : List String := l.mergeSort (fun a b => decide (a ≤ b))

def dedupKeys {α : Type} (l : List (Bytes × α)) : List (Bytes × α) :=
  l.foldl (fun acc kv => if acc.any (fun x => x.1 == kv.1) then acc else acc ++ [kv]) []

def showItem (g k : Bytes) (h : Handler) : String :=
  s!"{hexOfBytes g}.{hexOfBytes k}={bytesStr h.meth.id}@{h.eid}:{if h.isRequest then "req" else "ntf"}:{hexOfBytes h.argT.id}:{hexOfBytes h.ctxT.id}"

def showDump (items : List String) : String :=
  s!"n={items.length} " ++ " ".intercalate (sortStrings items)

def dumpBuilt (col : Collection) : String :=
  showDump (col.flatMap fun c => (dedupKeys c.handlers).map fun (k, h) => showItem c.name k h)

def showRan (h : Handler) (ctxSet : Bool) (arg : ArgV) : String :=
  let v := match arg with | .nil => "6e756c6c" | .val _ v => hexOfBytes v
  s!"{bytesStr h.meth.id}@{h.eid}:{hexOfBytes h.argT.id}:{v}:ctx={if ctxSet then "set" else "nil"}"

def showComp (sfx : String) : Comp → String
  | .h true => "h:ok" ++ sfx
  | .h false => "h:err" ++ sfx
  | .f => "f:err" ++ sfx

def showComps (sfx : String) (l : List Comp) : String :=
  if l.isEmpty then "-" else ",".intercalate (l.map (showComp sfx))

def showOutcome (o : Outcome) (comps : List Comp) (sfx : String) : String :=
  let ran := match o with | .invoked h cs a => showRan h cs a | _ => "-"
  let p := match o with | .escaped => "panic " | _ => ""
  s!"{p}ran={ran} comps={showComps sfx comps}"

/-! ### bookkeeping shared by both modes -/

def mkEntry (s : St) (ws : List String) : Option Entry := do
  let ty ← kv ws "ty"
  let eid ← kvNat ws "eid"
  let tname ← kvHex ws "tname"
  let ptr ← kvNat ws "ptr"
  let ms := ((s.types.find? (·.1 == ty)).map (·.2)).getD []
  let group := match kv ws "gvia" with
    | some "none" | none => []
    | some "inner" => [95]
    | _ => (kvHex ws "group").getD []
  pure { eid := eid, typeName := tname, isPtr := ptr == 1, methods := ms, group := group, nameFunc := parseNF (kv ws "nf") }

def rebuild (st : Store) : Store :=
  { st with built := build st.fmtOK st.entries, snap := st.entries, snapFmt := st.fmtOK }

/-- state changes of the bookkeeping ops; `none` = malformed op -/
def update (s : St) (ws : List String) : Option St :=
  match ws.head? with
  | some "reset" => some {}
  | some "shape" => some s
  | some "meth" => do
    let ty ← kv ws "ty"
    let m ← parseMethod ws
    let old := ((s.types.find? (·.1 == ty)).map (·.2)).getD []
    pure { s with types := (s.types.filter (·.1 != ty)) ++ [(ty, old ++ [m])] }
  | some "newcol" => do
    let k ← kvNat ws "col"
    let s1 ← match kv ws "same" with
      | some "-" | none =>
        let s0 : St := { s with cols := (s.cols.filter (fun c => c.1 != k)) ++ [(k, k)] }
        pure (s0.setStore k { reg := kvNat ws "reg" == some 1 })
      | some j => do
        let j ← j.toNat?
        let (sid, _) ← s.store j
        let s0 : St := { s with cols := (s.cols.filter (fun c => c.1 != k)) ++ [(k, sid)] }
        pure s0
    if kv ws "fmt" == some "nil" then do
      let (sid, st) ← s1.store k
      pure (s1.setStore sid { st with fmtOK := false })
    else pure s1
  | some "regrace" => do
    -- n goroutines call Registry.AddCollection(same fresh name) concurrently: a sequence of atomic
    -- `Registry.add` steps, so every one of them holds the same collection (registry_same_name_same_collection)
    let k ← kvNat ws "col"
    let n ← kvNat ws "n"
    let s0 : St := { s with cols := (s.cols.filter (fun c => c.1 < k || c.1 ≥ k + n)) ++ (List.range n).map (fun i => (k + i, k)) }
    pure (s0.setStore k { reg := true })
  | some "entry" => do
    let k ← kvNat ws "col"
    let (sid, st) ← s.store k
    let e ← mkEntry s ws
    pure (s.setStore sid { st with entries := st.entries ++ [e] })
  | some "build" => do
    let k ← kvNat ws "col"
    let (sid, st) ← s.store k
    if kv ws "via" == some "reg" then
      pure { s with stores := s.stores.map fun (i, x) => if x.reg then (i, rebuild x) else (i, x) }
    else pure (s.setStore sid (rebuild st))
  | _ => some s

/-! ### model mode -/

def b2s (b : Bool) : String := if b then "1" else "0"

def step (s : St) (line : String) : St × String :=
  let ws := words line
  match update s ws with
  | none => (s, "bad-op")
  | some s' =>
    match ws.head? with
    | some "reset" | some "newcol" | some "entry" => (s', "ok")
    | some "regrace" =>
      -- the model: all callers get collection (Registry.add …).2, which the registry holds
      let n := (kvNat ws "n").getD 0
      let r1 := Registry.add [] [0]
      let ids := (List.range n).map fun _ => (r1.1.add [0]).2
      (s', s!"distinct={(r1.2 :: ids).eraseDups.length} held={b2s (lookup r1.1 [0] == some r1.2)}")
    | some "shape" | some "meth" =>
      match parseMethod ws with
      | some m => (s', s!"valid={b2s (isValidMethod m)}")
      | none => (s', "bad-op")
    | some "build" =>
      match (kvNat ws "col").bind s'.store with
      | some (_, st) => (s', dumpBuilt st.built)
      | none => (s', "bad-op")
    | some "has" =>
      match (kvNat ws "col").bind s'.store, kvHex ws "route" with
      | some (_, st), some route =>
        (s', match getArgType st.built route with
          | none => "0"
          | some t => "1 " ++ hexOfBytes t.id)
      | _, _ => (s', "bad-op")
    | some "csz" =>
      match (kvNat ws "col").bind s'.store, kvHex ws "route", kvHex ws "data", parseBeh (kv ws "beh"), kv ws "ser" with
      | some (_, st), some route, some data, some beh, some ser =>
        let dec : Option Decoder := if ser == "nil" then none else some (hintDecoder (parseHints ws))
        let hasCb := kvNat ws "cb" == some 1
        let o := callWithSerialize st.built dec route (parseCtx ws) data hasCb
        (s', showOutcome o (completions o hasCb beh) "")
      | _, _, _, _, _ => (s', "bad-op")
    | some "call" =>
      match (kvNat ws "col").bind s'.store, kvHex ws "route", parseBeh (kv ws "beh") with
      | some (_, st), some route, some beh =>
        let hasCb := kvNat ws "cb" == some 1
        let o := call st.built route (parseCtx ws) (parseArg ws) hasCb
        (s', showOutcome o (completions o hasCb beh) "")
      | _, _, _ => (s', "bad-op")
    | some "disp" =>
      match kvHex ws "route", kvHex ws "data", parseBeh (kv ws "beh"), kvNat ws "reqid", kvHex ws "rc" with
      | some route, some data, some beh, some reqid, some rc =>
        let cols := (parseNatList ((kv ws "cols").getD "")).filterMap fun k => (s'.store k).map (·.2.built)
        let isNotify := reqid == 0
        let r := dispatch cols (hintDecoder (parseHints ws)) rc route data isNotify
        let o := r.2.getD .fwErr
        let shown := match r.2 with
          | some o => showOutcome o (responses r isNotify beh) s!"#{reqid}"
          | none => s!"ran=- comps={showComps s!"#{reqid}" (responses r isNotify beh)}"
        let _ := o
        (s', s!"ret={b2s r.1} {shown}")
      | _, _, _, _, _ => (s', "bad-op")
    | _ => (s', "bad-op")

/-! ### spec mode: the property predicate on implementation observations -/

/-- the exposed set as the property words it: for every entry that owns its group name,
every handler-shaped method of its method set, under its renamed name -/
def specDump (fmtOK : Bool) (es : List Entry) : String :=
  let items := es.flatMap fun e =>
    let g := containerName e
    match owner fmtOK es g with
    | some o =>
      if o.eid == e.eid then
        (methodSet e).filterMap fun x =>
          if handlerShapedB x then
            let k := applyNF e.nameFunc x.name
            (specHandler fmtOK es g k).map fun h => showItem g k h
          else none
      else []
    | none => []
  showDump items.eraseDups

def contains (s sub : String) : Bool := (s.splitOn sub).length > 1

structure Obs where
  panic : Bool
  ret : Option String
  ran : List String
  comps : List String

def parseObs (obs : String) : Obs :=
  let ws := words obs
  let lst := fun (k : String) => match kv ws k with
    | some "-" | none => []
    | some v => v.splitOn ","
  { panic := contains obs "panic" || contains obs "no-observation" || contains obs "timeout",
    ret := kv ws "ret", ran := lst "ran", comps := lst "comps" }

/-- judgement of one call.  `target` = the handler the route names per the declarative table,
`expRan` = the invocation record the property demands (none = the handler must not run),
`reaches` = the inputs get as far as CallMethod (serializer present, payload decodes) -/
def judgeCall (op : String) (o : Obs) (hasCb : Bool) (beh : Beh) (cbPanicsOnBad : Bool) (target : Option Handler)
    (expRan : Option String) (reaches : Bool) (sfx : String) : String :=
  if o.panic then "VIOLATION C13/escaping-panic " ++ op
  else
    let fs := o.comps.filter (·.startsWith "f:")
    let hs := o.comps.filter (·.startsWith "h:")
    let hran := !o.ran.isEmpty
    let handlerPanics := beh.panics || (cbPanicsOnBad && beh.bad && beh.comps.any id)
    match expRan, o.ran with
    | some r, [] => s!"VIOLATION C13/handler-not-invoked expected {r} :: {op}"
    | some r, [r'] =>
      if r != r' then s!"VIOLATION C13/wrong-handler-or-argtype expected {r} got {r'} :: {op}" else
      if !hasCb then (if o.comps.isEmpty then "ok" else "VIOLATION C13/notify-was-completed " ++ op)
      else if fs.any (· != "f:err" ++ sfx) then "VIOLATION C13/completed-without-error " ++ op
      else if fs.length > (if handlerPanics then 1 else 0) then "VIOLATION C13/callback-completed-twice " ++ op
      else if handlerPanics && fs.isEmpty && hs.isEmpty then "VIOLATION C13/callback-never-completed (panicking handler) " ++ op
      else "ok"
    | some r, _ => s!"VIOLATION C13/wrong-handler-or-argtype expected once {r} :: {op}"
    | none, _ =>
      if hran then s!"VIOLATION C13/wrong-handler-or-argtype nothing may run, ran {o.ran} :: {op}"
      else if !hasCb then (if o.comps.isEmpty then "ok" else "VIOLATION C13/notify-was-completed " ++ op)
      else if !hs.isEmpty then "VIOLATION C13/wrong-handler-or-argtype completion by a handler that did not run :: " ++ op
      else if fs.any (· != "f:err" ++ sfx) then "VIOLATION C13/completed-without-error " ++ op
      else match fs.length with
        | 1 => "ok"
        | 0 =>
          match target with
          | some h =>
            if !h.isRequest && reaches then "VIOLATION C13/request-on-notify-shaped-never-completes " ++ op
            else "VIOLATION C13/callback-never-completed " ++ op
          | none => "VIOLATION C13/callback-never-completed " ++ op
        | _ => "VIOLATION C13/callback-completed-twice " ++ op

def cbOK (h : Handler) : Bool := !h.isRequest || ((h.meth.ins[3]?).map (·.cbAssignable)).getD false

def ctxOK (h : Handler) : CtxArg → Bool
  | .nil => true
  | .ty id => id == h.ctxT.id

def specStep (s : St) (line : String) : St × String :=
  match line.splitOn "\t" with
  | [op, obs] =>
    let ws := words op
    if op.startsWith "<harness-exit" then (s, "VIOLATION C13/escaping-panic the harness process died: " ++ op)
    else
    match update s ws with
    | none => (s, "bad-op")
    | some s' =>
      let o := parseObs obs
      match ws.head? with
      | some "reset" | some "newcol" | some "entry" => (s', "ok")
      | some "regrace" =>
        if o.panic then (s', "VIOLATION C13/escaping-panic " ++ op)
        else if obs == "distinct=1 held=1" then (s', "ok")
        else (s', s!"VIOLATION C13/registry-lost-collection concurrent AddCollection of one name: {obs} (want one object, held by the registry) :: {op}")
      | some "shape" | some "meth" =>
        match parseMethod ws with
        | some m =>
          if o.panic then (s', "VIOLATION C13/escaping-panic " ++ op)
          else if obs == s!"valid={b2s (handlerShapedB m)}" then (s', "ok")
          else (s', s!"VIOLATION C13/exposed-set-wrong shape predicate answers {obs} :: {op}")
        | none => (s', "bad-op")
      | some "build" =>
        match (kvNat ws "col").bind s'.store with
        | some (_, st) =>
          if o.panic then (s', "VIOLATION C13/escaping-panic " ++ op)
          else
            let want := specDump st.snapFmt st.snap
            if obs == want then (s', "ok") else (s', s!"VIOLATION C13/exposed-set-wrong want [{want}] got [{obs}]")
        | none => (s', "bad-op")
      | some "has" =>
        match (kvNat ws "col").bind s'.store, kvHex ws "route" with
        | some (_, st), some route =>
          let want := match specRoute st.snapFmt st.snap route with
            | none => "0"
            | some h => "1 " ++ hexOfBytes h.argT.id
          if o.panic then (s', "VIOLATION C13/escaping-panic " ++ op)
          else if obs == want then (s', "ok") else (s', s!"VIOLATION C13/exposed-set-wrong HasMethod/GetArgType want {want} got {obs} :: {op}")
        | _, _ => (s', "bad-op")
      | some "csz" =>
        match (kvNat ws "col").bind s'.store, kvHex ws "route", parseBeh (kv ws "beh"), kv ws "ser" with
        | some (_, st), some route, some beh, some ser =>
          let hasCb := kvNat ws "cb" == some 1
          let ctx := parseCtx ws
          let target := specRoute st.snapFmt st.snap route
          let dec := hintDecoder (parseHints ws)
          let decoded := if ser == "nil" then none else target.bind fun h => dec h.argT.id []
          let expRan := match target, decoded with
            | some h, some v =>
              if ctxOK h ctx && cbOK h && (h.isRequest || !hasCb) then some (showRan h (ctx != .nil) (.val h.argT.id v)) else none
            | _, _ => none
          (s', judgeCall op o hasCb beh false target expRan decoded.isSome "")
        | _, _, _, _ => (s', "bad-op")
      | some "call" =>
        match (kvNat ws "col").bind s'.store, kvHex ws "route", parseBeh (kv ws "beh") with
        | some (_, st), some route, some beh =>
          let hasCb := kvNat ws "cb" == some 1
          let ctx := parseCtx ws
          let arg := parseArg ws
          let target := specRoute st.snapFmt st.snap route
          let argOK := fun (h : Handler) => match arg with | .nil => true | .val t _ => t == h.argT.id
          let expRan := match target with
            | some h =>
              if ctxOK h ctx && argOK h && cbOK h && (h.isRequest || !hasCb) then some (showRan h (ctx != .nil) arg) else none
            | none => none
          (s', judgeCall op o hasCb beh false target expRan true "")
        | _, _, _ => (s', "bad-op")
      | some "disp" =>
        match kvHex ws "route", parseBeh (kv ws "beh"), kvNat ws "reqid", kvHex ws "rc" with
        | some route, some beh, some reqid, some rc =>
          let stores := (parseNatList ((kv ws "cols").getD "")).filterMap fun k => (s'.store k).map (·.2)
          let hasCb := reqid != 0
          let sfx := s!"#{reqid}"
          -- the first collection whose table has the route processes the request
          let tgt := stores.findSome? fun st => specRoute st.snapFmt st.snap route
          let wantRet := b2s tgt.isSome
          if !o.panic && o.ret != some wantRet then
            (s', s!"VIOLATION C13/dispatch-wrong-collection Dispatch returned {o.ret} want {wantRet} :: {op}")
          else
            let dec := hintDecoder (parseHints ws)
            let decoded := tgt.bind fun h => dec h.argT.id []
            let ctx := CtxArg.ty rc
            let expRan := match tgt, decoded with
              | some h, some v =>
                if ctxOK h ctx && cbOK h && (h.isRequest || !hasCb) then some (showRan h true (.val h.argT.id v)) else none
              | _, _ => none
            (s', judgeCall op o hasCb beh true tgt expRan decoded.isSome sfx)
        | _, _, _, _ => (s', "bad-op")
      | _ => (s', "bad-op")
  | _ => (s, "bad-line")

/-- `bin/check` keeps the first 50 witnesses of a run; report each signature at most
three times so that a frequent one (the known finding D11) cannot crowd out another -/
def specStepCapped (sc : St × List (String × Nat)) (line : String) : (St × List (String × Nat)) × String :=
  let (s, counts) := sc
  let (s', r) := specStep s line
  if r.startsWith "VIOLATION " then
    let sig := ((r.splitOn " ").drop 1).headD "?"
    let n := ((counts.find? (·.1 == sig)).map (·.2)).getD 0
    let counts' := (counts.filter (·.1 != sig)) ++ [(sig, n + 1)]
    if n < 3 then ((s', counts'), r) else ((s', counts'), "ok repeat-of " ++ sig)
  else ((s', counts), r)

end Cell2v.Driver.C13

open Cell2v.Driver in
def main (args : List String) : IO Unit :=
  match args with
  | ["spec"] => runLoop Cell2v.Driver.C13.specStepCapped ({}, [])
  | _ => runLoop Cell2v.Driver.C13.step {}
