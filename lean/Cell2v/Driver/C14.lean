import Cell2v.Driver.Util
import Cell2v.Model.Timer
import Cell2v.Model.TimerSvc
/-!
Model driver for C14 (timer manager).

* `modeld_c14 model`  : op line in → observation out; ties (simultaneous expiries)
  resolved FIFO.
* `modeld_c14 accept` : `op<TAB>implObs` in → `ok` / `REJECT want=<model obs>`.  The only
  legitimate nondeterminism is the order in which simultaneous expiries reach the
  queue: the order is read off the implementation's observation (`pop=` / the order
  of `cb:` events), must be a choice the model allows (same firing batch as the queue
  head), and then the model's observation must equal the implementation's.
* `modeld_c14 spec`   : the property predicate itself on the implementation's
  observations, with its own bookkeeping, independent of the model.

Every macro operation below is a sequence of primitive `Timer.step`s, the steps the
theorems of `Props/C14.lean` quantify over.
-/
namespace Cell2v.Driver.C14
open Cell2v.Driver Cell2v.Timer

structure DS where
  m : State := {}
  tags : List Nat := []   -- parallel to `m.queue`: firing batch of each queued object
  batch : Nat := 0        -- fresh at the start of every macro operation
  rs : Bool := false      -- the case runs on a real StandardRunService (loop drains at once)
  cand : List (Nat × Nat) := []  -- (id, instant) of the runtime timers set and not yet gone off (read off the events)
  blocked : Bool := false        -- rs mode: the owner loop is stuck in a posted closure, nothing drains
  dead : Bool := false           -- rs mode: the run service was stopped
  svc : Bool := false            -- service-level case: an actorex/service.Service owns the manager
  pending : List (Nat × Nat) := []  -- its request table: (tag, deadline)
  own : Nat := 0                 -- Service.timerCheckExpired
  again : List Nat := []         -- tags of the requests whose completion callback retries on timeout
  deriving Inhabited

def qcap : Nat := 999

def DS.qlen (d : DS) : Nat := min qcap d.m.queue.length

/-- one primitive model step, keeping `tags` aligned with the queue and `cand` with the armings -/
def stepM (d : DS) (op : Op) : DS × List Event :=
  let r := step d.m op
  let n0 := d.m.queue.length
  let n1 := r.1.queue.length
  let tags :=
    if n1 = n0 + 1 then d.tags ++ [d.batch]
    else if n1 + 1 = n0 then (match op with | .doNext i => d.tags.eraseIdx i | _ => d.tags)
    else d.tags
  let cand := r.2.foldl (fun c e =>
    match e with
    | .created id t dl _ _ => c ++ [(id, t + dl)]
    | .rearm id t p => c ++ [(id, t + p)]
    | _ => c) d.cand
  ({ d with m := r.1, tags := tags, cand := cand }, r.2)

/-- issue the expiry step for every candidate whose instant is ≤ `target` (a no-op in the
model for timers that were cancelled meanwhile) -/
def fire (d : DS) (target : Nat) : DS :=
  let due := d.cand.filter (·.2 ≤ target)
  let d := { d with cand := d.cand.filter (fun c => !(c.2 ≤ target)) }
  due.foldl (fun d c => (stepM d (.expire c.1)).1) d

/-- every runtime timer due at the current instant fires: one batch -/
def settle (d : DS) : DS :=
  let d := fire d d.m.now
  { d with batch := d.batch + 1 }

def joinWith (sep : String) (xs : List String) : String := sep.intercalate xs

def showArgs (a : List Nat) : String := joinWith "." (a.map toString)

def evTok : Event → Option String
  | .cb id t a => some s!"cb:{id}@{t}:{showArgs a}"
  | _ => none

def actTok (m : State) (id : Nat) : Act → String
  | .cancelSelf => s!"cx:{id}"
  | .cancel x => s!"cx:{x}"
  | .cancelNewest => s!"cx:{m.nextId}"
  | .after du _ arg => s!"new:{m.nextId + 1}:a:{du}:{arg}"
  | .add du _ arg => s!"new:{m.nextId + 1}:t:{du}:{arg}"
  | .panic => s!"panic:{id}"

/-- a `Cancel` inside a callback whose target's runtime timer is set for an instant that has
already come (a timer the same callback created with no delay): the expiry goroutine may
already have run, concurrently with the owner — then the object sits in the queue,
cancelled, and is skipped later.  Both orders are behaviours of the model (`expire` may
happen between any two `cbStep`s); which one happened shows in the queue length. -/
def racyTarget (d : DS) (id : Nat) (acts : List Act) : Option Nat :=
  let tgt : Option Nat := match acts with
    | .cancelSelf :: _ => some id
    | .cancel x :: _ => some x
    | .cancelNewest :: _ => some d.m.nextId
    | _ => none
  match tgt with
  | some x =>
    if !d.rs && (d.m.tm x).armed && d.cand.any (fun c => c.1 == x && decide (c.2 ≤ d.m.now)) then some x else none
  | none => none

def fireOne (d : DS) (x : Nat) : DS :=
  (stepM { d with cand := d.cand.filter (fun c => c.1 != x) } (.expire x)).1

/-- run the callback in progress to its end (`cbStep`s), collecting log tokens; all outcomes,
the one without early expiries first -/
def runCbN : Nat → DS → List String → List (DS × List String)
  | 0, d, acc => [(d, acc)]
  | fuel + 1, d, acc =>
    match d.m.cur with
    | none => [(d, acc)]
    | some (id, acts) =>
      let acc := match acts with
        | a :: _ => acc ++ [actTok d.m id a]
        | [] => acc
      let plain := runCbN fuel (stepM d .cbStep).1 acc
      match racyTarget d id acts with
      | some x => plain ++ runCbN fuel (stepM (fireOne d x) .cbStep).1 acc
      | none => plain

/-- the consumer takes queue element `i` and calls `Do` -/
def runDoN (d : DS) (i : Nat) : List (DS × List String) :=
  let (d, evs) := stepM d (.doNext i)
  (runCbN 100000 d (evs.filterMap evTok)).map fun (d, toks) => (settle d, toks)

def runDo (d : DS) (i : Nat) : DS × List String :=
  match runDoN d i with
  | r :: _ => r
  | [] => (d, [])

/-- entries whose object is cancelled are received and skipped without any trace -/
def dropCancelled (d : DS) : DS :=
  let ids := d.m.queue.filter fun id => (d.m.tm id).cancelled
  ids.foldl (fun d id => (stepM d (.doNext (d.m.queue.idxOf id))).1) d

/-- run-service loop: drain the queue, in the order given by `hints` where possible -/
def pump : Nat → DS → List Nat → DS × List String × List Nat
  | 0, d, hints => (d, [], hints)
  | fuel + 1, d, hints =>
    let d := dropCancelled d
    match d.m.queue with
    | [] => (d, [], hints)
    | hd :: _ =>
      let (id, hints') := match hints with
        | h :: hs => if d.m.queue.contains h then (h, hs) else (hd, hints)
        | [] => (hd, [])
      let (d, toks) := runDo d (d.m.queue.idxOf id)
      let (d, toks', hs) := pump fuel d hints'
      (d, toks ++ toks', hs)

def minExp (d : DS) (target : Nat) : Option Nat :=
  (d.cand.filter (·.2 ≤ target)).foldl (fun acc c =>
    match acc with
    | none => some c.2
    | some e => some (min e c.2)) none

def advanceTo (d : DS) (t : Nat) : DS :=
  if t > d.m.now then (stepM d (.advance (t - d.m.now))).1 else d

/-- virtual time passes up to `target` while the loop keeps draining (rs mode) -/
def rsAdv : Nat → DS → Nat → List Nat → DS × List String
  | 0, d, _, _ => (d, [])
  | fuel + 1, d, target, hints =>
    let (d, toks, hints) := pump 100000 d hints
    match minExp d target with
    | none => (advanceTo d target, toks)
    | some e =>
      let d := settle (advanceTo d e)
      let (d, toks') := rsAdv fuel d target hints
      (d, toks ++ toks')

/-- manual mode: expiries up to `target` are queued in order of their instant, one
batch per instant (nothing re-arms meanwhile: only `Do` arms timers) -/
def manAdv (d : DS) (target : Nat) : DS :=
  let due := (d.cand.filter (·.2 ≤ target)).mergeSort fun a b => decide (a.2 ≤ b.2)
  let d := { d with cand := d.cand.filter (fun c => !(c.2 ≤ target)) }
  let d := due.foldl (fun d c =>
    let d := if c.2 > d.m.now then { advanceTo d c.2 with batch := d.batch + 1 } else d
    (stepM d (.expire c.1)).1) d
  let d := advanceTo d target
  { d with batch := d.batch + 1 }

/-! ### service level (actorex/service.Service: tryStartCheckTimer / checkExpired / freeTimer)

The service logic is the model `Model/TimerSvc.lean` (theorems: `Props/C14.lean`, section
`svc`); every step taken here in a service-level case is a `TimerSvc.svcStep`, so what the
implementation is compared with is a `svcRun` history.  The driver only decides WHEN the
environment steps happen (which runtime timers are due, when the loop drains). -/

open Cell2v.TimerSvc in
def svOf (d : DS) : Svc := { t := d.m, own := d.own, pending := d.pending, again := d.again }

/-- one step of the service model, `cand` kept aligned with the armings -/
def stepS (d : DS) (op : TimerSvc.SOp) : DS × List Event :=
  let r := TimerSvc.svcStep (svOf d) op
  let cand := r.2.foldl (fun c e =>
    match e with
    | .created id t dl _ _ => c ++ [(id, t + dl)]
    | .rearm id t p => c ++ [(id, t + p)]
    | _ => c) d.cand
  ({ d with m := r.1.t, own := r.1.own, pending := r.1.pending, again := r.1.again, cand := cand, tags := [] }, r.2)

/-- every runtime timer due at the current instant goes off -/
def settleS (d : DS) : DS :=
  let due := d.cand.filter (·.2 ≤ d.m.now)
  let d := { d with cand := d.cand.filter (fun c => !(c.2 ≤ d.m.now)) }
  let d := due.foldl (fun d c => (stepS d (.expire c.1)).1) d
  { d with batch := d.batch + 1 }

def advanceToS (d : DS) (t : Nat) : DS :=
  if t > d.m.now then (stepS d (.advance (t - d.m.now))).1 else d

def liveIds (m : State) : List Nat := ((List.range (m.nextId + 1)).filter (· ≥ 2)).filter fun id => (m.tm id).inMap

def svcSuffix (d : DS) (toks : List String) : String :=
  s!"now={d.m.now} ev={joinWith ";" (toks.filter (·.startsWith "cb:"))} live={joinWith "," ((liveIds d.m).map toString)} own={d.own} pend={d.pending.length} q={d.qlen}"

/-- the run-service loop drains the queue; each receive is a `tick` of the service model -/
def svcPump : Nat → DS → DS × List String
  | 0, d => (d, [])
  | fuel + 1, d =>
    match d.m.queue with
    | [] => (d, [])
    | _ :: _ =>
      let (d, evs) := stepS d .tick
      let d := settleS d
      let (d, toks') := svcPump fuel d
      (d, evs.filterMap evTok ++ toks')

def svcAdv : Nat → DS → Nat → DS × List String
  | 0, d, _ => (d, [])
  | fuel + 1, d, target =>
    let (d, toks) := svcPump 1000 d
    match minExp d target with
    | none => (advanceToS d target, toks)
    | some e =>
      let d := settleS (advanceToS d e)
      let (d, toks') := svcAdv fuel d target
      (d, toks ++ toks')

def execSvc (d : DS) (ws : List String) : DS × String :=
  match ws.head? with
  | some "sreq" =>
    match kvNat ws "k" with
    | some k =>
      -- `again=1`: the request's completion callback issues request k+1000 when called with ErrTimeout
      let d := settleS (stepS d (if (kvNat ws "again").getD 0 == 1 then .reqAgain k else .req k)).1
      (d, svcSuffix d [])
    | none => (d, "bad-op")
  | some "sresp" =>
    match kvNat ws "k" with
    | some k =>
      let d := (stepS d (.resp k)).1
      (d, svcSuffix d [])
    | none => (d, "bad-op")
  | some "sadv" =>
    match kvNat ws "d" with
    | some du =>
      let (d, toks) := svcAdv 1000000 d (d.m.now + du)
      (d, svcSuffix d toks)
    | none => (d, "bad-op")
  | _ => (d, "bad-op")

/-! ### parsing -/

def parseArgs (s : String) : List Nat := (s.splitOn ".").filterMap String.toNat?

def parseAct (tok : String) : Option Act :=
  match tok.splitOn ":" with
  | ["cs"] => some .cancelSelf
  | ["cn"] => some .cancelNewest
  | ["p"] | ["pe"] | ["pr"] | ["pv"] => some .panic   -- whatever the value thrown: `recover()` takes it
  | ["c", x] => x.toNat?.map .cancel
  | ["a", du, k, arg] => do pure (.after (← du.toInt?) (← k.toNat?) (← arg.toNat?))
  | ["t", du, k, arg] => do pure (.add (← du.toInt?) (← k.toNat?) (← arg.toNat?))
  | _ => none

def parseActs (s : String) : List Act := (s.splitOn ",").filterMap parseAct

def kvInt (ws : List String) (key : String) : Option Int := (kv ws key).bind String.toInt?

def rsSuffix (d : DS) (toks : List String) : String :=
  let q := if d.dead then "?" else toString d.qlen
  s!"ev={joinWith ";" toks} q={q} loop=1"

/-- a stopped run service: its exiting loop may still take some queued objects — exactly the
ones whose callbacks were observed -/
def pumpHinted (d : DS) (hints : List Nat) : DS × List String :=
  hints.foldl (fun (acc : DS × List String) h =>
    if acc.1.m.queue.contains h then
      let (d, toks) := runDo acc.1 (acc.1.m.queue.idxOf h)
      (d, acc.2 ++ toks)
    else acc) (d, [])

/-- ids of the `cb:` events of an implementation observation, in order -/
def cbIdsOf (obs : String) : List Nat :=
  match kv (words obs) "ev" with
  | none => []
  | some v => (v.splitOn ";").filterMap fun tok =>
      if tok.startsWith "cb:" then
        (((tok.drop 3).toString.splitOn "@").head?).bind String.toNat?
      else none

/-- execute one op line; `hints` = the implementation's tie choices (empty: FIFO) -/
def exec (d : DS) (line : String) (hints : List Nat) : DS × String :=
  let ws := words line
  let hd := ws.head?.getD ""
  if d.dead && !(hd == "adv" || hd == "unblock" || hd == "reset") then (d, "bad-op") else
  if d.blocked && !(hd == "adv" || hd == "unblock" || hd == "rstop" || hd == "reset") then (d, "bad-op") else
  match ws.head? with
  | some "block" =>
    if !d.rs || d.svc then (d, "bad-op") else
    let d := { d with blocked := true }
    (d, rsSuffix d [])
  | some "unblock" =>
    if !d.blocked then (d, "bad-op") else
    let d := { d with blocked := false }
    if d.dead then
      let (d, toks) := pumpHinted d hints
      (d, rsSuffix d toks)
    else
      let (d, toks, _) := pump 100000 d hints
      (d, rsSuffix d toks)
  | some "usel" =>
    -- the owner adds a selector of its own (any name) to the loop of its run service: the model has
    -- one consumer of the timer queue and a selector's name is not part of it — nothing changes, the
    -- loop goes on draining
    let byv := (kv ws "by").getD ""
    if !d.rs || d.svc || !(byv == "foreign" || byv == "owner") then (d, "bad-op") else
    let (d, toks, _) := pump 100000 d hints
    (d, "served=1 " ++ rsSuffix d toks)
  | some "rstop" =>
    let byv := (kv ws "by").getD ""
    if !d.rs || d.svc || !(byv == "foreign" || byv == "owner") || (byv == "owner" && d.blocked) then (d, "bad-op") else
    let d := { (settle (stepM d .stop).1) with dead := true }
    (d, rsSuffix d [])
  | some "reset" =>
    let svc := (kvNat ws "svc").getD 0 == 1
    ({ rs := (kvNat ws "rs").getD 0 == 1 || svc, svc := svc }, "ok")
  | some "sreq" | some "sresp" | some "sadv" => if d.svc then execSvc d ws else (d, "bad-op")
  | some "script" =>
    match kvNat ws "n" with
    | some k => ((stepM d (.defScript k (parseActs ((kv ws "a").getD "")))).1, "ok")
    | none => (d, "bad-op")
  | some "after" | some "add" =>
    match kvInt ws "d", kvNat ws "s" with
    | some du, some k =>
      let args := parseArgs ((kv ws "args").getD "")
      let op := if ws.head? == some "after" then Op.after du k args else Op.add du k args
      let d := settle (stepM d op).1
      let id := d.m.nextId
      if d.rs then
        let (d, toks, _) := pump 100000 d hints
        (d, s!"id={id} " ++ rsSuffix d toks)
      else (d, s!"id={id} q={d.qlen}")
    | _, _ => (d, "bad-op")
  | some "cancel" =>
    match kvNat ws "id" with
    | some id =>
      let d := settle (stepM d (.cancel id)).1
      if d.rs then
        let (d, toks, _) := pump 100000 d hints
        (d, rsSuffix d toks)
      else (d, s!"q={d.qlen}")
    | none => (d, "bad-op")
  | some "stop" =>
    let d := settle (stepM d .stop).1
    if d.rs then (d, rsSuffix d []) else (d, "ok")
  | some "adv" =>
    match kvNat ws "d" with
    | some du =>
      if d.rs && (d.blocked || d.dead) then
        let d := manAdv d (d.m.now + du)
        (d, s!"now={d.m.now} " ++ rsSuffix d [])
      else if d.rs then
        let (d, toks) := rsAdv 1000000 d (d.m.now + du) hints
        (d, s!"now={d.m.now} " ++ rsSuffix d toks)
      else
        let d := manAdv d (d.m.now + du)
        (d, s!"now={d.m.now} q={d.qlen}")
    | none => (d, "bad-op")
  | some "do" =>
    if d.rs then (d, "bad-op") else
    match d.m.queue with
    | [] => (d, "empty")
    | hd :: _ =>
      let id := match hints with
        | h :: _ => if d.m.queue.contains h then h else hd
        | [] => hd
      let i := d.m.queue.idxOf id
      -- the choice must be within the firing batch of the head
      if d.tags[i]? != d.tags[0]? then (d, s!"not-a-tie pop={id} head={hd}") else
      let (d, toks) := runDo d i
      (d, s!"pop={id} ev={joinWith ";" toks} q={d.qlen}")
  | _ => (d, "bad-op")

/-- all outcomes of one op line (only a manual `do` can have more than one) -/
def execN (d : DS) (line : String) (hints : List Nat) : List (DS × String) :=
  let ws := words line
  if ws.head? == some "do" && !d.rs then
    match d.m.queue with
    | [] => [exec d line hints]
    | hd :: _ =>
      let id := match hints with
        | h :: _ => if d.m.queue.contains h then h else hd
        | [] => hd
      let i := d.m.queue.idxOf id
      if d.tags[i]? != d.tags[0]? then [exec d line hints] else
      (runDoN d i).map fun (d, toks) => (d, s!"pop={id} ev={joinWith ";" toks} q={d.qlen}")
  else [exec d line hints]

def modelStep (d : DS) (line : String) : DS × String := exec d line []

/-- observation equality where a token `key=?` of the implementation (a white-box probe that could
not be resolved on this source tree) matches whatever the model says for `key` -/
def obsMatch (want obs : String) : Bool :=
  want == obs ||
  (let a := want.splitOn " "
   let b := obs.splitOn " "
   a.length == b.length &&
   (a.zip b).all fun (x, y) => x == y || (y.endsWith "=?" && x.startsWith ((y.dropEnd 1).toString)))

/-- acceptance: the set of model states compatible with everything observed so far -/
def acceptStep (ds : List DS) (line : String) : List DS × String :=
  match line.splitOn "\t" with
  | [op, obs] =>
    let hints := if (words op).head? == some "do" then ((kvNat (words obs) "pop").map ([·])).getD [] else cbIdsOf obs
    if (words op).head? == some "reset" then ([(exec {} op []).1], if obs == "ok" then "ok" else "REJECT want=ok") else
    let outs := ds.flatMap fun d => execN d op hints
    let good := outs.filter fun o => obsMatch o.2 obs
    match good, outs with
    | _ :: _, _ => ((good.map (·.1)).take 64, "ok")
    | [], o :: _ => ([o.1], "REJECT want=" ++ o.2)
    | [], [] => (ds, "REJECT no-model-state")
  | _ => (ds, "REJECT bad-line")

/-! ### the property predicate on implementation observations (independent of the model) -/

structure TI where
  id : Nat
  t0 : Nat
  delay : Nat
  period : Nat
  args : List Nat
  cancelled : Bool := false
  count : Nat := 0
  last : Nat := 0
  deriving Inhabited

structure SS where
  now : Nat := 0
  rs : Bool := false
  stopped : Bool := false
  tis : List TI := []
  viol : Option String := none
  curT : Nat := 0          -- time of the callback whose log is being read
  lenient : Bool := false  -- the observation is cut short (runaway): ids may be unknown
  svc : Bool := false      -- service-level case
  own : Nat := 0           -- the check timer the service believes it owns (0: none)
  blocked : Bool := false  -- rs mode: the owner loop is known to be stuck, the queue may fill
  emptySince : Option Nat := none  -- the request table has been observed empty since (end of an op)
  idleTicks : Nat := 0     -- check-timer ticks since then
  pend : Nat := 0          -- service level: size of the request table at the end of the previous op
  deriving Inhabited

def SS.find (s : SS) (id : Nat) : Option TI := s.tis.find? (·.id == id)

def SS.modify (s : SS) (id : Nat) (f : TI → TI) : SS :=
  { s with tis := s.tis.map fun t => if t.id == id then f t else t }

def SS.flag (s : SS) (sig why : String) : SS :=
  match s.viol with
  | some _ => s
  | none => { s with viol := some (sig ++ " " ++ why) }

def SS.register (s : SS) (id t0 : Nat) (du : Int) (rep : Bool) (args : List Nat) : SS :=
  { s with tis := s.tis ++ [{ id := id, t0 := t0, delay := du.toNat, period := if rep then du.toNat else 0, args := args }] }

/-- one token of a callback log -/
def specTok (s : SS) (tok : String) : SS :=
  match tok.splitOn ":" with
  | ["cb", idt, a] =>
    match idt.splitOn "@" with
    | [ids, ts] =>
      match ids.toNat?, ts.toNat? with
      | some id, some t =>
        let s := { s with curT := t }
        match s.find id with
        | none => if s.lenient then s else s.flag "C14/unknown-timer-fired" s!"callback of timer {id} which was never created"
        | some ti =>
          let s := if ti.cancelled then s.flag "C14/callback-after-cancel" s!"timer {id} ran at {t} after it had been cancelled" else s
          let s := if ti.period == 0 && ti.count ≥ 1 then s.flag "C14/oneshot-fired-twice" s!"one-shot timer {id} ran again at {t}" else s
          let due := if ti.count == 0 then ti.t0 + ti.delay else ti.last + ti.period
          let s := if t < due then s.flag "C14/fired-early" s!"timer {id} ran at {t}, not allowed before {due}" else s
          let s := if parseArgs a != ti.args then s.flag "C14/args-changed" s!"timer {id} got args {a}, created with {showArgs ti.args}" else s
          s.modify id fun ti => { ti with count := ti.count + 1, last := t }
      | _, _ => s.flag "C14/bad-observation" tok
    | _ => s.flag "C14/bad-observation" tok
  | ["cx", ids] =>
    match ids.toNat? with
    | some id => s.modify id fun ti => { ti with cancelled := true }
    | none => s
  | ["new", ids, kind, du, arg] =>
    match ids.toNat?, du.toInt?, arg.toNat? with
    | some id, some du, some arg => s.register id s.curT du (kind == "t") [arg]
    | _, _, _ => s.flag "C14/bad-observation" tok
  | _ => s

def probe (ow : List String) (key : String) : Option Nat := (kv ow key).bind String.toNat?

def liveOf (ow : List String) : Option (List Nat) :=
  match kv ow "live" with
  | some "?" => none
  | some v => some ((v.splitOn ",").filterMap String.toNat?)
  | none => none

/-- service level, before the callback log is read: a timer the service newly owns (or, when that
probe is unresolved, a timer newly held by the manager) was armed now, with the 1 s period -/
def svcPre (s : SS) (ow : List String) : SS :=
  if kv ow "ev" == some "?" then { s with lenient := true } else   -- no callback log on this tree
  let ids := (match probe ow "own" with | some o => if o != 0 then [o] else [] | none => []) ++ (liveOf ow).getD []
  let s := ids.foldl (fun s id => if (s.find id).isNone then s.register id s.now 1000 true [] else s) s
  { s with lenient := s.lenient || ((probe ow "own").isNone && (liveOf ow).isNone) }

/-- ticks of the check timer while the request table stays empty: the first one frees the timer -/
def svcIdle (s : SS) (toks : List String) (ow : List String) : SS :=
  let n := (toks.filter (·.startsWith "cb:")).length
  let s := if s.emptySince.isSome then { s with idleTicks := s.idleTicks + n } else s
  let s := if s.idleTicks ≥ 3 then
      s.flag "C14/cancel-had-no-effect" s!"the check timer fired {s.idleTicks} times although the request table has been empty since {s.emptySince.getD 0}: the service's cancel of its timer has no effect"
    else s
  match kvNat ow "pend" with
  | some 0 => if s.emptySince.isNone then { s with emptySince := some ((kvNat ow "now").getD s.now), idleTicks := 0 } else s
  | some _ => { s with emptySince := none, idleTicks := 0 }
  | none => s

/-- service level, after the log: the service gave up (cancelled) the timer it owned; what its
timer manager still holds must be exactly the timer the service owns.  Clauses whose probe is
unresolved (`?`) are skipped. -/
def svcPost (s : SS) (ow : List String) : SS :=
  let s := match probe ow "own" with
    | some own' =>
      let s := if s.own != 0 && own' != s.own then s.modify s.own fun ti => { ti with cancelled := true } else s
      { s with own := own' }
    | none => s
  -- what the manager no longer holds has been cancelled (or was a finished one-shot)
  let s := match liveOf ow with
    | some live => { s with tis := s.tis.map fun ti => if live.contains ti.id then ti else { ti with cancelled := true } }
    | none => s
  -- an outstanding request has its check timer (`svc_request_keeps_check_timer`)
  let s := match kvNat ow "pend", probe ow "own" with
    | some p, some own' =>
      if p > 0 && own' == 0 then
        s.flag "C14/request-without-check-timer" s!"{p} requests are outstanding but the service owns no check timer: the repeating timer it asked for was given up and nothing will time these requests out"
      else s
    | _, _ => s
  match liveOf ow, probe ow "own" with
  | some live, some own' =>
    let stale := live.filter fun id => id != own'
    let s := match stale.find? (fun id => (s.find id).any (·.cancelled)) with
      | some id => s.flag "C14/cancel-had-no-effect" s!"the service cancelled its check timer {id} (from inside that timer's callback) but the timer manager still holds it"
      | none => s
    let s := if live.length > 1 || (!stale.isEmpty) then
        s.flag "C14/timer-leaked" s!"timer manager holds timers {live} while the service owns {own'}: at most the one check timer may be alive"
      else s
    if own' != 0 && !live.contains own' then
      s.flag "C14/timer-lost" s!"the service owns check timer {own'} but the timer manager does not hold it"
    else s
  | some live, none =>
    if live.length > 1 then s.flag "C14/timer-leaked" s!"timer manager holds timers {live}: at most the one check timer may be alive" else s
  | none, _ => s

def evToks (obs : String) (key : String) : List String :=
  match kv (words obs) key with
  | none => []
  | some v => (v.splitOn ";").filter (· ≠ "")

/-- timers that must have fired by now and have not (not cancelled, manager running) -/
def overdue (s : SS) : List TI :=
  s.tis.filter fun ti =>
    !ti.cancelled &&
    (if ti.count == 0 then decide (ti.t0 + ti.delay ≤ s.now)
     else ti.period > 0 && decide (ti.last + ti.period ≤ s.now))

def specStep (s : SS) (line : String) : SS × String :=
  match line.splitOn "\t" with
  | [op, obs] =>
    let ws := words op
    let ow := words obs
    let s := { s with viol := none }
    if obs.startsWith "blocked" then
      let sig := if kv ow "in" == some "cancel" then "C14/cancel-blocked Cancel did not return: the owner hangs at: "
        else if kv ow "in" == some "expiry" then "C14/timer-lost the expiry goroutines are stuck (timers can never fire again) at: "
        else "C14/op-blocked the operation never completed: "
      (s, "VIOLATION " ++ sig ++ op)
    else if obs.startsWith "panic" || obs.startsWith "<no-observation" then
      (s, "VIOLATION C14/panic-escaped a panic left the timer manager / the consumer died at: " ++ op)
    else if ws.head? == some "reset" then
      let svc := (kvNat ws "svc").getD 0 == 1
      ({ rs := (kvNat ws "rs").getD 0 == 1 || svc, svc := svc }, "ok")
    else
      let s := { s with curT := s.now, lenient := obs.startsWith "runaway" }
      -- the operation itself
      let s := match ws.head? with
        | some "after" | some "add" =>
          match kvNat ow "id", kvInt ws "d" with
          | some id, some du => s.register id s.now du (ws.head? == some "add") (parseArgs ((kv ws "args").getD ""))
          | _, _ => s
        | some "cancel" =>
          match kvNat ws "id" with
          | some id => s.modify id fun ti => { ti with cancelled := true }
          | none => s
        | some "stop" | some "rstop" => { s with stopped := true }
        | some "block" => if obs.startsWith "ev=" then { s with blocked := true } else s
        | some "unblock" => if obs.startsWith "ev=" then { s with blocked := false } else s
        | _ => s
      -- callbacks may only run while the owner drains the queue
      let toks := evToks obs "ev"
      let stray := evToks obs "stray"
      let cbs := (toks ++ stray).filter (·.startsWith "cb:")
      let s := if !stray.isEmpty then s.flag "C14/callback-outside-drain" ("callback ran although the owner was not draining the queue: " ++ joinWith ";" stray) else s
      let s :=
        if ws.head? == some "do" && !s.rs then
          match kvNat ow "pop" with
          | some p =>
            if cbs.length > 1 || cbs.any (fun c => !c.startsWith s!"cb:{p}@") then
              s.flag "C14/callback-outside-drain" s!"Do of timer {p} ran {joinWith ";" cbs}"
            else s
          | none => s
        else s
      let s := if kv ow "loop" == some "0" then s.flag "C14/callback-off-owner-goroutine" "a callback ran on a goroutine other than the run service's loop" else s
      let s := if ws.head? == some "rstop" && !cbs.isEmpty then
          s.flag "C14/callback-inside-stop" ("timer callbacks ran from inside StandardRunService.Stop: " ++ joinWith ";" cbs)
        else s
      let s := if s.svc then svcPre s ow else s
      -- service level, behavioural (no probe needed): the request table was not empty when this stretch of
      -- time began, so the repeating 1 s check timer was alive and due within its period: a full period
      -- without a single tick means the repeating timer stopped firing (nobody cancelled it: the owner
      -- gives it up only when a tick finds the table empty)
      let s := if s.svc && ws.head? == some "sadv" && s.pend > 0 && !s.lenient && (kvNat ws "d").getD 0 ≥ 1000 && cbs.isEmpty then
          s.flag "C14/check-timer-stopped" s!"{s.pend} requests were outstanding at {s.now}, {(kvNat ws "d").getD 0} ms passed and the service's repeating 1 s check timer did not fire once"
        else s
      let s := (toks ++ stray).foldl specTok s
      let s := if s.svc && (kv ow "own").isSome then svcIdle (svcPost s ow) toks ow else s
      let s := match kvNat ow "now" with
        | some t => { s with now := t }
        | none => s
      let s := match kvNat ow "pend" with
        | some p => { s with pend := p }
        | none => s
      -- nothing that is due may be missing from the queue once everything is quiescent
      let s := match kvNat ow "q" with
        | some q =>
          let s := if s.rs && !s.blocked && q > 0 then s.flag "C14/queue-not-drained" s!"{q} expiries left in the queue of a running run service" else s
          let od := overdue s
          if !s.stopped && q < qcap && od.length > q then
            let ti : TI := od.headD default
            if q == 0 then
              s.flag (if ti.period == 0 then "C14/oneshot-lost" else "C14/repeat-not-rearmed")
                s!"timer {ti.id} is overdue at {s.now} and the queue is empty"
            else
              s.flag "C14/timer-lost"
                s!"{od.length} timers are overdue at {s.now} ({joinWith "," (od.map fun (t : TI) => toString t.id)}) but only {q} objects are queued"
          else s
        | none =>
          if obs == "empty" && !s.stopped then
            match overdue s with
            | ti :: _ => s.flag (if ti.period == 0 then "C14/oneshot-lost" else "C14/repeat-not-rearmed") s!"timer {ti.id} is overdue at {s.now} and the queue is empty"
            | [] => s
          else s
      let s := if obs.startsWith "runaway" then s.flag "C14/runaway-callbacks" "callbacks kept firing without the system ever becoming quiescent" else s
      match s.viol with
      | some v => (s, "VIOLATION " ++ v)
      | none => (s, "ok")
  | _ => (s, "bad-line")

end Cell2v.Driver.C14

open Cell2v.Driver in
def main (args : List String) : IO Unit :=
  match args with
  | ["spec"] => runLoop Cell2v.Driver.C14.specStep {}
  | ["accept"] => runLoop Cell2v.Driver.C14.acceptStep [{}]
  | _ => runLoop Cell2v.Driver.C14.modelStep {}
