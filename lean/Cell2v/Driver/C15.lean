import Cell2v.Driver.Util
import Cell2v.Model.Sche
import Cell2v.Model.Waterfall
import Cell2v.Model.ScheMgr
import Cell2v.Model.ScheCfg
/-!
Model driver for C15.

`modeld_c15 accept` : lines `op\tobs` in → `ok` / `REJECT why` out.
  * waterfall ops (deterministic — every op runs to quiescence in the bubble):
    the chain model (`Waterfall.fire`, one instance per chain, a FIFO of
    closure owners as the scheduler channel) is executed and the
    implementation's event list must be *equal* to the model's;
  * scheduler ops (the interleaving of concurrent posters and the number of
    closures a stopped consumer still drains are legitimately nondeterministic):
    1. per op, the harness-level constraints: nothing runs while the consumer is
       not started / parked / gone, everything accepted has run when the consumer
       is free, per-poster consecutive execution, channel FIFO between posts that
       did not overlap in time, fill = accepted − executed ≤ cap, a poster blocks
       only on a full channel, nothing is accepted after `Stop`, one consumer
       goroutine;
    2. at the `end` op, the whole case is replayed through `Sche.fire` (shipped
       configuration): an explicit label sequence is constructed that reproduces
       every observation; the case is accepted only if every label is enabled.
`modeld_c15 spec`   : the property predicate itself on the implementation's
  observations (own bookkeeping, independent of the model) → `ok` / `VIOLATION <sig> <why>`.
`modeld_c15 model`  : prints the model's observation for waterfall ops, `?` for scheduler ops.
-/
namespace Cell2v.Driver.C15
open Cell2v.Driver Cell2v

/-! ### small parsing helpers -/

def viol (sig why : String) : String := s!"VIOLATION C15/{sig} {why}"


def takeDigits : List Char → Nat → Bool → Option (Nat × List Char)
  | c :: cs, acc, seen =>
    if c.isDigit then takeDigits cs (acc * 10 + (c.toNat - 48)) true
    else if seen then some (acc, c :: cs) else none
  | [], acc, seen => if seen then some (acc, []) else none

def natOf (s : String) : Option Nat :=
  match takeDigits s.toList 0 false with
  | some (n, []) => some n
  | _ => none

def splitNonEmpty (s : String) (sep : String) : List String := (s.splitOn sep).filter (· ≠ "")

def natList (s : String) : Option (List Nat) := (splitNonEmpty s ",").mapM natOf

def showNats (l : List Nat) : String := "[" ++ ",".intercalate (l.map toString) ++ "]"

/-! ## waterfall -/

/-- `unset`: the entry of the task list is nil (a step of a conditionally assembled chain that was not set). The
call `c.tasks[index](…)` in `invokeTask` panics inside the closure (recovered by `doTask`): in the chain model this
is an invoked task without a body that never completes. -/
inductive TMode | sync | go | later | never | twice | goTwice | panicBefore | panicAfter | unset
  deriving DecidableEq, Repr

structure TaskSpec where
  mode : TMode
  err : Bool
  rmode : Char   -- a: received args ++ [val], r: [val], z: no results, u: one nil value (shown as 999999), m: three values
  val : Nat
  deriving Repr

def parseTask (s : String) : Option TaskSpec :=
  match s.toList with
  | m :: e :: r :: rest =>
    let mode : Option TMode := match m with
      | 's' => some .sync | 'g' => some .go | 'l' => some .later | 'n' => some .never
      | 't' => some .twice | 'v' => some .goTwice | 'p' => some .panicBefore | 'q' => some .panicAfter
      | 'x' => some .unset
      | _ => none
    match mode, takeDigits rest 0 false with
    | some mode, some (v, []) =>
      if (e == '0' || e == '1') && "arzum".toList.contains r then some ⟨mode, e == '1', r, v⟩ else none
    | _, _ => none
  | _ => none

def parseTasks (ws : List String) : Option (List TaskSpec) :=
  match kv ws "tasks" with
  | none => none
  | some v => (splitNonEmpty v ",").mapM parseTask

def TaskSpec.result (t : TaskSpec) (args : List Nat) : List Nat :=
  match t.rmode with
  | 'a' => args ++ [t.val]
  | 'z' => []
  | 'u' => [999999]
  | 'm' => [t.val, t.val + 1, t.val + 2]
  | _ => [t.val]
def TaskSpec.result2 (t : TaskSpec) : List Nat := [t.val + 1000]

structure WChain where
  id : Nat
  specs : List TaskSpec
  core : Waterfall.Chain
  owners : List Nat := []   -- per step: the chain op that made the task (differs from `id` for tasks a reused Builder already held)
  tok : Nat := 0            -- chain instance (ordinal of the first shown task invocation among all chains), 0 = none yet

/-- the Builder objects of a case (`chain … via=builder bld=<k>`): what `Model/Waterfall.lean`'s `Builder` holds, as
(task script, making chain op) per step -/
abbrev Blds := List (Nat × List (TaskSpec × Nat))

def Blds.get (b : Blds) (k : Nat) : List (TaskSpec × Nat) := ((b.find? (·.1 = k)).map (·.2)).getD []
def Blds.set (b : Blds) (k : Nat) (v : List (TaskSpec × Nat)) : Blds :=
  if b.any (·.1 = k) then b.map fun x => if x.1 = k then (k, v) else x else b ++ [(k, v)]

/-- `Builder.Next(t)…` for the new tasks of chain op `id`, then `Do()`: the chain gets everything the builder holds
(`Waterfall.Builder.next` / `Waterfall.Builder.chainTasks`; without `bld=` a fresh builder / a plain task list) -/
def buildChain (b : Blds) (ws : List String) (id : Nat) (specs : List TaskSpec) : Blds × List TaskSpec × List Nat :=
  let fresh := specs.map fun t => (t, id)
  match kvNat ws "bld" with
  | some k =>
    let held := (fresh.foldl (fun (bb : Waterfall.Builder (TaskSpec × Nat)) t => bb.next t) { tasks := b.get k }).chainTasks
    (b.set k held, held.map (·.1), held.map (·.2))
  | none => (b, specs, fresh.map (·.2))

def bldRefused (ws : List String) : Bool :=
  (kv ws "bld").isSome && (kv ws "via" != some "builder" || kv ws "mem" == some "arena")

structure Pend where
  chain : Nat
  task : Nat
  err : Bool
  res : List Nat

structure WSt where
  chains : List WChain := []
  gq : List Nat := []          -- scheduler channel: owning chain of each queued closure
  pend : List Pend := []
  stopped : Bool := false
  parked : Bool := false         -- the consumer sits in a parking closure; `gq` is what waits behind it
  blocked : Option Nat := none   -- chain whose start `Post` is blocked on the full channel (at most one)
  ntok : Nat := 0                -- chain instances seen so far
  blds : Blds := []

/-- closures of chains (not fillers, id 0) waiting behind the parked consumer, the blocked starter included -/
def WSt.chainQueued (s : WSt) : Nat := (s.gq.filter (· ≠ 0)).length + (if s.blocked.isSome then 1 else 0)

def showEv (id : Nat) (owners : List Nat) (tok : Nat) : Waterfall.Ev → String
  | .task i a => s!"t{owners.getD i id}.{i}{showNats a}c#{tok}"
  | .final e a => s!"f{id}.{if e then 1 else 0}{showNats a}c"
  | .done _ _ _ => ""

def WSt.updChain (s : WSt) (c : WChain) : WSt :=
  { s with chains := s.chains.map fun d => if d.id = c.id then c else d }

/-- a callback call of task `i` of chain `c` (posts `invokeCallback`); dropped when the scheduler is stopped -/
def complete (s : WSt) (c : WChain) (i : Nat) (e : Bool) (r : List Nat) : WSt :=
  -- `Waterfall.fireS`: the chain composed with `Post` on a scheduler that may have been stopped
  match Waterfall.fireS { core := c.core, stopped := s.stopped } (.inner (.complete i e r)) with
  | none => s
  | some sc =>
    if sc.refused > 0 then s   -- `Post` on the closed channel returned nil: nothing was queued
    else { (s.updChain { c with core := sc.core }) with gq := s.gq ++ [c.id] }

/-- consumer loop: run queued closures until the channel is empty -/
def drainW : Nat → WSt → List String → WSt × List String
  | 0, s, out => (s, out)
  | fuel + 1, s, out =>
    match s.gq with
    | [] => (s, out)
    | id :: rest =>
      -- a receive from the full channel lets the blocked sender's closure in at the tail
      let s := match s.blocked with
        | some b => { s with gq := rest ++ [b], blocked := none }
        | none => { s with gq := rest }
      match s.chains.find? (·.id = id) with
      | none => drainW fuel s out
      | some c =>
        match Waterfall.fire c.core .run with
        | none => drainW fuel s out
        | some core' =>
          let c' := { c with core := core' }
          -- the first task body of a chain that is seen running makes the chain instance known
          let fresh : Bool := match core'.hist.head? with
            | some (.task i _) => c'.tok == 0 && (c.specs[i]?.map (·.mode)) != some .unset
            | _ => false
          let c' := if fresh then { c' with tok := s.ntok + 1 } else c'
          let s := if fresh then { s with ntok := s.ntok + 1 } else s
          let s := s.updChain c'
          match core'.hist.head? with
          | some (.task i a) =>
            -- an unset step has no body: the invocation is attempted (and panics under `doTask`'s recover), nothing is seen
            let out := if (c.specs[i]?.map (·.mode)) == some .unset then out else out ++ [showEv id c'.owners c'.tok (.task i a)]
            match c.specs[i]? with
            | none => drainW fuel s out
            | some t =>
              let r := t.result a
              let s := match t.mode with
                | .sync | .go | .panicAfter => complete s c' i t.err r
                | .twice | .goTwice =>
                  let s1 := complete s c' i t.err r
                  match s1.chains.find? (·.id = id) with
                  | some c1 => complete s1 c1 i t.err t.result2
                  | none => s1
                | .later => { s with pend := s.pend ++ [⟨id, i, t.err, r⟩] }
                | .never | .panicBefore | .unset => s
              drainW fuel s out
          | some (.final e a) => drainW fuel s (out ++ [showEv id [] 0 (.final e a)])
          | _ => drainW fuel s out

def showOut (out : List String) : String := if out.isEmpty then "-" else " ".intercalate out

def stepW (s : WSt) (ws : List String) : WSt × String :=
  let cap := Gen.C15.queueSize
  match ws.head? with
  | some "park" =>
    if s.parked || s.stopped then (s, "bad-op") else ({ s with parked := true }, "-")
  | some "fill" =>
    match kvNat ws "n" with
    | some n =>
      if !s.parked || s.chainQueued > 0 || s.gq.length + n > cap then (s, "bad-op")
      else
        let s := { s with gq := s.gq ++ List.replicate n 0 }
        (s, s!"fill={s.gq.length}")
    | none => (s, "bad-op")
  | some "unpark" =>
    if !s.parked then (s, "bad-op")
    else
      let (s, out) := drainW 100000 { s with parked := false } []
      (s, showOut out)
  | some "chain" =>
    match kvNat ws "id", parseTasks ws with
    | some id, some specs =>
      let frm := (kv ws "from").getD ""
      if bldRefused ws then (s, "bad-op") else
      if s.parked then
        -- same admission rule as the harness: no self-post deadlock, at most one blocked sender
        let room := s.gq.length < cap
        if frm == "cons" || s.chainQueued ≥ 4 || s.blocked.isSome || (!room && frm != "go") then (s, "bad-op")
        else
          let (blds, specs, owners) := buildChain s.blds ws id specs
          let c : WChain := { id := id, specs := specs, core := { n := specs.length }, owners := owners }
          let s := { s with chains := s.chains ++ [c], blds := blds }
          if room then ({ s with gq := s.gq ++ [id] }, "-") else ({ s with blocked := some id }, "-")
      else if s.stopped then
        -- Post on the closed channel: recovered, nothing is ever run (a reused builder has taken the tasks all the same)
        ({ s with blds := (buildChain s.blds ws id specs).1 }, "-")
      else
        let (blds, specs, owners) := buildChain s.blds ws id specs
        let c : WChain := { id := id, specs := specs, core := { n := specs.length }, owners := owners }
        let s := { s with chains := s.chains ++ [c], gq := s.gq ++ [id], blds := blds }
        let (s, out) := drainW 100000 s []
        (s, showOut out)
    | _, _ => (s, "bad-op")
  | some "fire" =>
    match kvNat ws "k" with
    | some k =>
      if s.parked && (kv ws "via" == some "post" || s.chainQueued ≥ 4 || s.blocked.isSome || s.gq.length ≥ cap) then
        (s, "bad-op")
      else
      match s.pend[k]? with
      | none => (s, "-")
      | some p =>
        match s.chains.find? (·.id = p.chain) with
        | none => (s, "-")
        | some c =>
          let s := complete s c p.task p.err p.res
          if s.parked then (s, "-") else
          let (s, out) := drainW 100000 s []
          (s, showOut out)
    | none => (s, "bad-op")
  | some "wstop" => if s.parked then (s, "bad-op") else ({ s with stopped := true }, "ok")
  | _ => (s, "bad-op")

/-! ## scheduler: acceptance of an observation by the model -/

open Cell2v.Sche (Kind)

/-- `n3x1h1` → [normal, normal, normal, panics, hold] -/
def parseKinds : Nat → List Char → List Kind → Option (List Kind)
  | _, [], acc => some acc
  | 0, _, _ => none
  | fuel + 1, k :: rest, acc =>
    -- 'd': posted from, and panicking at, the bottom of a deep call chain - for the scheduler a panicking closure
    let kind : Option Kind := match k with | 'n' => some .normal | 'x' | 'd' => some .panics | 'h' => some .hold | _ => none
    match kind, takeDigits rest 0 false with
    | some kind, some (n, rest') => if n ≤ 100000 then parseKinds fuel rest' (acc ++ List.replicate n kind) else none
    | _, _ => none

/-- burst tokens `p<id>=<kinds>` -/
def parseBurst (ws : List String) : Option (List (Nat × List Kind)) :=
  (ws.drop 1).mapM fun w =>
    match w.toList with
    | 'p' :: rest =>
      match takeDigits rest 0 false with
      | some (p, '=' :: spec) => (parseKinds (spec.length + 1) spec []).map fun ks => (p, ks)
      | _ => none
    | _ => none

structure Row where
  p : Nat
  ok : Nat
  nil : Nat
  blk : Nat
  pan : Nat
  deriving Repr

structure SObs where
  exec : List (Nat × Nat)
  g : String
  fill : Nat
  rows : List Row
  stop : Option String

def parseExec (v : String) : Option (List (Nat × Nat)) :=
  if v == "-" then some [] else
  (splitNonEmpty v ",").mapM fun e =>
    match e.splitOn "." with
    | [a, b] => match natOf a, natOf b with
      | some p, some k => some (p, k)
      | _, _ => none
    | _ => none

def parseRows (v : String) : Option (List Row) :=
  if v == "-" then some [] else
  (splitNonEmpty v ";").mapM fun e =>
    match (e.splitOn ":").mapM natOf with
    | some [p, ok, nl, blk, pan] => some ⟨p, ok, nl, blk, pan⟩
    | _ => none

def parseSObs (obs : String) : Option SObs :=
  let ws := words obs
  match kv ws "exec", kv ws "g", kvNat ws "fill", kv ws "P" with
  | some e, some g, some fill, some rows =>
    match parseExec e, parseRows rows with
    | some ex, some rs => some ⟨ex, g, fill, rs, kv ws "stop"⟩
    | _, _ => none
  | _, _, _, _ => none

structure Poster where
  id : Nat
  kinds : List Kind := []        -- closures commanded so far; index = sequence number
  cmdEpoch : List Nat := []      -- op number at which each of them was commanded
  ok : Nat := 0
  nil : Nat := 0
  blk : Nat := 0
  exec : Nat := 0
  okHist : List (Nat × Nat) := []  -- (op number, ok at the end of that op), newest first

structure AccS where
  cap : Nat := Gen.C15.queueSize
  epoch : Nat := 0
  started : Bool := false
  held : Bool := false
  stopped : Bool := false
  gone : Bool := false
  posters : List Poster := []

def AccS.poster (s : AccS) (p : Nat) : Option Poster := s.posters.find? (·.id = p)

def AccS.setPoster (s : AccS) (q : Poster) : AccS :=
  if s.posters.any (·.id = q.id) then { s with posters := s.posters.map fun x => if x.id = q.id then q else x }
  else { s with posters := s.posters ++ [q] }

/-- ok count of the poster at the end of the last op before `e` -/
def Poster.okBefore (q : Poster) (e : Nat) : Nat :=
  match q.okHist.find? (fun h => h.1 < e) with
  | some h => h.2
  | none => 0

/-- op in which closure `k`'s Post returned (none: not yet, i.e. during the current op) -/
def Poster.complEpoch (q : Poster) (k : Nat) : Option Nat :=
  -- oldest entry whose count exceeds k
  (q.okHist.reverse.find? (fun h => h.2 > k)).map (·.1)

def addCommands (s : AccS) (cmds : List (Nat × List Kind)) : AccS :=
  cmds.foldl (fun s (p, ks) =>
    let q := (s.poster p).getD { id := p }
    s.setPoster { q with kinds := q.kinds ++ ks, cmdEpoch := q.cmdEpoch ++ List.replicate ks.length s.epoch }) s

/-- walk the executed closures of one op in order -/
def walkExec (s : AccS) (rows : List Row) : List (Nat × Nat) → Except String AccS
  | [] => .ok s
  | (p, k) :: rest =>
    if s.held then .error s!"closure {p}.{k} executed while the consumer is parked in a hold closure" else
    match s.poster p, rows.find? (·.p = p) with
    | some q, some row =>
      if k ≠ q.exec then .error s!"poster {p}: closure {k} executed, expected {q.exec} (per-poster order / exactly once)"
      else if k ≥ row.ok then .error s!"closure {p}.{k} executed although its Post has not returned a task"
      else
        -- channel FIFO: every post that had returned before this one was started must already have run
        let initE : Nat :=
          let cmd := q.cmdEpoch.getD k 0
          match k with
          | 0 => cmd
          | k' + 1 => match q.complEpoch k' with
            | some e => max cmd e
            | none => s.epoch
        match s.posters.find? (fun r => r.exec < r.okBefore initE) with
        | some r => .error s!"closure {p}.{k} overtook closure {r.id}.{r.exec}, whose Post had returned before it was posted"
        | none =>
          let s := s.setPoster { q with exec := q.exec + 1 }
          let s := if q.kinds.getD k .normal = .hold then { s with held := true } else s
          walkExec s rows rest
    | _, _ => .error s!"closure {p}.{k} of an unknown poster executed"

def acceptS (s : AccS) (ws : List String) (o : SObs) : Except String AccS := do
  let s := { s with epoch := s.epoch + 1 }
  let s ← match ws.head? with
    | some "burst" => match parseBurst ws with
      | some cmds => pure (addCommands s cmds)
      | none => throw "bad-op"
    | some "start" => pure { s with started := true }
    | some "release" =>
      -- `release post=K`: the closure the consumer was parked in posts K closures to its own scheduler
      -- (poster 99 is the consumer goroutine) before it returns
      match kvNat ws "post" with
      | some k => pure (addCommands { s with held := false } [(99, List.replicate k .normal)])
      | none => pure { s with held := false }
    | some "stop" => pure { s with stopped := true }
    | _ => throw "bad-op"
  if ws.head? == some "stop" && o.stop != some "ok" then throw "Stop did not return normally"
  let mayExec := s.started && !s.gone && !s.held
  if !mayExec && !o.exec.isEmpty then throw "closures executed although the consumer cannot run"
  -- every known poster has a row and vice versa
  for q in s.posters do
    if !(o.rows.any (·.p = q.id)) then throw s!"no report for poster {q.id}"
  let s ← walkExec s o.rows o.exec
  -- goroutine
  if o.exec.isEmpty then
    if o.g != "-" then throw "goroutine label without executions"
  else if o.g != "c" then throw s!"closures executed on goroutine(s) {o.g}, not only the consumer"
  -- per-poster counters at quiescence
  let mut s := s
  for row in o.rows do
    match s.poster row.p with
    | none => throw s!"report for unknown poster {row.p}"
    | some q =>
      if row.pan ≠ 0 then throw s!"poster {row.p}: Post panicked"
      if row.ok < q.ok || row.nil < q.nil then throw s!"poster {row.p}: counters went backwards"
      if row.blk > 1 then throw s!"poster {row.p}: more than one outstanding send"
      if row.ok + row.nil + row.blk > q.kinds.length then throw s!"poster {row.p}: more posts than commanded"
      if row.blk = 0 && row.ok + row.nil ≠ q.kinds.length then throw s!"poster {row.p}: idle but script unfinished"
      if !s.stopped && row.nil ≠ 0 then throw s!"poster {row.p}: Post returned nil on a running scheduler"
      if s.stopped && row.blk ≠ 0 then throw s!"poster {row.p}: still blocked after Stop"
      if s.stopped && row.ok ≠ q.ok then throw s!"poster {row.p}: a post was accepted at/after Stop"
      if q.exec > row.ok then throw s!"poster {row.p}: executed more than accepted"
      s := s.setPoster { q with ok := row.ok, nil := row.nil, blk := row.blk,
                                okHist := if row.ok ≠ q.ok then (s.epoch, row.ok) :: q.okHist else q.okHist }
  let pending := s.posters.foldl (fun a q => a + (q.ok - q.exec)) 0
  if o.fill ≠ pending then throw s!"fill level {o.fill}, model has {pending} accepted-but-not-executed closures"
  if o.fill > s.cap then throw s!"fill level {o.fill} exceeds capacity {s.cap}"
  if !s.stopped && s.posters.any (·.blk = 1) && o.fill ≠ s.cap then
    throw s!"a poster is blocked although the channel holds {o.fill} < {s.cap}"
  if !s.stopped && s.started && !s.held && (o.fill ≠ 0 || s.posters.any (·.blk = 1)) then
    throw "consumer is free but closures/posters are still waiting"
  if s.stopped && s.started && !s.held then s := { s with gone := true }
  return s

/-! ## scheduler: replay of a whole case through `Sche.fire`

At the `end` op of a scheduler case the driver constructs an explicit run of the
model (`Model/Sche.lean`, shipped configuration) — a sequence of `call / send /
consume / stop / quit` labels — that reproduces every observation of the case:
execution order, per-poster accepted / refused / blocked counts and the fill
level after each op.  The channel order of closures that were accepted in one op
is taken from the order in which they were executed later (never-executed ones
last); every label must be enabled in the model, a blocked poster's `send` must
be disabled.  A case is accepted only if such a run exists. -/

open Cell2v.Sche (Item Label shipped)

structure OpRec where
  ws : List String
  obs : SObs

structure RP where
  m : Sche.St := {}
  kinds : List (Nat × List Kind) := []
  started : Bool := false
  held : Bool := false
  stopped : Bool := false
  gone : Bool := false
  fresh : Nat := 0     -- model steps since the function-valued fields were last rebuilt

def RP.kindOf (r : RP) (p k : Nat) : Kind :=
  match r.kinds.find? (·.1 = p) with
  | some (_, ks) => ks.getD k .normal
  | none => .normal

def RP.addKinds (r : RP) (p : Nat) (ks : List Kind) : RP :=
  if r.kinds.any (·.1 = p) then { r with kinds := r.kinds.map fun e => if e.1 = p then (p, e.2 ++ ks) else e }
  else { r with kinds := r.kinds ++ [(p, ks)] }

/-- rebuild the function-valued fields from finite tables (keeps closure chains short) -/
def normalize (ps : List Nat) (m : Sche.St) : Sche.St :=
  let tn := ps.map fun p => (p, m.next p)
  let to := ps.map fun p => (p, m.out p)
  let ta := ps.map fun p => (p, m.acc p)
  { m with
    next := fun q => ((tn.find? (·.1 = q)).map (·.2)).getD 0
    out := fun q => ((to.find? (·.1 = q)).map (·.2)).getD none
    acc := fun q => ((ta.find? (·.1 = q)).map (·.2)).getD 0 }

def fireE (m : Sche.St) (l : Label) (what : Unit → String) : Except String Sche.St :=
  match Sche.fire shipped m l with
  | some m' => .ok m'
  | none => .error s!"model step not enabled: {what ()}"

/-- poster `p` gets closure `k` into the channel: `call` (unless the send is already outstanding) then `send` -/
def sendItem (r : RP) (p k : Nat) : Except String RP := do
  let m ← if (r.m.out p).isNone then
      (if r.m.next p ≠ k then throw s!"model: poster {p} would post closure {r.m.next p}, observation needs {k}"
       else fireE r.m (.call p (r.kindOf p k)) fun _ => s!"call {p}.{k}")
    else pure r.m
  match m.out p with
  | some it =>
    if it.seq ≠ k then throw s!"model: poster {p} has closure {it.seq} outstanding, observation needs {k}"
    let m ← fireE m (.send p) fun _ => s!"send {p}.{k} (channel holds {m.chan.length})"
    if r.fresh ≥ 24 then return { r with m := normalize (r.kinds.map (·.1)) m, fresh := 0 }
    else return { r with m := m, fresh := r.fresh + 1 }
  | none => throw s!"model: poster {p} has no outstanding send (overflow path?)"

def replayOp (rank : Nat → Nat → Nat) (r : RP) (rec : OpRec) : Except String RP := do
  let o := rec.obs
  let mut r := r
  match rec.ws.head? with
  | some "burst" =>
    match parseBurst rec.ws with
    | some cmds => for (p, ks) in cmds do r := r.addKinds p ks
    | none => throw "bad-op"
  | some "start" => r := { r with started := true }
  | some "release" =>
    r := { r with held := false }
    match kvNat rec.ws "post" with
    | some k => r := r.addKinds 99 (List.replicate k .normal)
    | none => pure ()
  | some "stop" =>
    let m ← fireE r.m .stop fun _ => "stop"
    r := { r with m := m, stopped := true }
  | _ => throw "bad-op"
  -- closures accepted during this op, in channel order
  let mut todo : List (Nat × Nat × Nat) := []
  for row in o.rows do
    let a := r.m.acc row.p
    if row.ok < a then throw s!"poster {row.p}: accepted count went backwards"
    if r.stopped && row.ok ≠ a then throw s!"model: poster {row.p} cannot get a post accepted after Stop"
    todo := todo ++ (List.range (row.ok - a)).map fun i => (rank row.p (a + i), row.p, a + i)
  todo := todo.mergeSort fun x y => x.1 ≤ y.1
  -- executions of this op, sending as late as possible
  for (p, k) in o.exec do
    let mut guard := todo.length + 1
    while r.m.acc p ≤ k && guard > 0 do
      guard := guard - 1
      match todo with
      | [] => throw s!"model: closure {p}.{k} executed but never accepted"
      | (_, q, j) :: rest =>
        r ← sendItem r q j
        todo := rest
    let m ← fireE r.m .consume fun _ => s!"consume (expecting {p}.{k})"
    match m.log with
    | [it] =>
      if it.poster ≠ p || it.seq ≠ k then
        throw s!"model: head of the channel is {it.poster}.{it.seq}, implementation executed {p}.{k}"
      r := { r with m := { m with log := [] }, held := it.kind = .hold }
    | _ => throw "model: consume produced no log entry"
  for (_, q, j) in todo do
    r ← sendItem r q j
  -- refused posts (after Stop) and blocked posters
  for row in o.rows do
    let p := row.p
    let nilNow := (r.m.failed.filter (·.poster = p)).length
    if row.nil < nilNow then throw s!"poster {p}: refused count went backwards"
    for _ in List.range (row.nil - nilNow) do
      let k := match r.m.out p with | some it => it.seq | none => r.m.next p
      let before := r.m.failed.length
      r ← sendItem r p k
      if r.m.failed.length ≠ before + 1 then throw s!"model: post {p}.{k} is accepted, implementation refused it"
    if row.blk = 1 then
      if (r.m.out p).isNone then
        let k := r.m.next p
        let m ← fireE r.m (.call p (r.kindOf p k)) fun _ => s!"call {p}.{k}"
        r := { r with m := m }
      if (Sche.fire shipped r.m (.send p)).isSome then
        throw s!"poster {p} is blocked although the model's send is enabled (channel holds {r.m.chan.length} of {shipped.cap})"
    else if (r.m.out p).isSome then throw s!"model: poster {p} has an outstanding send, implementation reports it idle"
    if r.m.acc p ≠ row.ok then throw s!"model: poster {p} accepted {r.m.acc p}, implementation {row.ok}"
    if r.m.next p ≠ row.ok + row.nil + row.blk then
      throw s!"model: poster {p} made {r.m.next p} Post calls, implementation {row.ok + row.nil + row.blk}"
  if r.m.chan.length ≠ o.fill then throw s!"model: channel holds {r.m.chan.length}, implementation {o.fill}"
  if r.m.crashedPosters ≠ [] then throw "model: a poster crashed"
  if r.stopped && r.started && !r.held && !r.gone then
    let m ← fireE r.m .quit fun _ => "quit"
    r := { r with m := m, gone := true }
  return { r with m := normalize (o.rows.map (·.p)) r.m }

/-- execution rank of every closure of the case (never-executed closures come last, in posting order) -/
def mkRank (recs : List OpRec) : Nat → Nat → Nat :=
  let all := recs.flatMap (·.obs.exec)
  let tbl : Array (Array Nat) := Id.run do
    let mut t : Array (Array Nat) := #[]
    let mut i := 0
    for (p, _) in all do
      while t.size ≤ p do t := t.push #[]
      t := t.modify p (·.push i)
      i := i + 1
    return t
  let n := all.length
  fun p k => match tbl[p]? with
    | some a => (a[k]?).getD (n + 1 + k)
    | none => n + 1 + k

def replayCase (recs : List OpRec) : Except String Unit := do
  let rank := mkRank recs
  let mut r : RP := {}
  let mut i := 0
  for rec in recs do
    i := i + 1
    match replayOp rank r rec with
    | .ok r' => r := r'
    | .error e => throw s!"op {i} ({(" ".intercalate rec.ws).take 60}): {e}"
  return ()

/-! ## several run services (cases `reset kind=m`)

Every `svc` op creates a `runservice.NewRunService("")` (anonymous, as
`actorex` does) and starts it; closures and waterfall chains are posted to one
named service.  Deterministic: each service has its own scheduler and its own
loop goroutine (`Model/ScheMgr.lean`), the poster is the test goroutine, every
op runs to quiescence.  Observation `exec=<svc>.<seq>@<goroutine>,… ret=<ok>:<nil>`;
goroutine label `s<j>` = loop goroutine of service `j`. -/

structure MSvc where
  id : Nat
  name : String := ""
  alive : Bool := true
  started : Bool := true
  blocked : Bool := false       -- the loop is parked in a blocking closure
  next : Nat := 0
  pending : List Nat := []      -- accepted closures that cannot run yet (not started / loop parked)

structure MSt where
  svcs : List MSvc := []

def MSt.set (s : MSt) (v : MSvc) : MSt := { svcs := s.svcs.map fun u => if u.id = v.id then v else u }

def commaJoin (l : List String) : String := if l.isEmpty then "-" else ",".intercalate l

def MSvc.runnable (v : MSvc) : Bool := v.started && !v.blocked

def stepM (s : MSt) (ws : List String) : MSt × String :=
  let withSvc (f : MSvc → MSt × String) : MSt × String :=
    match kvNat ws "svc" with
    | some k => match s.svcs.find? (·.id = k) with
      | some v => f v
      | none => (s, "bad-op")
    | none => (s, "bad-op")
  match ws.head? with
  | some "svc" =>
    match kvNat ws "id" with
    | some id =>
      let name := (kv ws "name").getD ""
      -- a name whose holder is still alive would mean one scheduler with two consumers (by design): not generated
      if s.svcs.any (·.id = id) || (name != "" && s.svcs.any fun u => u.name == name && u.alive) then (s, "bad-op")
      else ({ svcs := s.svcs ++ [{ id := id, name := name, started := kv ws "start" != some "0" }] }, "ok")
    | none => (s, "bad-op")
  | some "mstart" => withSvc fun v =>
    if v.started || !v.alive then (s, "bad-op")
    else (s.set { v with started := true, pending := [] }, "exec=" ++ commaJoin (v.pending.map fun q => s!"{v.id}.{q}@s{v.id}"))
  | some "mblock" => withSvc fun v =>
    if !v.started || !v.alive || v.blocked then (s, "bad-op") else (s.set { v with blocked := true }, "ok")
  | some "munblock" => withSvc fun v =>
    if !v.blocked then (s, "bad-op")
    else (s.set { v with blocked := false, pending := [] }, "exec=" ++ commaJoin (v.pending.map fun q => s!"{v.id}.{q}@s{v.id}"))
  | some "mpost" => withSvc fun v =>
    match kvNat ws "n" with
    | some n =>
      let k := v.id
      if !v.alive then (s.set { v with next := v.next + n }, s!"exec=- ret=0:{n}")
      else if v.runnable then
        let ex := (List.range n).map fun i => s!"{k}.{v.next + i}@s{k}"
        (s.set { v with next := v.next + n }, s!"exec={commaJoin ex} ret={n}:0")
      else if v.pending.length + n > 900 then (s, "bad-op")
      else (s.set { v with next := v.next + n, pending := v.pending ++ (List.range n).map (v.next + ·) }, s!"exec=- ret={n}:0")
    | none => (s, "bad-op")
  | some "mchain" => withSvc fun v =>
    match kvNat ws "n" with
    | some n =>
      let k := v.id
      if !v.alive then (s, "-")
      else if !v.runnable then (s, "bad-op")
      else
        -- n synchronous tasks, task i appends i; the model is the chain model run to completion
        let ev := (List.range n).map (fun i => s!"t{i}{showNats (List.range i)}@s{k}") ++ [s!"f0{showNats (List.range n)}@s{k}"]
        (s, " ".intercalate ev)
    | none => (s, "bad-op")
  | some "mstop" => withSvc fun v =>
    if !v.alive || (v.blocked && !v.pending.isEmpty) then (s, "bad-op") else (s.set { v with alive := false }, "ok")
  | _ => (s, "bad-op")

/-! ## registry race (cases `reset kind=g`)

`race name= n=N post=M`: N goroutines call `Mgr.GetSche` with the same fresh name inside a forced
window.  Model (`Model/ScheMgr.lean`, `getSche` is one atomic lookup-or-create): all get the same,
registered scheduler; the N·M closures posted through the handles (by one goroutine, handle after
handle) run in that order on its consumer. -/

def stepG (ws : List String) : String :=
  match ws.head?, kvNat ws "n", kvNat ws "post" with
  | some "race", some n, some m =>
    if n < 1 || n > 8 || m > 50 then "bad-op" else
    let (st, res) := (List.range n).foldl (fun (acc : ScheMgr.St × List Nat) _ =>
      let r := ScheMgr.getSche acc.1 (.named "race"); (r.1, acc.2 ++ [r.2])) (({} : ScheMgr.St), [])
    let distinct := res.eraseDups.length
    let registered := if (ScheMgr.lookup st.reg (.named "race")).any (fun sc => res.contains sc) then 1 else 0
    let ex := (List.range n).flatMap fun i => (List.range m).map fun k => s!"{i}.{k}"
    let exs := if ex.isEmpty then "-" else ",".intercalate ex
    let gl := if ex.isEmpty then "-" else "c"
    s!"distinct={distinct} registered={registered} exec={exs} g={gl} ret={n * m}:0"
  | _, _, _ => "bad-op"

def specG (ws : List String) (obs : String) : Except String Unit := do
  if obs == "bad-op" then return ()
  match kvNat ws "n", kvNat ws "post" with
  | some n, some m =>
    let ows := words obs
    match kvNat ows "distinct", kvNat ows "registered", kv ows "exec", kv ows "g", kv ows "ret" with
    | some d, some reg, some ex, some gl, some ret =>
      if d ≠ 1 then
        throw (viol "same-name-different-scheduler" s!"{n} concurrent GetSche calls for one fresh name returned {d} different schedulers")
      if reg ≠ 1 then throw (viol "same-name-different-scheduler" "the scheduler the callers got is not the registered one")
      if ret != s!"{n * m}:0" then throw (viol "running-service-refused-post" s!"posts to the running scheduler: ok:nil = {ret}")
      let want := (List.range n).flatMap fun i => (List.range m).map fun k => s!"{i}.{k}"
      let got := if ex == "-" then [] else splitNonEmpty ex ","
      if got.length < want.length then
        throw (viol "closure-lost" s!"{want.length} closures accepted through the handles, {got.length} executed")
      if got ≠ want then
        if got.length > want.length then throw (viol "closure-executed-twice" ex)
        else throw (viol "poster-order-broken" ex)
      if !got.isEmpty && gl != "c" then throw (viol "off-scheduler-goroutine" s!"closures ran on {gl}")
    | _, _, _, _, _ => throw (viol "unparsable-observation" obs)
  | _, _ => throw "bad-op"

/-! ## driver state and the three modes -/

inductive CaseKind | none | sche | wf | multi | race
  deriving DecidableEq

/-- a line is `op<TAB>obs`; only the first tab separates (a crash report may contain tabs) -/
def splitLine (line : String) : Option (String × String) :=
  match line.splitOn "\t" with
  | [] | [_] => none
  | op :: rest => some (op, " ".intercalate rest)

structure St where
  kind : CaseKind := .none
  w : WSt := {}
  a : AccS := {}
  m : MSt := {}
  recs : List OpRec := []   -- scheduler case so far, newest first (replayed through the model at `end`)
  dead : Bool := false   -- after a rejection the rest of the case is not judged again

def isReset (ws : List String) : Bool := ws.head? == some "reset"

def resetSt (ws : List String) : St :=
  match kv ws "kind" with
  | some "w" => { kind := .wf }
  | some "s" => { kind := .sche }
  | some "m" => { kind := .multi }
  | some "g" => { kind := .race }
  | _ => {}

def stepAccept (s : St) (line : String) : St × String :=
  match splitLine line with
  | some (op, obs) =>
    let ws := words op
    if isReset ws then
      let s' := resetSt ws
      if s'.kind == .none then (s', "REJECT bad reset")
      else if kvNat (words obs) "cap" == some Gen.C15.queueSize && (words obs).head? == some "ok" then (s', "ok")
      else (s', s!"REJECT channel capacity differs from QueueSize={Gen.C15.queueSize}: {obs}")
    else if s.dead then (s, "ok skipped")
    else if ws.head? == some "next" then (s, if obs == "ok" then "ok" else "REJECT bad announcement")
    else if ws.head? == some "end" then
      match s.kind with
      | .sche =>
        match replayCase s.recs.reverse with
        | .ok _ => ({ s with recs := [] }, "ok")
        | .error e => ({ s with dead := true }, "REJECT no run of the model reproduces this case: " ++ e)
      | _ => (s, "ok")
    else match s.kind with
      | .wf =>
        let (w', m) := stepW s.w ws
        if m == obs then ({ s with w := w' }, "ok")
        else ({ s with w := w', dead := true }, "REJECT model: " ++ m)
      | .sche =>
        if obs == "bad-op" && ws.head? == some "release" then (s, "ok")   -- the harness refused a re-entrant post without room
        else
        match parseSObs obs with
        | none => ({ s with dead := true }, "REJECT unparsable observation")
        | some o =>
          match acceptS s.a ws o with
          | .ok a' => ({ s with a := a', recs := ⟨ws, o⟩ :: s.recs }, "ok")
          | .error e => ({ s with dead := true }, "REJECT " ++ e)
      | .multi =>
        let (m', o) := stepM s.m ws
        if o == obs then ({ s with m := m' }, "ok")
        else ({ s with m := m', dead := true }, "REJECT model: " ++ o)
      | .race =>
        let o := stepG ws
        if o == obs then (s, "ok") else (s, "REJECT model: " ++ o)
      | .none => (s, "REJECT op before reset")
  | none => (s, "REJECT bad-line")

def stepModel (s : St) (line : String) : St × String :=
  let ws := words line
  if isReset ws then (resetSt ws, s!"ok cap={Gen.C15.queueSize}")
  else if ws.head? == some "end" || ws.head? == some "next" then (s, "ok")
  else match s.kind with
    | .wf => let (w', m) := stepW s.w ws; ({ s with w := w' }, m)
    | .multi => let (m', o) := stepM s.m ws; ({ s with m := m' }, o)
    | .race => (s, stepG ws)
    | _ => (s, "?")

/-! ## the property predicate on implementation observations (`spec` mode) -/

structure SpPoster where
  id : Nat
  kinds : List Kind := []
  exec : Nat := 0
  ok : Nat := 0
  nil : Nat := 0

structure SpChain where
  id : Nat
  specs : List TaskSpec
  live : Bool                       -- created on a running scheduler
  args : List (List Nat) := []      -- arguments each invoked task received
  calls : List Nat := []            -- completions made by each invoked task on a running scheduler
  finals : Nat := 0
  owners : List Nat := []           -- per step: the chain op that made the task
  tok : Nat := 0                    -- chain instance once a task of the chain was seen running

/-- spec state of one run service in a `kind=m` case -/
structure SpSvc where
  id : Nat
  alive : Bool := true
  started : Bool := true
  blocked : Bool := false
  next : Nat := 0       -- closures posted so far
  ran : Nat := 0        -- closures executed so far (they must run in posting order)
  accepted : Nat := 0   -- closures accepted but not executed yet

structure SpecS where
  kind : CaseKind := .none
  -- scheduler
  posters : List SpPoster := []
  started : Bool := false
  held : Bool := false
  stopped : Bool := false
  gone : Bool := false
  panicRan : Bool := false
  -- waterfall
  chains : List SpChain := []
  pend : List Pend := []
  parked : Bool := false
  blds : Blds := []
  svcs : List SpSvc := []
  panicPosted : Bool := false   -- a panicking closure / task has been handed to the code in this case
  dead : Bool := false

def SpecS.setPoster (s : SpecS) (q : SpPoster) : SpecS :=
  if s.posters.any (·.id = q.id) then { s with posters := s.posters.map fun x => if x.id = q.id then q else x }
  else { s with posters := s.posters ++ [q] }

def SpecS.setChain (s : SpecS) (c : SpChain) : SpecS :=
  { s with chains := s.chains.map fun d => if d.id = c.id then c else d }

def SpChain.atMostOnce (c : SpChain) : Bool := c.calls.all (· ≤ 1)
def SpChain.exactlyOnce (c : SpChain) : Bool := c.calls.all (· = 1)

/-- the chain has reached an unset (nil) step: all earlier tasks were invoked, the last one completed without an error,
and the next entry of the task list is nil. The invocation of that step is attempted and panics inside the posted
closure, i.e. it is an invoked task that never completes (the hypothesis of "final exactly once" does not hold). -/
def SpChain.atUnsetStep (c : SpChain) : Bool :=
  match c.specs[c.args.length]? with
  | some t =>
    t.mode == .unset &&
      (match c.args.length with
       | 0 => c.live
       | j + 1 => (match c.specs[j]?, c.calls[j]? with
         | some tj, some cj => cj ≥ 1 && !tj.err
         | _, _ => false))
  | none => false

def bump (l : List Nat) (i k : Nat) : List Nat := l.mapIdx fun j v => if j = i then v + k else v

inductive WEv | task (id i : Nat) (args : List Nat) (g : String) (tok : Nat := 0) | final (id : Nat) (e : Bool) (args : List Nat) (g : String)

def parseWEv (w : String) : Option WEv :=
  match w.toList with
  | k :: rest =>
    match takeDigits rest 0 false with
    | some (id, '.' :: rest) =>
      match takeDigits rest 0 false with
      | some (i, '[' :: rest) =>
        let inner := rest.takeWhile (· ≠ ']')
        let g0 := (rest.dropWhile (· ≠ ']')).drop 1
        let g := String.ofList (g0.takeWhile (· ≠ '#'))
        -- `#<n>`: the chain instance (callback object) the task body was handed
        let tok := ((takeDigits ((g0.dropWhile (· ≠ '#')).drop 1) 0 false).map (·.1)).getD 0
        match natList (String.ofList inner) with
        | some args =>
          if k == 't' then some (.task id i args g tok)
          else if k == 'f' then some (.final id (i == 1) args g)
          else none
        | none => none
      | _ => none
    | _ => none
  | [] => none


/-- one observed waterfall event -/
def specWEv (s : SpecS) : WEv → Except String SpecS
  | .task owner i args g tok => do
    if g.startsWith "!nilcb:" then
      throw (viol "task-without-callback" s!"task {i} of chain {owner} was invoked with a nil callback: it cannot complete")
    if g != "c" then throw (viol "off-scheduler-goroutine" s!"task {i} of chain {owner} ran on goroutine {g}")
    -- which chain runs this task body: the one known under this chain instance; a new instance is the oldest live chain
    -- that has not been seen running yet (chain starts are posted closures: they run in the order the chains were started)
    let known : Option SpChain := if tok = 0 then none else s.chains.find? (·.tok = tok)
    let running : Option SpChain := match known with
      | some c => some c
      | none =>
        if tok = 0 then s.chains.find? (·.id = owner) else
        match s.chains.find? (fun (c : SpChain) => c.tok = 0 && c.live && c.args.length = 0 && c.specs.length > 0
                                && (c.specs[0]?.map TaskSpec.mode) != some TMode.unset) with
        | some c => some { c with tok := tok }
        | none => none
    match running with
    | none => throw (viol "task-out-of-order" s!"task {owner}.{i} ran but no chain is waiting to be started")
    | some c =>
      let s := s.setChain c
      let id := c.id
      if c.owners.getD i id ≠ owner then
        throw (viol "task-out-of-order" s!"chain {id}: a task body that is not its step {i} ran in its place (step {i} made by chain op {owner})")
      -- the attempted invocation of an unset (nil) step leaves no event; it stalls the chain unless an earlier task
      -- completed a second time (outside the at-most-once hypothesis), whose extra callback moves the cursor past it
      let skipped := i - c.args.length
      let c := if !c.atMostOnce && i > c.args.length
            && (List.range skipped).all (fun k => (c.specs[c.args.length + k]?.map (·.mode)) == some .unset) then
          { c with args := c.args ++ List.replicate skipped [], calls := c.calls ++ List.replicate skipped 0 }
        else c
      if i ≠ c.args.length || i ≥ c.specs.length then
        throw (viol "task-out-of-order" s!"chain {id}: task {i} invoked, expected task {c.args.length} of {c.specs.length}")
      if (c.specs[i]?.map (·.mode)) == some .unset then
        throw (viol "task-out-of-order" s!"chain {id}: step {i} is unset (nil) but a task body ran in its place")
      if c.atMostOnce then
        if c.finals > 0 then throw (viol "task-after-final" s!"chain {id}: task {i} invoked after final")
        match i with
        | 0 => if args ≠ [] then throw (viol "args-not-threaded" s!"chain {id}: first task received {showNats args}")
        | j + 1 =>
          match c.specs[j]?, c.args[j]?, c.calls[j]? with
          | some t, some aj, some cj =>
            if cj = 0 then throw (viol "task-out-of-order" s!"chain {id}: task {i} invoked before task {j} completed")
            if t.err then throw (viol "error-did-not-jump-to-final" s!"chain {id}: task {j} reported an error but task {i} was invoked")
            if args ≠ t.result aj then
              throw (viol "args-not-threaded" s!"chain {id}: task {i} received {showNats args}, task {j} passed {showNats (t.result aj)}")
          | _, _, _ => throw (viol "task-out-of-order" s!"chain {id}: task {i} without predecessor")
      -- what the task's script now does
      let made : Nat := match c.specs[i]? with
        | some t => (match t.mode with
          | .sync | .go | .panicAfter => 1
          | .twice | .goTwice => 2
          | _ => 0)
        | none => 0
      let made := if s.stopped then 0 else made
      let s := s.setChain { c with args := c.args ++ [args], calls := c.calls ++ [made] }
      match c.specs[i]? with
      | some t => if t.mode = .later then return { s with pend := s.pend ++ [⟨id, i, t.err, t.result args⟩] } else return s
      | none => return s
  | .final id e args g => do
    if g != "c" then throw (viol "off-scheduler-goroutine" s!"final of chain {id} ran on goroutine {g}")
    match s.chains.find? (·.id = id) with
    | none => throw (viol "final-twice" s!"final of unknown chain {id}")
    | some c =>
      if c.atMostOnce then
        if c.finals ≥ 1 then throw (viol "final-twice" s!"chain {id}: final invoked again although no task completed twice")
        match c.args.length with
        | 0 =>
          if c.specs.length ≠ 0 then throw (viol "task-skipped" s!"chain {id}: final before the first task")
          if e || args ≠ [] then throw (viol "args-not-threaded" s!"chain {id}: empty chain called final({e}, {showNats args})")
        | j + 1 =>
          match c.specs[j]?, c.args[j]?, c.calls[j]? with
          | some t, some aj, some cj =>
            if cj = 0 then throw (viol "task-skipped" s!"chain {id}: final before task {j} completed")
            if e ≠ t.err then throw (viol "error-did-not-jump-to-final" s!"chain {id}: final({e}) after task {j} completed with err={t.err}")
            if !t.err && j + 1 ≠ c.specs.length then throw (viol "task-skipped" s!"chain {id}: final after task {j} of {c.specs.length} without error")
            if args ≠ t.result aj then
              throw (viol "args-not-threaded" s!"chain {id}: final received {showNats args}, task {j} passed {showNats (t.result aj)}")
          | _, _, _ => throw (viol "task-skipped" s!"chain {id}: final without predecessor")
      return s.setChain { c with finals := c.finals + 1 }

/-- end of a waterfall op (the bubble is quiescent): every live chain whose invoked tasks all completed exactly once has called final -/
def specWEnd (s : SpecS) : Except String SpecS := do
  if s.stopped || s.parked then return s
  for c in s.chains do
    if c.live && c.exactlyOnce && !c.atUnsetStep && c.finals ≠ 1 then
      throw (viol "final-missing" s!"chain {c.id}: every invoked task completed exactly once, final called {c.finals} times")
  return s

def specW (s : SpecS) (ws : List String) (obs : String) : Except String SpecS := do
  if obs == "bad-op" then return s   -- the harness refused the op (it would deadlock the scenario); nothing happened
  if obs == "panic" then
    throw (viol "caller-crashed" "starting a chain / completing a task panicked in the calling goroutine (tasks must only run inside posted closures)")
  let s ← match ws.head? with
    | some "park" => pure { s with parked := true }
    | some "unpark" => pure { s with parked := false }
    | some "fill" => pure s
    | some "chain" =>
      match kvNat ws "id", parseTasks ws with
      | some id, some specs =>
        if bldRefused ws then throw "bad-op" else
        let (blds, specs, owners) := buildChain s.blds ws id specs
        pure { s with chains := s.chains ++ [{ id := id, specs := specs, live := !s.stopped, owners := owners }], blds := blds }
      | _, _ => throw "bad-op"
    | some "fire" =>
      match kvNat ws "k" with
      | some k =>
        match s.pend[k]? with
        | some p =>
          if s.stopped then pure s else
          match s.chains.find? (·.id = p.chain) with
          | some c => pure (s.setChain { c with calls := bump c.calls p.task 1 })
          | none => pure s
        | none => pure s
      | none => throw "bad-op"
    | some "wstop" => pure { s with stopped := true }
    | _ => throw "bad-op"
  if obs == "-" || obs == "ok" || ws.head? == some "fill" then specWEnd s
  else
    let mut s := s
    for w in words obs do
      match parseWEv w with
      | none => throw (viol "unparsable-observation" obs)
      | some ev => s ← specWEv s ev
    specWEnd s

def specS (s : SpecS) (ws : List String) (o : SObs) : Except String SpecS := do
  let wasStopped := s.stopped
  let s ← match ws.head? with
    | some "burst" => match parseBurst ws with
      | some cmds => pure (cmds.foldl (fun (s : SpecS) (p, ks) =>
          let q := (s.posters.find? (·.id = p)).getD { id := p }
          s.setPoster { q with kinds := q.kinds ++ ks }) s)
      | none => throw "bad-op"
    | some "start" => pure { s with started := true }
    | some "release" =>
      match kvNat ws "post" with
      | some k =>
        let q := (s.posters.find? (·.id = 99)).getD { id := 99 }
        pure ({ s with held := false }.setPoster { q with kinds := q.kinds ++ List.replicate k Kind.normal })
      | none => pure { s with held := false }
    | some "stop" => pure { s with stopped := true }
    | _ => throw "bad-op"
  -- executions: exactly once, in posting order, on the consumer goroutine
  let mut s := s
  for (p, k) in o.exec do
    match s.posters.find? (·.id = p) with
    | none => throw (viol "unknown-closure" s!"closure {p}.{k} was never posted")
    | some q =>
      if k < q.exec then throw (viol "closure-executed-twice" s!"closure {p}.{k} executed again")
      if k ≥ q.kinds.length then throw (viol "unknown-closure" s!"closure {p}.{k} was never posted")
      if k > q.exec then throw (viol "poster-order-broken" s!"poster {p}: closure {k} executed before closure {q.exec}")
      let kind := q.kinds.getD k .normal
      s := s.setPoster { q with exec := q.exec + 1 }
      if kind = .panics then s := { s with panicRan := true }
      if kind = .hold then s := { s with held := true }
  if !o.exec.isEmpty && o.g != "c" then
    throw (viol "off-scheduler-goroutine" s!"closures ran on goroutine(s) {o.g}")
  for row in o.rows do
    match s.posters.find? (·.id = row.p) with
    | none => pure ()
    | some q =>
      if row.pan ≠ 0 then
        throw (viol (if s.stopped then "post-after-stop-crashed" else "post-crashed") s!"poster {row.p}: Post panicked")
      if wasStopped && row.ok > q.ok then
        throw (viol "post-after-stop-accepted" s!"poster {row.p}: Post on a stopped scheduler returned a task")
      if q.exec > row.ok then
        throw (viol "unknown-closure" s!"poster {row.p}: closure executed although Post did not return it")
      s := s.setPoster { q with ok := row.ok, nil := row.nil }
  -- a running, free consumer at quiescence has executed everything that was accepted
  if !s.stopped && s.started && !s.held then
    for row in o.rows do
      match s.posters.find? (·.id = row.p) with
      | none => pure ()
      | some q =>
        if q.exec < row.ok || row.blk ≠ 0 then
          if s.panicRan then
            throw (viol "panic-blocked-later-closures" s!"poster {row.p}: {row.ok} accepted, {q.exec} executed, blocked={row.blk} after a panicking closure ran")
          else
            throw (viol "closure-lost" s!"poster {row.p}: {row.ok} accepted, only {q.exec} executed, blocked={row.blk}")
  if s.stopped && s.started && !s.held then s := { s with gone := true }
  return s

def parseMExec (v : String) : Option (List (Nat × Nat × String)) :=
  if v == "-" then some [] else
  (splitNonEmpty v ",").mapM fun e =>
    match e.splitOn "@" with
    | [a, g] => match a.splitOn "." with
      | [x, y] => match natOf x, natOf y with
        | some p, some k => some (p, k, g)
        | _, _ => none
      | _ => none
    | _ => none

/-- closures posted to service X run only on X's loop goroutine, in post order, each exactly once;
a running service accepts every post; a service created after another was stopped works -/
def specM (svcs : List SpSvc) (ws : List String) (obs : String) : Except String (List SpSvc) := do
  if obs == "bad-op" then return svcs
  if obs == "panic" then
    throw (viol "service-op-crashed" s!"{" ".intercalate ws} panicked in the caller")
  let setS (v : SpSvc) : List SpSvc := svcs.map fun u => if u.id = v.id then v else u
  -- the executions reported by an op on service `v`: on its loop, in posting order, each once
  let checkExec (v : SpSvc) (ex : List (Nat × Nat × String)) (mustRun : Nat) : Except String SpSvc := do
    let k := v.id
    let mut ran := v.ran
    for (p, q, g) in ex do
      if p ≠ k then throw (viol "unknown-closure" s!"closure {p}.{q} reported by an op on service {k}")
      if g != s!"s{k}" then
        throw (viol "off-scheduler-goroutine" s!"closure {k}.{q} posted to service {k} ran on goroutine {g}, not on that service's loop")
      if q < ran then throw (viol "closure-executed-twice" s!"closure {k}.{q} executed again")
      if q > ran then throw (viol "poster-order-broken" s!"service {k}: closure {q} executed before closure {ran}")
      ran := ran + 1
    if ran - v.ran < mustRun then
      throw (viol "closure-lost" s!"service {k} is running and free: {mustRun} accepted closures must have run, {ran - v.ran} did")
    return { v with ran := ran, accepted := v.accepted - (ran - v.ran) }
  let svcOf : Option SpSvc := (kvNat ws "svc").bind fun k => svcs.find? (·.id = k)
  match ws.head?, svcOf with
  | some "svc", _ =>
    match kvNat ws "id" with
    | some id => return svcs ++ [{ id := id, started := kv ws "start" != some "0" }]
    | none => throw "bad-op"
  | some "mstop", some v => return setS { v with alive := false }
  | some "mblock", some v =>
    if obs != "ok" then throw (viol "running-service-refused-post" s!"service {v.id} is running but refused a post")
    return setS { v with blocked := true }
  | some "mstart", some v | some "munblock", some v =>
    match (kv (words obs) "exec").bind parseMExec with
    | some ex =>
      let v := if ws.head? == some "mstart" then { v with started := true } else { v with blocked := false }
      let v' ← checkExec v ex (if v.alive then v.accepted else 0)
      return setS v'
    | none => throw (viol "unparsable-observation" obs)
  | some "mpost", some v =>
    match kvNat ws "n" with
    | some n =>
      let ows := words obs
      match (kv ows "exec").bind parseMExec, (kv ows "ret").map (fun r => (r.splitOn ":").map natOf) with
      | some ex, some [some ok, some nl] =>
        if v.alive then
          if nl ≠ 0 || ok ≠ n then
            throw (viol "running-service-refused-post" s!"service {v.id} has not been stopped but Post returned nil {nl} time(s) of {n}")
        else if ok ≠ 0 then
          throw (viol "post-after-stop-accepted" s!"service {v.id} is stopped but Post returned a task")
        let v := { v with next := v.next + n, accepted := v.accepted + ok }
        let free := v.alive && v.started && !v.blocked
        let v' ← checkExec v ex (if free then v.accepted else 0)
        -- a refused closure never runs: the sequence numbers of refused posts are skipped
        return setS (if v.alive then v' else { v' with ran := v'.next })
      | _, _ => throw (viol "unparsable-observation" obs)
    | none => throw "bad-op"
  | some "mchain", some v =>
    match kvNat ws "n" with
    | some n =>
      let k := v.id
      if !v.alive then return svcs
      let evs := words obs
      let want := (List.range n).map (fun i => s!"t{i}{showNats (List.range i)}") ++ [s!"f0{showNats (List.range n)}"]
      let got := if obs == "-" then [] else evs
      for e in got do
        match e.splitOn "@" with
        | [_, g] =>
          if g != s!"s{k}" then
            throw (viol "off-scheduler-goroutine" s!"chain on service {k}: {e} ran on goroutine {g}, not on that service's loop")
        | _ => throw (viol "unparsable-observation" obs)
      let names := got.map fun e => (e.splitOn "@").headD ""
      if names ≠ want then
        if names.length < want.length && names == want.take names.length then
          throw (viol "final-missing" s!"chain on running service {k} stopped after {names.length} of {want.length} steps")
        else throw (viol "task-out-of-order" s!"chain on service {k}: {obs}")
      return svcs
    | none => throw "bad-op"
  | _, _ => throw "bad-op"

/-- does the op hand a panicking closure or task to the code under test? -/
def postsPanic (ws : List String) : Bool :=
  match ws.head? with
  | some "burst" => match parseBurst ws with
    | some cmds => cmds.any fun (_, ks) => ks.any (· = .panics)
    | none => false
  | some "chain" => match parseTasks ws with
    | some ts => ts.any fun t => t.mode = .panicBefore || t.mode = .panicAfter || t.mode = .unset
    | none => false
  | some "mpost" => (kv ws "x").isSome
  | _ => false

def stepSpec (s : SpecS) (line : String) : SpecS × String :=
  match splitLine line with
  | some (op, obs) =>
    let ws := words op
    if op.startsWith "<harness-exit" then
      if s.panicPosted then
        (s, viol "closure-panic-kills-service" ("a panicking closure was posted in this case and the consumer's process died: " ++ (obs.take 300).toString))
      else (s, viol "process-crashed" (op ++ " " ++ (obs.take 300).toString))
    else if isReset ws then
      ({ kind := (resetSt ws).kind }, "ok")
    else if ws.head? == some "next" then
      -- the harness announces an op that hands a panicking closure / task to the code (it may not survive it)
      ((if postsPanic (ws.drop 1) then { s with panicPosted := true } else s), "ok")
    else if s.dead || ws.head? == some "end" then (s, "ok")
    else if (obs.splitOn "<no-observation").length > 1 then
      ({ s with dead := true }, viol "process-crashed" op)
    else
      let s := if postsPanic ws then { s with panicPosted := true } else s
      let r : Except String SpecS := match s.kind with
        | .wf => specW s ws obs
        | .sche =>
          if obs == "bad-op" && ws.head? == some "release" then .ok s else
          match parseSObs obs with
          | some o => specS s ws o
          | none => .error (viol "unparsable-observation" obs)
        | .multi => (specM s.svcs ws obs).map fun v => { s with svcs := v }
        | .race => (specG ws obs).map fun _ => s
        | .none => .error "bad-op"
      match r with
      | .ok s' => (s', "ok")
      | .error e => ({ s with dead := true }, e)
  | none => (s, "bad-line")

end Cell2v.Driver.C15

open Cell2v.Driver in
def main (args : List String) : IO Unit :=
  match args with
  | ["spec"] => runLoop Cell2v.Driver.C15.stepSpec {}
  | ["accept"] => runLoop Cell2v.Driver.C15.stepAccept {}
  | _ => runLoop Cell2v.Driver.C15.stepModel {}
