import Cell2v.Driver.Util
import Cell2v.Model.FifoNet
import Cell2v.Gen.C15Consts
/-!
Model driver for C03.

Input lines are `op\tobs` as written by harness/c03 (see the header of
c03_test.go for the op and observation grammar).

`modeld_c03 accept` : → `ok` / `REJECT why`.  The FIFO-network model
  (`Model/FifoNet.lean`, `fireAt` = `fire`) is driven by the observation: a
  confluent search for a schedule in which every service issues in the order of
  its own goroutine's log (`issue`; for a worker's closure `post`, `send`, `run`,
  which must be the worker's oldest outstanding post), the front merges the
  senders' queues into its mailbox (`deliver`, `process`) interleaved with what
  its own goroutine issued, and every connection's writer (`write`) writes
  exactly the stream its client read.  An item is issued in the model when it
  is due (the model may issue at any time), so the model's queues stay short.
  The interleaving of different issuers is the scheduler's free choice;
  everything else must be *equal*: an observation the model cannot produce (an
  item overtaking an earlier one of its thread, a lost / duplicated / invented
  item, a mailbox merge that contradicts another connection's stream, something
  still under way towards an open client at `settle`) is rejected.
`modeld_c03 spec`   : the property predicate itself on the implementation's
  observations, with its own bookkeeping (independent of the model):
  per (service, thread, client) the arrival counters must be 0,1,2,… in arrival
  order — so successive pushes never overtake each other and whatever was issued
  before the response arrives before it —, per (service, client) — ALL threads of
  the service together — the arrivals must follow the order in which the service's
  goroutine handed the items over (its own log: handler code, timer callbacks and
  the closures of its workers as executed; `service_push_before_response`), and at
  `settle` everything issued towards an open client has arrived. → `ok` / `VIOLATION <signature> <why>`.
`modeld_c03 model`  : `?` (the interleaving is nondeterministic), `ok n=<n>` for reset.
-/
namespace Cell2v.Driver.C03
open Cell2v.Driver Cell2v Cell2v.FifoNet

/-! ### parsing (on character lists) -/

def splitCs (sep : Char) : List Char → List (List Char)
  | [] => [[]]
  | c :: cs =>
    match splitCs sep cs with
    | [] => [[c]]
    | h :: t => if c = sep then [] :: h :: t else (c :: h) :: t

def natCs : List Char → Option Nat
  | [] => none
  | cs => cs.foldl (fun acc c => match acc with
      | none => none
      | some n => if c.isDigit then some (n * 10 + (c.toNat - 48)) else none) (some 0)

def kindOf : Char → Option Kind
  | 'p' => some .push
  | 'r' => some .resp
  | _ => none

def kindCh : Kind → String
  | .push => "p"
  | .resp => "r"

/-- `<a>.<b>…<k>` → numbers and kind -/
def dotted (cs : List Char) : Option (List Nat × Kind) :=
  match cs.reverse with
  | [] => none
  | k :: rbody =>
    match kindOf k, (splitCs '.' rbody.reverse).mapM natCs with
    | some kd, some ns => some (ns, kd)
    | _, _ => none

inductive LogEnt
  | d (c n : Nat) (k : Kind)
  | x (thr c n : Nat) (k : Kind)

structure Obs where
  posts : List (Src × List (Nat × Nat × Kind)) := []   -- I sections: (client, counter, kind) in Post order
  logs : List (Nat × List LogEnt) := []                -- L sections
  arrs : List (Nat × List (Option Item)) := []         -- A sections (none = an item the harness could not decode)
  openL : Option (List Nat) := none
  dead : List Nat := []                                -- `closed=`: connections the server ended since the previous op
  bad : Bool := false

def parseSection (o : Obs) (tok : String) : Obs :=
  match splitCs '=' tok.toList with
  | [key, val] =>
    let items := (splitCs ',' val).filter (· ≠ [])
    match key with
    | 'I' :: k =>
      match (splitCs '.' k).mapM natCs with
      | some [svc, thr] =>
        match items.mapM (fun it => match dotted it with
            | some ([c, n], kd) => some (c, n, kd)
            | _ => none) with
        | some l => { o with posts := o.posts ++ [(⟨svc, thr⟩, l)] }
        | none => { o with bad := true }
      | _ => { o with bad := true }
    | 'L' :: k =>
      match natCs k with
      | some svc =>
        match items.mapM (fun it => match it with
            | 'd' :: r => match dotted r with
              | some ([c, n], kd) => some (LogEnt.d c n kd)
              | _ => none
            | 'x' :: r => match dotted r with
              | some ([t, c, n], kd) => some (LogEnt.x t c n kd)
              | _ => none
            | _ => none) with
        | some l => { o with logs := o.logs ++ [(svc, l)] }
        | none => { o with bad := true }
      | none => { o with bad := true }
    | 'A' :: k =>
      match natCs k with
      | some c =>
        let l := items.map (fun it => match dotted it with
            | some ([svc, thr, n], kd) => some (⟨⟨svc, thr⟩, c, n, kd⟩ : Item)
            | _ => none)
        { o with arrs := o.arrs ++ [(c, l)] }
      | none => { o with bad := true }
    | ['c', 'l', 'o', 's', 'e', 'd'] =>
      match items.mapM natCs with
      | some l => { o with dead := o.dead ++ l }
      | none => { o with bad := true }
    | ['o', 'p', 'e', 'n'] =>
      match items.mapM natCs with
      | some l => { o with openL := some l }
      | none => { o with bad := true }
    | _ => { o with bad := true }
  | _ => { o with bad := true }

def parseObs (obs : String) : Obs :=
  if obs = "-" then {} else (words obs).foldl parseSection {}

def showItem (x : Item) : String := s!"{x.src.svc}.{x.src.thr}>{x.client}#{x.seq}{kindCh x.kind}"

/-! ## the property predicate (spec) -/

structure Ent where
  svc : Nat
  thr : Nat
  c : Nat
  kinds : Array Kind := #[]     -- what the thread issued towards the client, in issue order
  arrived : Nat := 0
  broken : Bool := false

/-- per (service, client): what the service's goroutine handed over towards the client — by code on the
goroutine (`d`) or by executing a worker's closure (`x`) — in the order of the goroutine's own log -/
structure SvcEnt where
  svc : Nat
  c : Nat
  items : Array (Nat × Nat × Kind) := #[]   -- (thread, counter, kind)
  arrived : Nat := 0
  broken : Bool := false

structure SpecSt where
  ents : List Ent := []
  gone : List Nat := []         -- clients that closed
  svcs : List SvcEnt := []

def SpecSt.find (s : SpecSt) (svc thr c : Nat) : Option Ent :=
  s.ents.find? (fun e => e.svc = svc ∧ e.thr = thr ∧ e.c = c)

def SpecSt.put (s : SpecSt) (e : Ent) : SpecSt :=
  if s.ents.any (fun f => f.svc = e.svc ∧ f.thr = e.thr ∧ f.c = e.c) then
    { s with ents := s.ents.map (fun f => if f.svc = e.svc ∧ f.thr = e.thr ∧ f.c = e.c then e else f) }
  else { s with ents := s.ents ++ [e] }

/-- record issued items (they come in counter order per key; a gap is a harness fault and is ignored here) -/
def specIssue (s : SpecSt) (svc thr : Nat) (l : List (Nat × Nat × Kind)) : SpecSt :=
  -- group by client, keeping order
  let clients := (l.map (·.1)).eraseDups
  clients.foldl (fun s c =>
    let ks := (l.filter (·.1 = c)).map (·.2.2)
    let e := (s.find svc thr c).getD { svc := svc, thr := thr, c := c }
    s.put { e with kinds := e.kinds ++ ks.toArray }) s

def sliceKinds (a : Array Kind) (i j : Nat) : List Kind := ((a.toList.drop i).take (j - i))

/-- one arrival; returns the new state and a violation text -/
def specArrive (s : SpecSt) (x : Item) : SpecSt × Option String :=
  match s.find x.src.svc x.src.thr x.client with
  | none => (s, some s!"C03/message-lost-or-duplicated client {x.client} read {showItem x}, which nobody issued")
  | some e =>
    if e.broken then (s, none)
    else if x.seq = e.arrived ∧ e.kinds[x.seq]? = some x.kind then (s.put { e with arrived := e.arrived + 1 }, none)
    else
      let s' := s.put { e with broken := true }
      if x.seq < e.arrived then
        (s', some s!"C03/message-lost-or-duplicated client {x.client} read {showItem x} again (already at #{e.arrived})")
      else if x.seq ≥ e.kinds.size ∨ x.seq = e.arrived then
        (s', some s!"C03/message-lost-or-duplicated client {x.client} read {showItem x}, which was not issued like that")
      else
        let over := sliceKinds e.kinds e.arrived x.seq
        let who := if x.src.svc = 0 then "front-local" else "back-end"
        let txt := s!"client {x.client} read {showItem x} before #{e.arrived}..#{x.seq - 1} of the same {who} thread (issued earlier: {String.join (over.map kindCh)})"
        if x.kind = .resp ∧ over.contains .push then
          if x.src.svc = 0 ∧ x.src.thr = 0 then (s', some ("C03/front-local-push-after-response " ++ txt))
          else (s', some ("C03/push-overtaken-by-response " ++ txt))
        else if x.kind = .push ∧ over.contains .push then (s', some ("C03/pushes-reordered " ++ txt))
        else if x.kind = .push then (s', some ("C03/response-overtaken-by-push " ++ txt))
        else (s', some ("C03/responses-reordered " ++ txt))

def firstSome (a b : Option String) : Option String := match a with | some _ => a | none => b

def SpecSt.findS (s : SpecSt) (svc c : Nat) : Option SvcEnt := s.svcs.find? (fun e => e.svc = svc ∧ e.c = c)

def SpecSt.putS (s : SpecSt) (e : SvcEnt) : SpecSt :=
  if s.svcs.any (fun f => f.svc = e.svc ∧ f.c = e.c) then
    { s with svcs := s.svcs.map (fun f => if f.svc = e.svc ∧ f.c = e.c then e else f) }
  else { s with svcs := s.svcs ++ [e] }

/-- one entry of a service goroutine's log -/
def specHand (s : SpecSt) (svc : Nat) (e : LogEnt) : SpecSt :=
  let (thr, c, n, k) := match e with
    | .d c n k => (0, c, n, k)
    | .x thr c n k => (thr, c, n, k)
  let ent := (s.findS svc c).getD { svc := svc, c := c }
  s.putS { ent with items := ent.items.push (thr, n, k) }

/-- the SERVICE as the unit of order: what client `x.client` reads from service `x.src.svc` — whatever
thread issued it — must come in the order in which the service's goroutine handed it over -/
def specArriveSvc (s : SpecSt) (x : Item) : SpecSt × Option String :=
  match s.findS x.src.svc x.client with
  | none => (s, none)      -- reported by the per-thread predicate (nobody issued it)
  | some e =>
    if e.broken then (s, none)
    else if e.items[e.arrived]? = some (x.src.thr, x.seq, x.kind) then (s.putS { e with arrived := e.arrived + 1 }, none)
    else
      let s' := s.putS { e with broken := true }
      match e.items[e.arrived]? with
      | some (t, n, k) =>
        let sig := if x.kind = .resp ∧ k = .push then "C03/push-overtaken-by-response-across-threads"
          else "C03/overtaken-across-threads"
        (s', some s!"{sig} client {x.client} read {showItem x} before {x.src.svc}.{t}>{x.client}#{n}{kindCh k}, which service {x.src.svc}'s goroutine handed over earlier")
      | none => (s', some s!"C03/message-lost-or-duplicated client {x.client} read {showItem x}, which service {x.src.svc} had not handed over")

def stepSpec (s : SpecSt) (line : String) : SpecSt × String :=
  match line.splitOn "\t" with
  | [op, obs] =>
    let ws := words op
    match ws.head? with
    | some "reset" => ({}, "ok")
    | some _ =>
      let o := parseObs obs
      if o.bad then (s, "ok")   -- not an observation (harness died / panic): the acceptance check reports it
      else
        let s := o.posts.foldl (fun s (σ, l) => specIssue s σ.svc σ.thr l) s
        let s := o.logs.foldl (fun s (svc, l) =>
          specIssue s svc 0 (l.filterMap fun e => match e with | .d c n k => some (c, n, k) | .x .. => none)) s
        let s := o.logs.foldl (fun s (svc, l) => l.foldl (fun s e => specHand s svc e) s) s
        let (s, v) := o.arrs.foldl (fun (acc : SpecSt × Option String) (_, l) =>
          l.foldl (fun (acc : SpecSt × Option String) ox => match ox with
            | none => acc
            | some x =>
              let (s', v) := specArrive acc.1 x
              let (s', v2) := specArriveSvc s' x
              (s', firstSome acc.2 (firstSome v v2))) acc) (s, none)
        let s := if ws.head? = some "close" then { s with gone := (kvNat ws "c").toList ++ s.gone } else s
        let s := { s with gone := o.dead ++ s.gone }
        let v := match o.openL with
          | none => v
          | some openL =>
            let missing := s.ents.find? (fun e => !e.broken ∧ openL.contains e.c ∧ !s.gone.contains e.c ∧ e.arrived < e.kinds.size)
            firstSome v (missing.map fun e =>
              s!"C03/message-lost-or-duplicated client {e.c} (open) never read #{e.arrived}..#{e.kinds.size - 1} issued by {e.svc}.{e.thr}")
        match v with
        | some t => (s, "VIOLATION " ++ t)
        | none => (s, "ok")
    | none => (s, "bad-line")
  | _ => (s, "bad-line")

/-! ## acceptance by the model -/

/-- the shipped configuration (constants regenerated from utils/sche by harness/extract/c15) -/
def cfg : Cfg :=
  { cap := Gen.C15.queueSize, defend := Gen.C15.selfBlockDefend || Gen.C15.selfBlockDefendAssigned, localDirect := true }

def NS : Nat := 8
def NC : Nat := 16
def NT : Nat := 256

def tabulate {α : Type} (n : Nat) (f : Nat → α) : Array α := ((List.range n).map f).toArray

/-- re-tabulate the function-valued fields (extensionally the identity for
services < 8, clients < 16, workers < 256 — what the harness uses): keeps the
closures produced by `upd` from nesting ever deeper.  The tables are computed
here, once; the new fields only index them. -/
def normalize (full : Bool) (s : St) : St :=
  let tDet := tabulate NS s.detached
  let tTask := tabulate NS s.task
  let tTr := tabulate NS s.transport
  let tCh := tabulate NC s.chSend
  let tLost := tabulate NC s.lost
  let tSock := tabulate NC s.socket
  let tCl := tabulate NC s.closed
  let s1 : St := { s with
    detached := fun q => tDet.getD q []
    task := fun q => tTask.getD q []
    transport := fun q => tTr.getD q []
    chSend := fun q => tCh.getD q []
    lost := fun q => tLost.getD q []
    socket := fun q => tSock.getD q []
    closed := fun q => tCl.getD q false }
  if full then
    let tOut := tabulate (NS * NT) (fun i => s.out ⟨i / NT, i % NT⟩)
    { s1 with out := fun σ => if σ.svc < NS ∧ σ.thr < NT then (tOut.getD (σ.svc * NT + σ.thr) none) else none }
  else s1

structure AccSt where
  s : St := {}
  pend : List (Src × List Item) := []    -- handed to Post, closure not yet executed
  logQ : List (Nat × List LogEnt) := []  -- per service: its goroutine's log, not yet replayed in the model
  arrQ : List (Nat × List Item) := []    -- per client: what it read and the model has not yet written
  dying : List Nat := []                 -- connections that ended (the client closed it / the server ended it)
  cnt : List ((Nat × Nat × Nat) × Nat) := []   -- per (service, thread, client): items issued in the model so far (= `nextSeq`)
  nfire : Nat := 0

def AccSt.count (a : AccSt) (σ : Src) (c : Nat) : Nat :=
  match a.cnt.find? (fun e => e.1 = (σ.svc, σ.thr, c)) with
  | some e => e.2
  | none => 0

def AccSt.bump (a : AccSt) (σ : Src) (c : Nat) : AccSt :=
  let k := (σ.svc, σ.thr, c)
  if a.cnt.any (fun e => e.1 = k) then { a with cnt := a.cnt.map (fun e => if e.1 = k then (k, e.2 + 1) else e) }
  else { a with cnt := a.cnt ++ [(k, 1)] }

/-- one model step.  `fireAt` with the driver's own counters: `a.count σ c` is the
number of items of `σ` towards `c` issued in the model so far, i.e. `nextSeq a.s σ c`
(kept incrementally instead of re-counting the ghost log), so this is `fire`
(`fireAt_congr`). -/
def AccSt.fire (a : AccSt) (l : Label) : Option AccSt :=
  match FifoNet.fireAt cfg a.s (fun σ c => a.count σ c) l with
  | none => none
  | some s' =>
    let n := a.nfire + 1
    let a := match l with
      | .issue S c _ => a.bump ⟨S, 0⟩ c
      | .post S p c _ => a.bump ⟨S, p + 1⟩ c
      | _ => a
    -- the ghost log and the written streams are not read by `fireAt`; the driver does not keep them
    -- (the item a `write` moves is compared with the observation before it is fired)
    let s' : St := { s' with issued := [], socket := fun _ => [], lost := fun _ => [] }
    some { a with s := if n % 32 = 0 then normalize (n % 1024 = 0) s' else s', nfire := n }

def pendGet (p : List (Src × List Item)) (σ : Src) : List Item :=
  match p.find? (fun e => e.1 = σ) with
  | some e => e.2
  | none => []

def pendSet (p : List (Src × List Item)) (σ : Src) (l : List Item) : List (Src × List Item) :=
  if p.any (fun e => e.1 = σ) then p.map (fun e => if e.1 = σ then (σ, l) else e) else p ++ [(σ, l)]

/-- one entry of a service goroutine's log: the service hands the item to the framework -/
def accLog (a : AccSt) (svc : Nat) : LogEnt → Except String AccSt
  | .d c n k =>
    if a.count ⟨svc, 0⟩ c ≠ n then
      .error s!"service {svc} issued {svc}.0>{c}#{n} but it is item #{a.count ⟨svc, 0⟩ c} of that thread towards that client"
    else match a.fire (.issue svc c k) with
    | some a' => .ok a'
    | none => .error "issue not enabled"
  | .x thr c n k =>
    if thr = 0 then .error "worker 0" else
    let σ : Src := ⟨svc, thr⟩
    match pendGet a.pend σ with
    | [] => .error s!"service {svc} executed a closure of worker {thr} that was never posted"
    | y :: rest =>
      if y.client = c ∧ y.seq = n ∧ y.kind = k ∧ a.count σ c = n then
        match (a.fire (.post svc (thr - 1) c k)).bind (·.fire (.send svc (thr - 1))) |>.bind (·.fire (.run svc)) with
        | some a' => .ok { a' with pend := pendSet a'.pend σ rest }
        | none => .error "post/send/run not enabled"
      else .error s!"service {svc} executed {svc}.{thr}>{c}#{n} but the worker's oldest outstanding post is {showItem y}"

def entItem (svc : Nat) : LogEnt → Item
  | .d c n k => ⟨⟨svc, 0⟩, c, n, k⟩
  | .x thr c n k => ⟨⟨svc, thr⟩, c, n, k⟩

def arrHead (arr : List (Nat × List Item)) (c : Nat) : Option Item :=
  match arr.find? (fun e => e.1 = c) with
  | some (_, x :: _) => some x
  | _ => none

def arrPop (arr : List (Nat × List Item)) (c : Nat) : List (Nat × List Item) :=
  arr.map (fun e => if e.1 = c then (e.1, e.2.drop 1) else e)

def logGet (q : List (Nat × List LogEnt)) (S : Nat) : List LogEnt :=
  match q.find? (fun e => e.1 = S) with
  | some e => e.2
  | none => []

def logSet (q : List (Nat × List LogEnt)) (S : Nat) (l : List LogEnt) : List (Nat × List LogEnt) :=
  if q.any (fun e => e.1 = S) then q.map (fun e => if e.1 = S then (S, l) else e) else q ++ [(S, l)]

/-- which service's oldest not yet replayed item can be the front's next step:
its connection is closed (the item is dropped) or it is exactly the next thing
that connection's client read -/
def nextSender (a : AccSt) (arr : List (Nat × List Item)) (dying : List Nat) :
    Option (Nat × LogEnt × List LogEnt × Item × Bool) :=
  a.logQ.findSome? fun (S, l) =>
    match l with
    | e :: rest =>
      let h := entItem S e
      if a.s.closed h.client then some (S, e, rest, h, false)
      else if arrHead arr h.client = some h then some (S, e, rest, h, true)
      -- the server ended this connection and its client has read all it ever got: the session closes now, the item is dropped
      else if dying.contains h.client ∧ arrHead arr h.client = none then some (S, e, rest, h, false)
      else none
    | [] => none

def closeNow (a : AccSt) (c : Nat) : AccSt :=
  if a.s.closed c then a else
  match (a.fire (.close c)).bind (·.fire (.writerStop c)) with
  | some a' => a'
  | none => a

/-- find a schedule of the model (each service issuing in its own log order, the
front merging the senders' queues into its mailbox and interleaving what its
own goroutine issued) that writes, on every connection, exactly the observed
stream.  An item is issued in the model only when it is due (lazily — the model
may issue at any time), delivered, processed and written at once, so all
queues of the model stay short.  The choice is confluent: an enabled step
never disables another one. -/
def schedule (fuel : Nat) (a : AccSt) : Except String AccSt :=
  match fuel with
  | 0 => .error "out of fuel"
  | fuel + 1 =>
    match nextSender a a.arrQ a.dying with
    | some (S, e, rest, h, consume) =>
      let a := if consume then a else closeNow a h.client
      match accLog { a with logQ := logSet a.logQ S rest } S e with
      | .error m => .error m
      | .ok a0 =>
        let a1? := if S = 0 then some a0 else (a0.fire (.deliver S)).bind (·.fire .process)
        match a1? with
        | none => .error "deliver/process not enabled"
        | some a1 =>
          if consume then
            match a1.s.chSend h.client with
            | [y] =>
              if y = h then
                match a1.fire (.write h.client) with
                | some a2 => schedule fuel { a2 with arrQ := arrPop a2.arrQ h.client }
                | none => .error "write not enabled"
              else .error s!"the model's connection {h.client} would write {showItem y}, the client read {showItem h}"
            | _ => .error s!"the model's connection {h.client} does not hold exactly {showItem h}"
          else schedule fuel a1
    | none => .ok a    -- nothing more can be decided with what has been observed so far

/-- what cannot be scheduled at quiescence: a client read something the model cannot write next -/
def stuckMsg (a : AccSt) : Option String :=
  match a.arrQ.find? (fun e => e.2 ≠ []) with
  | none => none
  | some (c, l) =>
    let x := l.headD ⟨⟨0, 0⟩, 0, 0, .push⟩
    let nxt := (logGet a.logQ x.src.svc).head?.map (entItem x.src.svc)
    some (s!"client {c} read {showItem x}, but in the model the next message of service {x.src.svc} is " ++
      (match nxt with | some y => showItem y | none => "none (nothing under way)"))

def exceptFold {α β : Type} (f : α → β → Except String α) (a : α) (l : List β) : Except String α :=
  l.foldl (fun acc b => match acc with | .ok a => f a b | .error e => .error e) (.ok a)

def accObs (a : AccSt) (o : Obs) : Except String AccSt := do
  -- posts: remember them (in Post order) with the counter the model will give them
  let a := o.posts.foldl (fun (a : AccSt) (σ, l) =>
    { a with pend := pendSet a.pend σ (pendGet a.pend σ ++ l.map (fun (c, n, k) => (⟨σ, c, n, k⟩ : Item))) }) a
  -- what the service goroutines issued is replayed lazily, in each service's own order
  let a := o.logs.foldl (fun (a : AccSt) (svc, l) => { a with logQ := logSet a.logQ svc (logGet a.logQ svc ++ l) }) a
  if o.arrs.any (fun e => e.2.any (·.isNone)) then
    .error "a client read something that is not a tagged push/response (error response?)"
  let a := o.arrs.foldl (fun (a : AccSt) (c, l) =>
    let cur := match a.arrQ.find? (fun e => e.1 = c) with | some e => e.2 | none => []
    let l' := cur ++ l.filterMap id
    { a with arrQ := if a.arrQ.any (fun e => e.1 = c) then a.arrQ.map (fun e => if e.1 = c then (c, l') else e)
                     else a.arrQ ++ [(c, l')] }) a
  -- a connection the server ended (failed write, …): closed in the model once its client's stream is consumed
  let a := { a with dying := a.dying ++ o.dead }
  let work := (a.arrQ.map (·.2.length)).sum + (a.logQ.map (·.2.length)).sum
  -- schedule as far as the observations so far decide it (the rules are monotone: what is left waits for later observations)
  schedule (work + 8) a

def stepAccept (a : AccSt) (line : String) : AccSt × String :=
  match line.splitOn "\t" with
  | [op, obs] =>
    let ws := words op
    match ws.head? with
    | some "reset" => ({}, if obs.startsWith "ok" then "ok" else "REJECT reset failed: " ++ obs)
    | some h =>
      if obs = "bad-op" then (a, "ok")
      else
        let o := parseObs obs
        if o.bad then (a, "REJECT not an observation: " ++ obs)
        else match accObs a o with
          | .error e => (a, "REJECT " ++ e)
          | .ok a' =>
            if h = "close" then
              ({ a' with dying := a'.dying ++ (kvNat ws "c").toList }, "ok")
            else if h = "settle" then
              match stuckMsg a' with
              | some m => (a', "REJECT " ++ m)
              | none =>
              -- quiescence: whatever the model still has under way towards an open client should have been read
              match o.openL with
              | none => (a', "ok")
              | some openL =>
                let s := a'.s
                let under := (List.range NS).flatMap (fun S => s.transport S ++ s.task S) ++ s.mailbox ++
                  openL.flatMap (fun c => s.chSend c) ++ a'.logQ.flatMap (fun e => e.2.map (entItem e.1)) ++ a'.pend.flatMap (·.2)
                match under.find? (fun x => openL.contains x.client) with
                | some x => (a', s!"REJECT quiescent, but {showItem x} never reached open client {x.client}")
                | none => (a', "ok")
            else (a', "ok")
    | none => (a, "bad-line")
  | _ => (a, "bad-line")

def stepModel (_ : Unit) (line : String) : Unit × String :=
  let ws := words line
  match ws.head? with
  | some "reset" => ((), s!"ok n={(kvNat ws "n").getD 0}")
  | _ => ((), "?")

end Cell2v.Driver.C03

open Cell2v.Driver in
def main (args : List String) : IO Unit :=
  match args with
  | ["spec"] => runLoop Cell2v.Driver.C03.stepSpec {}
  | ["accept"] => runLoop Cell2v.Driver.C03.stepAccept {}
  | _ => runLoop Cell2v.Driver.C03.stepModel ()
