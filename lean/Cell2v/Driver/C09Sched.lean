import Cell2v.Driver.Util
import Cell2v.Model.SchedDisp
/-!
C09 component driver: op lines starting with `sd` (harness/c09/sched_test.go
drives the REAL `scheDisp` + run service with 10-16 real mailboxes on it).

  sd reset                                  -> ok
  sd post mb=<m> msg=<id> gate=<0|1>        -> ran=<ids> off=<n> maxconc=<n> blk=<n>
  sd release                                -> ran=<ids> off=<n> maxconc=<n> blk=<n>
  sd selfpost mb=<m> msg=<id>               -> ran=<ids> off=<n> maxconc=<n> blk=<n> sent=<0|1>
                                               (the handler that occupies the loop goroutine posts; sent=0: no handler is
                                               waiting for commands — none executing, or it is blocked inside Schedule)
  sd wait ms=<n>                            -> ran=<ids> off=<n> maxconc=<n> blk=<n>
                                               (n ms of virtual time pass: the handler at its gate is a long one, posters
                                               stay inside Schedule; `Schedule` has no deadline — nothing may change)
  sd end                                    -> undelivered=<n>

`ran`: messages handed to their invoker during the step, in order; `off`: how many of
those invocations did NOT run on the dispatcher's loop goroutine; `maxconc`: largest
number of handlers in flight when one of them started; `blk`: posters still inside
`PostUserMessage` (blocked in `Schedule`).

`model`: `Cell2v.SchedDisp`.  `spec`: the property itself on the implementation's
observations — exactly once, per-mailbox order, never two at a time, only on the
dispatcher's goroutine, nothing undelivered at the end.
-/
namespace Cell2v.Driver.C09Sched
open Cell2v.Driver Cell2v.SchedDisp

def isSdOp (line : String) : Bool := line.startsWith "sd " || line == "sd"

def showIds (l : List Nat) : String := ",".intercalate (l.map toString)

def obsOf (s s' : St) : String :=
  let new := (s'.ran.drop s.ran.length).map (·.2)
  s!"ran={showIds new} off=0 maxconc={if new.isEmpty then 0 else 1} blk={s'.blocked.length}"

def sdStep (s : St) (ws : List String) : St × String :=
  match ws with
  | "sd" :: "reset" :: _ => (init, "ok")
  | "sd" :: "post" :: _ =>
    match kvNat ws "mb", kvNat ws "msg" with
    | some mb, some msg =>
      let s' := post s mb msg (kv ws "gate" == some "1")
      (s', obsOf s s')
    | _, _ => (s, "bad-op")
  | "sd" :: "release" :: _ => let s' := release s; (s', obsOf s s')
  | "sd" :: "selfpost" :: _ =>
    match kvNat ws "mb", kvNat ws "msg" with
    | some mb, some msg =>
      let s' := selfPost s mb msg
      (s', obsOf s s' ++ s!" sent={if s.gateMb.isSome && !s.stuck then 1 else 0}")
    | _, _ => (s, "bad-op")
  | "sd" :: "wait" :: _ =>
    match kvNat ws "ms" with
    | some ms => let s' := step s (.wait ms); (s', obsOf s s')
    | none => (s, "bad-op")
  | "sd" :: "end" :: _ => (s, s!"undelivered={s.mq.length}")
  | _ => (s, "bad-op")

/-! ### property predicate on the implementation's observations -/

structure SpS where
  posted : List Nat := []
  ran : List Nat := []
  deriving Inhabited

def parseIds (s : String) : List Nat := (s.splitOn ",").filterMap String.toNat?

def mbOf (id : Nat) : Nat := id / 100

def checkRan (sp : SpS) : List Nat → SpS × Option String
  | [] => (sp, none)
  | id :: rest =>
    if sp.ran.contains id then (sp, some s!"VIOLATION C09/delivered-twice message {id} (several mailboxes on one dispatcher)")
    else if !sp.posted.contains id then (sp, some s!"VIOLATION C09/delivered-unposted message {id} (several mailboxes on one dispatcher)")
    else if sp.ran.any (fun d => mbOf d == mbOf id && d > id) then (sp, some s!"VIOLATION C09/sender-order message {id} delivered after a later one of the same mailbox")
    else checkRan { sp with ran := sp.ran ++ [id] } rest

def specSd (sp : SpS) (op obs : String) : SpS × String :=
  let ws := words op
  let ows := words obs
  if (obs.splitOn "panic").length > 1 then (sp, "VIOLATION C09/crash " ++ op ++ " -> " ++ obs) else
  match ws with
  | "sd" :: "reset" :: _ => ({}, "ok")
  | "sd" :: "end" :: _ =>
    let missing := sp.posted.filter (fun id => !sp.ran.contains id)
    if !missing.isEmpty then (sp, s!"VIOLATION C09/stalled-with-undelivered messages {missing} never reached their handlers (several mailboxes on one dispatcher)")
    else (sp, "ok")
  | "sd" :: _ =>
    let sp := match ws with
      | "sd" :: "post" :: _ => { sp with posted := sp.posted ++ [(kvNat ws "msg").getD 0] }
      | "sd" :: "selfpost" :: _ => if kv ows "sent" == some "1" then { sp with posted := sp.posted ++ [(kvNat ws "msg").getD 0] } else sp
      | _ => sp
    let (sp', r) := checkRan sp (parseIds ((kv ows "ran").getD ""))
    if (kvNat ows "off").getD 0 > 0 then (sp', s!"VIOLATION C09/off-dispatcher-goroutine a mailbox run executed on a goroutine other than the dispatcher's: {op} -> {obs}")
    else if (kvNat ows "maxconc").getD 0 > 1 then (sp', s!"VIOLATION C09/two-at-a-time handlers of one dispatcher overlapped: {op} -> {obs}")
    else
      match r with
      | some v => (sp', v)
      | none => (sp', "ok")
  | _ => (sp, "ok")

end Cell2v.Driver.C09Sched
