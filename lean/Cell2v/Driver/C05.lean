import Cell2v.Driver.Util
import Cell2v.Model.Session
import Cell2v.Model.Framing
/-!
Model driver for C05.

The harness runs the real `session.ClientSession` (over a scripted in-memory
`acceptor.PlayerConn`) with the real `pomelo.SessionsImpl` + `impls.ClientSessions`
inside one synctest bubble.  Every goroutine of a session is parked at a gate of
the harness's own code whenever it calls out of the session (`GetNextMessage`,
`conn.Write`, `Impl.ProcessMessage`), so each op line is one *grant* of the
controlling scheduler and the bubble is quiescent before and after it.  `model`
replays the same grants on `Session.fire true` (every op is a sequence of fired
labels; a label that is not enabled makes the op answer `none`), several
connections side by side, plus the owner (`ClientSessions`) consuming the posted
events on `drain`.

Ops (a case starts with `reset [next=<counter>]`):
  open c=K | in c=K it=<f:pk,pk,..|bad|err|eof> | rd c=K [w=0] | rds c=K [w=0] | wr c=K ok=<0|1> |
  adv dt=MS | kick c=K | okick c=K | dokick | push c=K | mpush ids=<cK|u<n>,..> | spush c=K | fill c=K n=N | qfill n=N | arm <op> | go | drain | end
  (`open` options: cbp=<h|c> panicking close callback, ce=<1|f> conn.Close() returns an error (always | first call),
   oa=<k|p> the owner's handler kicks the session / pushes to its id from inside OnSessionAdd)
packets: hs1 hs0 ack d<mid> x<mid> hb ot.

Observation: one record per connection, `;`-separated, then ` | live=<ids> g=<goroutines>`:
  cK:st=<1-4>,rd=<w|h|m|x>,wr=<p|->,cc=<conn.Close calls>,nw=<writes>,hw=<handshake responses>,
     np=<pushes handed to it by the owner's PushMsg>,ev=<A|M<mid>|R …; nothing is recorded after R>,ow=<a<id>|m<mid>|p<mid> (handled with another payload than sent)|n<mid>|r<h><c> …>,
     tb=<the handler's own lookup of the id from inside OnSessionAdd (1 = this session), then from inside OnSessionRemove (0 = gone)>[,r=<ok|closed>]

tcp smoke engine (real TCPAcceptor, real time): `reset-tcp pk=<pk,..> tail=<hex> [lens=<body lengths> cut=<byte offsets>] [passive=1]`
(`passive=1`: the client never half-closes; `Framing.framesOpen`; the reader ends the session on a complete malformed header, otherwise the
owner kicks it; observation gets `,rel=<the server's socket is gone>`; `lag=1`: the owner is busy - a task of its scheduler does not
return - from before the connect until the reader has posted everything the stream holds, so the client's packets are all received
while the earlier messages still wait in the owner's queue; the owner's order of events is the same, the model ignores the flag)
= one whole connection whose byte stream arrives in the pieces given by `cut`; the model frames the same stream
(`Framing.framesOf`: real headers and tail, body bytes abstracted) and feeds the messages to the session model;
`b<mid>` = a decodable message with a body larger than the socket buffers; `reset-wsc pk=.. tail=.. [frag=1] [glue=1]` =
the same through the real WSAcceptor (one packet per websocket message, `Framing.wsNext`); observation `ev=..,ow=<a|m<mid>|r11 …>,eof=<server closed the socket>,g=<goroutines left>,pl=<ids of the messages whose route/payload, at the moment
the owner's handler got them, was not what the client sent under that id, `+`-separated; empty = none>`.

`spec` evaluates the property on the implementation's observations only.
-/
namespace Cell2v.Driver.C05
open Cell2v.Driver Cell2v.Session

/-- owner-handler events of one connection, as displayed -/
inductive OwEv | a (id : Nat) | m (mid : Nat) | r (handlerCbs : Nat) (sessionsCb : Bool)
  deriving Repr

structure Conn where
  k : Nat
  s : St
  step : Bool := false       -- reader granted in step mode (parks before each message post)
  hw : Nat := 0              -- handshake responses written
  seenPosted : Nat := 1      -- how many of `s.posted` were already moved to the owner's queue (the add is moved at `open`)
  id : Nat := 0              -- id given by the owner (0 = not yet added)
  ow : List OwEv := []
  cbp : String := ""         -- scripted close callbacks that panic: h = the handler's per-session one, c = the sessions' one
  np : Nat := 0              -- pushes the owner's PushMsg handed to this session
  oa : String := ""          -- what the owner's handler does from inside OnSessionAdd: k = kicks the session, p = pushes to its id
  tb : String := ""          -- the sessions map as the handler finds it inside its callbacks: at the add (1 = the announced session is
                             -- registered under its id), at the remove (0 = the id is gone)

structure D where
  conns : List Conn := []
  now : Nat := 0
  queue : List (Nat × Ev) := []      -- owner's scheduler queue: (connection, event)
  counter : Nat := 1                 -- SerialIdService.nextId
  live : List (Nat × Nat) := []      -- sessions map: (id, connection)
  armed : Option String := none      -- op recorded by `arm`, executed by `go`
  fillers : Nat := 0                 -- filler closures in the owner's queue (`qfill`), gone at the next drain
  hnd : Hnd := {}                    -- HandlerComponent.onCloseCBs: id ↦ the connection whose handler registered a close callback
  kh : Bool := false                 -- a custom IKickHandler is set (`reset kh=1`): notice now, DoKick later (`dokick`)
  pendK : List Nat := []             -- ids the kick handler was handed and has not yet passed to DoKick

def M32 : Nat := 4294967296

/-! ### firing -/

def fireL (s : St) (ls : List Lbl) : St :=
  ls.foldl (fun s l => (fire true s l).getD s) s

def en (s : St) (l : Lbl) : Bool := (fire true s l).isSome

/-- is the reader parked at the message gate -/
def atGate (c : Conn) : Bool :=
  c.step && match c.s.rd with
    | .proc (.data true _ :: _) => !(c.s.status == .start || c.s.status == .handshake)
    | _ => false

/-- one round of the steps that need no grant; returns `none` when nothing applied -/
def autoStep (s : St) : Option St :=
  let tryL (l : Lbl) : Option St := fire true s l
  let cands : List Lbl :=
    [.cCheck .rd, .cCheck .wr, .cCheck .hb, .cCheck .kk, .cFin .rd, .cFin .wr, .cFin .hb, .cFin .kk,
     .cLock .rd, .cLock .wr, .cLock .hb, .cLock .kk,
     .rdTop, .rdErrRet, .rdEnd, .wrExit, .wrEnd, .hbChk, .hbSnd, .hbUnblk, .hbExit, .hbTick]
  match cands.findSome? tryL with
  | some s' => some s'
  | none =>
    -- the conn is closed: a parked write and a pending read fail at once
    if s.connCloses > 0 && s.wr == .inw then tryL (.wrRet false)
    else if s.connCloses > 0 && s.rd == .wait then (tryL (.rdTake .rerr)).bind (fun s1 => fire true s1 .rdRet)
    else if s.connCloses == 0 && s.wr == .sel then tryL .wrTake
    else none

def settle (s : St) : Nat → St
  | 0 => s
  | n + 1 => match autoStep s with
    | some s' => settle s' n
    | none => s

def settleC (c : Conn) : Conn := { c with s := settle c.s 200 }

/-- the reader runs after a grant: packet by packet until it blocks, stops at the message gate, or leaves -/
def readerRun (c : Conn) (w : Bool) : Nat → Conn
  | 0 => c
  | n + 1 =>
    match c.s.rd with
    | .proc ps =>
      if atGate c then c else
      let wok := w && c.s.connCloses == 0
      let isHs := match ps with | .hs _ :: _ => true | _ => false
      match fire true c.s (.rdPkt wok) with
      | none => c
      | some s' =>
        let hw := if isHs && wok then c.hw + 1 else c.hw
        readerRun (settleC { c with s := s', hw := hw }) w n
    | _ => c

/-- grant to the reader (`stepMode` = park before the next message post) -/
def grantReader (c : Conn) (stepMode : Bool) (w : Bool) : Option Conn :=
  match c.s.rd with
  | .hold _ =>
    match fire true c.s .rdRet with
    | none => none
    | some s' => some (readerRun (settleC { c with s := s', step := stepMode }) w 400)
  | .proc _ =>
    if atGate c then
      -- release the gate: the message is posted
      match fire true c.s (.rdPkt true) with
      | none => none
      | some s' => some (readerRun (settleC { c with s := s', step := stepMode }) w 400)
    else none
  | _ => none

/-! ### parsing -/

def parsePkt (w : String) : Option Pkt :=
  if w == "hs1" then some (.hs true)
  else if w == "hs0" then some (.hs false)
  else if w == "ack" then some .ack
  else if w == "hb" then some .hb
  else if w == "ot" then some .other
  else if w.startsWith "d" || w.startsWith "b" then ((w.drop 1).toString.toNat?).map (fun n => Pkt.data true n)
  else if w.startsWith "x" then ((w.drop 1).toString.toNat?).map (fun n => Pkt.data false n)
  else none

def parseItem (v : String) : Option Item :=
  if v == "bad" then some .bad
  else if v == "err" || v == "eof" then some .rerr
  else if v.startsWith "f:" then
    let body := (v.drop 2).toString
    if body == "" then some (.frame [])
    else
      let ws := body.splitOn ","
      let ps := ws.filterMap parsePkt
      if ps.length == ws.length then some (.frame ps) else none
  else none

/-! ### display -/

def rdName (c : Conn) : String :=
  match c.s.rd with
  | .wait => "w"
  | .hold _ => "h"
  | .proc _ => if atGate c then "m" else "?"
  | .done => "x"
  | _ => "?"

def showEv : Ev → String
  | .add => "A" | .msg k => s!"M{k}" | .remove => "R"

/-- a panicking handler callback aborts RemoveSession before the sessions' own close callback -/
def rTok (cbp : String) : String := if cbp.contains 'h' then "r1" else "r11"

def showOw (_cbp : String) : OwEv → String
  | .a id => s!"a{id}" | .m k => s!"m{k}" | .r h c => s!"r{h}{if c then "1" else ""}"

/-- messages posted after the remove are not part of the observation (the owner drops them) -/
def evShown : List Ev → List Ev
  | [] => []
  | .remove :: _ => [.remove]
  | e :: r => e :: evShown r

def showConn (c : Conn) (extra : String) : String :=
  s!"c{c.k}:st={c.s.status.toNat},rd={rdName c},wr={if c.s.wr == .inw then "p" else "-"},cc={c.s.connCloses},nw={c.s.writes},hw={c.hw},np={c.np},ev={String.join ((evShown c.s.posted).map showEv)},ow={String.join (c.ow.map (showOw c.cbp))},tb={c.tb}" ++ extra

def goroutines (d : D) : Nat :=
  d.conns.foldl (fun a c => a + (if c.s.rd == .done then 0 else 1) + (if c.s.wr == .done then 0 else 1) +
    (if c.s.hb == .done then 0 else 1)) 0

def insertNat (n : Nat) : List Nat → List Nat
  | [] => [n]
  | m :: l => if n ≤ m then n :: m :: l else m :: insertNat n l

def showObs (d : D) (k : Nat) (extra : String) : String :=
  let cs := d.conns.map fun c => showConn c (if c.k == k then extra else "")
  let ids := (d.live.map (·.1)).foldr insertNat []
  ";".intercalate cs ++ s!" | live={",".intercalate (ids.map toString)} g={goroutines d}"

/-! ### state updates -/

def findConn (d : D) (k : Nat) : Option Conn := d.conns.find? (·.k == k)

def putConn (d : D) (c : Conn) : D := { d with conns := d.conns.map fun x => if x.k == c.k then c else x }

/-- move newly posted events of every connection to the owner's queue -/
def collect (d : D) : D :=
  d.conns.foldl (fun d c =>
    let newEvs := c.s.posted.drop c.seenPosted
    if newEvs.isEmpty then d else
    putConn { d with queue := d.queue ++ newEvs.map (fun e => (c.k, e)) } { c with seenPosted := c.s.posted.length }) d

def settleAll (d : D) : D := collect { d with conns := d.conns.map settleC }

def kickConn (d : D) (c : Conn) : D :=
  settleAll (putConn d { c with s := fireL c.s [.kick] })

/-- an application push would park its caller: queue full on an open session -/
def wouldBlock (c : Conn) : Bool := c.s.status != .closed && c.s.closed == false && c.s.sendq ≥ sendCap

/-- `ClientSessions.Kick(id)` on the owner goroutine (`Session.Own.kick`): nothing / the default kick / the custom kick
handler, which - like the mmo gate's - pushes a notice to the id (not when that would park the owner) and keeps the id for a
later `DoKick` -/
def kickReq (d : D) (id : Nat) : D :=
  let o : Own := { counter := d.counter, live := d.live }
  match o.kick d.kh id with
  | .miss => d
  | .close k => (match findConn d k with | some c => kickConn d c | none => d)
  | .handler id =>
    let d := (o.pushTargets [id]).foldl (fun d k' => match findConn d k' with
      | some c' => if wouldBlock c' then d else settleAll (putConn d { c' with s := fireL c'.s [.push], np := c'.np + 1 })
      | none => d) d
    { d with pendK := d.pendK ++ [id] }

/-- `ClientSessions.DoKick(id)` (`Session.Own.doKick`): the table is left alone, the session found is closed -/
def doKickReq (d : D) (id : Nat) : D :=
  match (({ counter := d.counter, live := d.live } : Own).doKick id).2 with
  | some k => (match findConn d k with | some c => kickConn d c | none => d)
  | none => d

/-- `ClientSessions` on the owner goroutine, one posted task (the sessions map is `Session.Own`: every lookup is by the
id the session holds, `session.GetId()`) -/
def ownerTask (d : D) (k : Nat) (e : Ev) : D :=
  match findConn d k with
  | none => d
  | some c =>
    let o : Own := { counter := d.counter, live := d.live }
    match e with
    | .add =>
      let r := o.add M32 k
      -- the handler's own lookup of the announced id, from inside OnSessionAdd
      let c := { c with id := r.2, ow := c.ow ++ [.a r.2], tb := c.tb ++ (if r.1.lookup r.2 == some k then "1" else "0") }
      -- the harness's handler registers a per-session close callback with the real HandlerComponent
      let d := putConn { d with counter := r.1.counter, live := r.1.live, hnd := d.hnd.register r.2 k } c
      -- ... and what it does with the session there: Kick(id) / PushMsg([id]) go through the map like anybody else's
      if c.oa == "k" then kickReq d r.2
      else if c.oa == "p" then
        (if wouldBlock c then d else
         (r.1.pushTargets [r.2]).foldl (fun d k' => match findConn d k' with
           | some c' => settleAll (putConn d { c' with s := fireL c'.s [.push], np := c'.np + 1 })
           | none => d) d)
      else d
    | .msg mid =>
      -- findSession(session.GetId()): dropped when nothing is registered under the id
      match o.lookup c.id with
      | some _ => putConn d { c with ow := c.ow ++ [.m mid] }
      | none => d
    | .remove =>
      -- `Session.removeSession`: the entry found under the id is deleted; the handler and the close callbacks get ITS
      -- FrontSession; the callback registered under the id runs (a scripted one may panic: the removal ends there)
      let panics := match (d.hnd.lookup c.id).bind (findConn d) with
        | some cc => cc.cbp.contains 'h'
        | none => false
      match removeSession o d.hnd c.id panics with
      | (o', h', { conn := some k', handlerCb := hcb, sessionsCb := scb }) =>
        let d := { d with live := o'.live, hnd := h' }
        (match findConn d k' with
         | some c' => putConn d { c' with ow := c'.ow ++ [.r (if hcb.isSome then 1 else 0) scb],
                                          tb := c'.tb ++ (if (o'.lookup c.id).isSome then "1" else "0") }
         | none => d)
      | (_, _, _) => d

/-- the owner runs until its queue is empty (a task may post further tasks: a kick from inside OnSessionAdd posts the remove) -/
def drainN : Nat → D → D
  | 0, d => d
  | n + 1, d =>
    if d.queue.isEmpty then { d with fillers := 0 } else
    let q := d.queue
    drainN n (q.foldl (fun d p => ownerTask d p.1 p.2) { d with queue := [], fillers := 0 })

def drain (d : D) : D := drainN 16 d

def isLive (d : D) (c : Conn) : Bool := c.id != 0 && d.live.any (fun p => p.1 == c.id && p.2 == c.k)

/-- time passes: ticks are delivered one by one at their exact instants -/
def advance (d : D) (target : Nat) : Nat → D
  | 0 => d
  | n + 1 =>
    -- a heartbeat goroutine parked in its send takes no tick (the ticker keeps one, drops the rest)
    let due := d.conns.filter fun c => c.s.hb == .sel && c.s.tickAt ≤ target
    match due with
    | [] => { d with now := target, conns := d.conns.map fun c =>
        { c with s := fireL (fireL c.s [.advance (target - c.s.now)]) (List.replicate ((target - c.s.tickAt) / hbMs) .tickDrop) } }
    | c0 :: rest =>
      let c := rest.foldl (fun best c => if c.s.tickAt < best.s.tickAt then c else best) c0
      let t := c.s.tickAt
      let d := { d with now := t, conns := d.conns.map fun c => { c with s := fireL c.s [.advance (t - c.s.now)] } }
      match findConn d c.k with
      | none => d
      | some c =>
        match fire true c.s .hbTick with
        | none => d      -- cannot happen after settle (hb at sel)
        | some s' => advance (settleAll (putConn d { c with s := s' })) target n

def endCase (d : D) : D :=
  let d := d.conns.foldl (fun d c => match findConn d c.k with | some c => kickConn d c | none => d) d
  let d := d.conns.foldl (fun d c =>
    match findConn d c.k with
    | some c => (List.range 50).foldl (fun d _ =>
        match findConn d c.k with
        | some c => match grantReader c false true with
          | some c' => settleAll (putConn d c')
          | none => d
        | none => d) d
    | none => d) d
  drain d

def showOwNoId : OwEv → String
  | .a _ => "a" | .m k => s!"m{k}" | .r h c => s!"r{h}{if c then "1" else ""}"

def stepCore (d : D) (line : String) : D × String :=
  let ws := words line
  let k := (kvNat ws "c").getD 0
  match ws.head? with
  | some "reset" =>
    let d : D := { counter := (kvNat ws "next").getD 1, kh := kv ws "kh" == some "1" }
    (d, "ok")
  | some "open" =>
    if (findConn d k).isSome || k == 0 then (d, "none") else
    let s0 : St := initAt d.now
    let d := { d with conns := d.conns ++ [{ k := k, s := s0, cbp := (kv ws "cbp").getD "", oa := (kv ws "oa").getD "" }], queue := d.queue ++ [(k, .add)] }
    let d := settleAll d
    (d, showObs d k "")
  | some "in" =>
    match findConn d k, (kv ws "it").bind parseItem with
    | some c, some it =>
      match fire true c.s (.rdTake it) with
      | none => (d, "none")
      | some s' => let d := settleAll (putConn d { c with s := s' }); (d, showObs d k "")
    | _, _ => (d, "none")
  | some "rd" | some "rds" =>
    match findConn d k with
    | some c =>
      match grantReader c (ws.head? == some "rds") (kv ws "w" != some "0") with
      | none => (d, "none")
      | some c' => let d := settleAll (putConn d c'); (d, showObs d k "")
    | none => (d, "none")
  | some "wr" =>
    match findConn d k with
    | some c =>
      match fire true c.s (.wrRet (kv ws "ok" != some "0")) with
      | none => (d, "none")
      | some s' => let d := settleAll (putConn d { c with s := s' }); (d, showObs d k "")
    | none => (d, "none")
  | some "adv" =>
    let dt := (kvNat ws "dt").getD 0
    let d := advance d (d.now + dt) 10000
    (d, showObs d 0 "")
  | some "kick" =>
    match findConn d k with
    | some c => let d := kickConn d c; (d, showObs d k "")
    | none => (d, "none")
  | some "okick" =>
    match findConn d k with
    | some c => let d := kickReq d c.id; (d, showObs d k "")
    | none => (d, "none")
  | some "dokick" =>
    -- the kick handler's delayed DoKick of the oldest id it holds
    match d.pendK with
    | [] => (d, "none")
    | id :: rest => let d := doKickReq { d with pendK := rest } id; (d, showObs d 0 "" ++ s!" kid={id}")
  | some "push" =>
    match findConn d k with
    | some c =>
      if isLive d c && wouldBlock c then (d, "none") else
      let d := if isLive d c then settleAll (putConn d { c with s := fireL c.s [.push], np := c.np + 1 }) else d
      (d, showObs d k "")
    | none => (d, "none")
  | some "qfill" =>
    -- a backlogged owner (sche.QueueSize = 999; never to within 9 of it); Post is a plain FIFO send: nothing else changes
    let n := (kvNat ws "n").getD 0
    if n == 0 || d.queue.length + d.fillers + n > 990 then (d, "none")
    else let d := { d with fillers := d.fillers + n }; (d, showObs d 0 "")
  | some "mpush" =>
    -- one PushMsg for several ids; each id is looked up in the sessions map in turn, an unknown one is skipped
    let toks := ((kv ws "ids").getD "").splitOn ","
    let ids : List (Option Nat) := toks.map fun w =>
      if w.startsWith "c" then ((w.drop 1).toString.toNat?).bind (fun n => (findConn d n).map (·.id))
      else if w.startsWith "u" then ((w.drop 1).toString.toNat?).map (fun n => 3000000000 + n)
      else none
    if ids.any (·.isNone) then (d, "none") else
    let targets : List Nat := ({ counter := d.counter, live := d.live } : Own).pushTargets (ids.filterMap id)
    -- a push that finds the queue full would park the owner: such an op is not run
    if targets.any (fun k => match findConn d k with
        | some c => c.s.status != .closed && c.s.closed == false && c.s.sendq + (targets.filter (· == k)).length > sendCap
        | none => false) then (d, "none") else
    let d := targets.foldl (fun d k => match findConn d k with
      | some c => settleAll (putConn d { c with s := fireL c.s [.push], np := c.np + 1 })
      | none => d) d
    (d, showObs d 0 "")
  | some "fill" =>
    -- application pushes up to the capacity of chSend while the writer is parked in Write
    match findConn d k with
    | some c =>
      let n := (kvNat ws "n").getD 0
      if c.s.wr == .inw && c.s.closed == false && c.s.status != .closed && c.s.sendq + n ≤ sendCap then
        let d := settleAll (putConn d { c with s := fireL c.s (List.replicate n .push) })
        (d, showObs d k s!",q={(findConn d k).map (·.s.sendq) |>.getD 0}")
      else (d, "none")
    | none => (d, "none")
  | some "spush" =>
    match findConn d k with
    | some c =>
      if wouldBlock c then (d, "none") else
      let r := if c.s.status == .closed then ",r=closed" else ",r=ok"
      let d := settleAll (putConn d { c with s := fireL c.s [.push] })
      (d, showObs d k r)
    | none => (d, "none")
  | some "drain" => let d := drain d; (d, showObs d 0 "")
  | some "end" => let d := endCase d; (d, showObs d 0 "")
  | _ => (d, "bad-op")

/-- accept burst through `StartAcceptor`: every connection is served by exactly one session and ends with one remove -/
def burstObs (n : Nat) : String := s!"n={n},served1={n},adds={n},removes={n},closes={n}"

/-- packet type byte of a packet token -/
def typOfTok (w : String) : Nat :=
  if w.startsWith "hs" then 1 else if w == "ack" then 2 else if w == "hb" then 3 else if w == "ot" then 5 else 4

/-- the messages the framing hands to the read loop, as packet tokens: the i-th message must be the i-th packet of the
script; what the tail adds can only be an empty heartbeat / ack / kick packet -/
def framedToks : List (List Nat) → List (String × List Nat) → Option (List String)
  | [], _ => some []
  | f :: fr, (w, p) :: pr => if f == p then (framedToks fr pr).map (w :: ·) else none
  | f :: fr, [] =>
    let w := if f == [3, 0, 0, 0] then some "hb" else if f == [2, 0, 0, 0] then some "ack" else if f == [5, 0, 0, 0] then some "ot" else none
    match w with
    | some w => (framedToks fr []).map (w :: ·)
    | none => none

/-- `GetNextMessage` over the byte stream of the op, cut as the client sent it; the Bool: the reader itself ends the session
(FIN or a framing error); `false` only for a passive client (`passive=1`: no half-close) whose stream leaves the reader parked in Read -/
def tcpFramed (ws : List String) (pks : List String) : Option (List String × Bool) :=
  let passive := kv ws "passive" == some "1"
  match kv ws "lens" with
  | none => some (pks, !passive)           -- the op without stream description: one packet per message
  | some lv =>
    let lens := if lv == "" then [] else (lv.splitOn ",").filterMap String.toNat?
    if lens.length != pks.length then none else
    let pkts := (pks.zip lens).map fun p => (p.1, Framing.encode (typOfTok p.1) (List.replicate p.2 0))
    let tail := ((kv ws "tail").bind bytesOfHex).getD []
    let bytes := (pkts.map (·.2)).flatten ++ tail
    let cuts := match kv ws "cut" with
      | some v => (v.splitOn ",").filterMap String.toNat?
      | none => []
    if passive then
      let r := Framing.framesOpen (pks.length + 8) (Framing.cutAt bytes 0 cuts)
      (framedToks r.1 pkts).map fun t => (t, r.2 == .err)
    else (framedToks (Framing.framesOf (pks.length + 8) (Framing.cutAt bytes 0 cuts)).1 pkts).map fun t => (t, true)

/-- one whole connection: the framed messages one by one, then what ends it: the read error / EOF of the stream
(`readerEnds`), or — the client stays passive and the reader is parked in Read — the owner kicks the session once it has
run everything queued (`rel`: the socket was closed, the peer's further bytes are answered by a reset) -/
def connScript (pks : List String) (readerEnds : Bool := true) (passive : Bool := false) : String :=
  let d0 : D := {}
  let d := (stepCore d0 "open c=1").1
  let d := pks.foldl (fun d pk => (stepCore (stepCore d s!"in c=1 it=f:{pk}").1 "rd c=1").1) d
  let d := if readerEnds then (stepCore (stepCore d "in c=1 it=err").1 "rd c=1").1
           else (stepCore (stepCore d "drain").1 "okick c=1").1
  let d := endCase d
  match findConn d 1 with
  | some c =>
    s!"ev={String.join ((evShown c.s.posted).map showEv)},ow={String.join (c.ow.map showOwNoId)},eof={c.s.connCloses},g={goroutines d},pl=" ++
      (if passive then s!",rel={c.s.connCloses}" else "")
  | none => "bad-op"

def pksOf (ws : List String) : List String :=
  match kv ws "pk" with
  | some v => if v == "" then [] else v.splitOn ","
  | none => []

/-- tcp script: TCP framing of the stream, then the session -/
def tcpScript (ws : List String) : String :=
  match tcpFramed ws (pksOf ws) with
  | none => "bad-op"
  | some (pks, readerEnds) => connScript pks readerEnds (kv ws "passive" == some "1")

/-- the messages of a result list up to the first error -/
def msgsUntilErr : List Framing.Next → List (List Nat)
  | .msg b :: r => b :: msgsUntilErr r
  | _ => []

/-- websocket script: one packet per message (`glue=1`: the last two packets in one message), a message with the tail bytes;
`WSConn.GetNextMessage` on each (body bytes abstracted to a nominal length), then the session -/
def wscScript (ws : List String) : String :=
  let pks := pksOf ws
  let nominal (w : String) : Nat := if w.startsWith "hs" then 10 else if w == "ack" || w == "hb" || w == "ot" then 0 else 7
  let pkts := pks.map fun w => (w, Framing.encode (typOfTok w) (List.replicate (nominal w) 0))
  let glue := kv ws "glue" == some "1"
  if glue && pkts.length < 2 then "bad-op" else
  let bodies := pkts.map (·.2)
  let msgs := if glue then bodies.take (bodies.length - 2) ++ [(bodies.drop (bodies.length - 2)).flatten] else bodies
  let tail := ((kv ws "tail").bind bytesOfHex).getD []
  let msgs := if tail.isEmpty then msgs else msgs ++ [tail]
  match framedToks (msgsUntilErr (msgs.map Framing.wsNext)) pkts with
  | none => "bad-op"
  | some toks => connScript toks

/-- `n` sessions, each ended by several independent close causes at once, two pushers running beside them: whatever the
interleaving (close_once, every_ending_closes; statement level: close_statement_level_once) every session is removed once, its
conn closed once, nothing panics (push_racing_close_never_enqueues: a racing push is accepted or recovered), every goroutine
returns; no Close() returns before the session is completely closed (close_returned_means_closed: `early`), a push after that
is refused (`latepush`) -/
def raceObs (n : Nat) : String := s!"n={n},creates={n},removed1={n},closed1={n},thrown=0,left=0,early=0,latepush=0"

def step (d : D) (line : String) : D × String :=
  let ws := words line
  if ws.head? == some "reset-tcp" then ({}, tcpScript ws)
  else if ws.head? == some "reset-wsc" then ({}, wscScript ws)
  else if ws.head? == some "reset-race" then ({}, raceObs ((kvNat ws "n").getD 0))
  else if ws.head? == some "reset-burst" then ({}, burstObs ((kvNat ws "n").getD 0))
  -- acceptor smoke cases: every accepted connection is handed over; closing a websocket session whose writer is stalled works
  else if ws.head? == some "reset-accept" then ({}, s!"handed={(kvNat ws "n").getD 0},of={(kvNat ws "n").getD 0}")
  else if ws.head? == some "reset-ws" then ({}, "close_returned=1,creates=1,closes=1,peer_end=1")
  else if ws.head? == some "arm" then
    -- the op is only recorded (the harness flushes its trace here); `go` runs it
    ({ d with armed := some (" ".intercalate (ws.drop 1)) }, "ok")
  else if ws.head? == some "go" || (ws.head?.getD "").startsWith "<harness-exit" then
    -- (a replayed `<harness-exit …>` line stands for the `go` that killed the recorded run)
    match d.armed with
    | some op => stepCore { d with armed := none } op
    | none => (d, "none")
  else stepCore d line

/-! ### property predicate on implementation observations -/

structure SpConn where
  k : Nat
  sent : List Nat := []      -- message ids handed to the reader, in order
  lastGrant : Nat := 0       -- virtual time of the latest reader grant (the heartbeat stamp is never later)
  cbp : String := ""         -- scripted panicking close callbacks
  oa : String := ""          -- what the owner's handler does from inside OnSessionAdd (k = kick, p = push)
  filled : Bool := false     -- its send queue was filled up: the heartbeat goroutine may be parked in its send
  pend : List Nat := []      -- message ids of the frame the reader holds that must all be posted if nothing closes the session first
  must : List Nat := []      -- message ids that must have been posted (lower bound of the message clause)

structure Sp where
  conns : List SpConn := []
  now : Nat := 0
  armed : Option String := none
  prev : List (Nat × Option Nat × Nat) := []   -- per connection after the previous op: (connection, its session id if added, pushes received)
  prevLive : List Nat := []                     -- ids registered at the owner after the previous op
  kh : Bool := false                            -- a custom kick handler is set: a kick request closes nothing until its DoKick
  deriving Inhabited

/-- split `A`, `M123`, `R` / `a2`, `m5`, `n5`, `r11` sequences: a token starts at a letter -/
def tokens (s : String) : List String :=
  let rec go (cs : List Char) (cur : List Char) (acc : List String) : List String :=
    match cs with
    | [] => if cur.isEmpty then acc.reverse else (String.ofList cur.reverse :: acc).reverse
    | c :: r =>
      if c.isAlpha then
        (if cur.isEmpty then go r [c] acc else go r [c] (String.ofList cur.reverse :: acc))
      else go r (c :: cur) acc
  go s.toList [] []

def numOf (t : String) : Nat := ((t.drop 1).toString.toNat?).getD 0

/-- `xs` is a subsequence of `ys` -/
def isSubseq : List Nat → List Nat → Bool
  | [], _ => true
  | _ :: _, [] => false
  | x :: xs, y :: ys => if x == y then isSubseq xs ys else isSubseq (x :: xs) ys

/-- fields of one connection record `cK:a=..,b=..` -/
def recFields (r : String) : Option (Nat × List String) :=
  match r.splitOn ":" with
  | kname :: rest =>
    if kname.startsWith "c" then
      ((kname.drop 1).toString.toNat?).map (fun k => (k, (":".intercalate rest).splitOn ","))
    else none
  | _ => none

def checkConn (sp : Sp) (atEnd : Bool) (drained : Bool) (k : Nat) (fs : List String) (allOw : List (Nat × List String)) : Option String :=
  let ev := tokens ((kv fs "ev").getD "")
  let ow := tokens ((kv fs "ow").getD "")
  let cc := (kvNat fs "cc").getD 0
  let rd := (kv fs "rd").getD ""
  let sent := ((sp.conns.find? (·.k == k)).map (·.sent)).getD []
  let lastGrant := ((sp.conns.find? (·.k == k)).map (·.lastGrant)).getD 0
  let wantR := rTok (((sp.conns.find? (·.k == k)).map (·.cbp)).getD "")
  let filled := ((sp.conns.find? (·.k == k)).map (·.filled)).getD false
  let st := (kvNat fs "st").getD 0
  let nA := (ev.filter (· == "A")).length
  let nR := (ev.filter (· == "R")).length
  let evM := (ev.filter (·.startsWith "M")).map numOf
  let na := (ow.filter (·.startsWith "a")).length
  let nr := (ow.filter (·.startsWith "r")).length
  let owM := (ow.filter (·.startsWith "m")).map numOf
  let afterR := ((ow.dropWhile (fun t => !t.startsWith "r")).drop 1)
  let tb := ((kv fs "tb").getD "").toList
  let oa := ((sp.conns.find? (·.k == k)).map (·.oa)).getD ""
  let np := (kvNat fs "np").getD 0
  if nA != 1 || ev.head? != some "A" then some s!"C05/session-add-missing-or-twice connection {k}: {nA} OnSessionCreate calls ({ev})"
  else if na > 1 || (na == 1 && !(ow.head?.getD "").startsWith "a") then some s!"C05/session-add-missing-or-twice connection {k}: owner saw {ow}"
  else if nR > 1 then some s!"C05/session-remove-twice connection {k}: OnSessionClose called {nR} times"
  else if nr > 1 then some s!"C05/session-remove-twice connection {k}: owner saw {ow}"
  else if cc ≥ 1 && nR == 0 then some s!"C05/no-session-remove connection {k}: conn.Close() was called but OnSessionClose never was"
  else if cc > 1 || cc != nR then some s!"C05/conn-close-count connection {k}: conn.Close called {cc} times, OnSessionClose {nR} times"
  else if ow.any (·.startsWith "p") then
    some s!"C05/message-content connection {k}: the owner's handler was handed message(s) {(ow.filter (·.startsWith "p")).map numOf} with a route/payload other than the one that arrived under that id (arrived {sent}; owner saw {ow})"
  else if ow.any (·.startsWith "n") then some s!"C05/message-after-remove connection {k}: handler invoked without a session: {ow}"
  else if afterR.any (fun t => t.startsWith "m" || t.startsWith "n") then some s!"C05/message-after-remove connection {k}: {ow}"
  else if na == 0 && (owM.length > 0 || nr > 0) then some s!"C05/session-add-missing-or-twice connection {k}: owner saw {ow} without an add"
  else if na == 1 && tb.head? != some '1' then
    some s!"C05/added-session-not-live connection {k}: the handler was told of the new session ({ow.head?.getD ""}) but from inside OnSessionAdd the owner's table holds no such session under that id (kicks, pushes and lookups at that moment miss it)"
  else if nr == 1 && tb.drop 1 != ['0'] then
    some s!"C05/removed-session-still-live connection {k}: from inside OnSessionRemove the id is still registered at the owner (tb={String.ofList tb})"
  else if na == 1 && oa == "k" && !sp.kh && nR == 0 then
    some s!"C05/kick-ignored connection {k}: the handler kicked the session from inside OnSessionAdd ({ow.head?.getD ""}); the session was not closed (status {st}, no OnSessionClose)"
  else if na == 1 && oa == "p" && !filled && np == 0 then
    some s!"C05/push-delivery connection {k}: the handler pushed to the id of the session it was just told of ({ow.head?.getD ""}) from inside OnSessionAdd: the push reached nobody"
  else if !isSubseq (((sp.conns.find? (·.k == k)).map (·.must)).getD []) evM then
    some s!"C05/message-lost connection {k}: {((sp.conns.find? (·.k == k)).map (·.must)).getD []} arrived in frames of decodable data on the Working session and the reader was back for more before anything closed the session; posted {evM}"
  else if !isSubseq evM sent then some s!"C05/message-order connection {k}: posted {evM}, arrived {sent}"
  else if !isSubseq owM evM then some s!"C05/message-order connection {k}: owner saw {owM}, posted {evM}"
  else if drained && (na != 1 || owM != evM) then
    some s!"C05/message-order connection {k}: after the owner ran everything queued it has seen {ow}; posted (up to the remove): {ev}"
  else if drained && nR == 1 && nr != 1 then
    some s!"C05/no-session-remove connection {k}: after the owner ran everything queued it has not seen the remove: {ow}"
  else if ow.any (fun t => t.startsWith "r" && t != wantR) then some s!"C05/close-callback-count connection {k}: {ow}, expected {wantR} (handler close callback, then the sessions' close callback, each once; a panicking handler callback ends the removal)"
  else if st == 4 && nR == 0 then some s!"C05/no-session-remove connection {k}: status Closed but OnSessionClose was never called"
  else if st == 3 && nR == 0 && !filled && sp.now ≥ lastGrant + 30000 then
    some s!"C05/no-session-remove connection {k}: Working and silent since {lastGrant} ms, now {sp.now} ms: the heartbeat did not end it"
  else if rd == "x" && nR == 0 then some s!"C05/no-session-remove connection {k}: the read goroutine has ended but OnSessionClose was never called"
  else if atEnd && (nR != 1 || cc != 1 || nr != 1) then some s!"C05/no-session-remove connection {k}: after the end of the connection ev={ev} cc={cc} ow={ow}"
  else
    -- id unique among live sessions: no other connection with the same id whose owner log has no remove
    let myId := (ow.find? (·.startsWith "a")).map numOf
    match myId with
    | some 0 => some s!"C05/live-id-collision connection {k} got session id 0"
    | some id =>
      let clash := allOw.any fun p => p.1 != k &&
        ((p.2.find? (·.startsWith "a")).map numOf == some id) && nr == 0 && !(p.2.any (·.startsWith "r"))
      if clash then some s!"C05/live-id-collision connection {k}: id {id} is also the id of another live session" else none
    | none => none

/-- messages the owner MUST see on a real-socket connection that nothing but the client ends: after a completed
handshake (`hs1`, `ack`) every decodable data packet up to the first malformed packet / renewed handshake -/
def mustDeliver (pks : List String) : List Nat :=
  let rec go : List String → List Nat
    | [] => []
    | w :: r =>
      if w.startsWith "d" || w.startsWith "b" then numOf w :: go r
      else if w == "hb" || w == "ot" || w == "ack" then go r
      else []
  match pks with
  | "hs1" :: "ack" :: r => go r
  | _ => []

/-- the property on one whole real-socket connection (tcp smoke engine) -/
def specTcp (ws : List String) (obs : String) : String :=
  let fs := obs.splitOn ","
  let ev := tokens ((kv fs "ev").getD "")
  let ow := tokens ((kv fs "ow").getD "")
  let sent := match kv ws "pk" with
    | some v => midsOfPkts ((v.splitOn ",").filterMap parsePkt)
    | none => []
  -- websocket, glue=1: the last two packets share a message, which is rejected: they need not be delivered
  let pkToks := ((kv ws "pk").getD "").splitOn ","
  let pkToks := if kv ws "glue" == some "1" then pkToks.take (pkToks.length - 2) else pkToks
  let evM := (ev.filter (·.startsWith "M")).map numOf
  let owM := (ow.filter (·.startsWith "m")).map numOf
  if (ev.filter (· == "A")).length != 1 || ev.head? != some "A" then s!"VIOLATION C05/session-add-missing-or-twice tcp connection: {ev}"
  else if (ev.filter (· == "R")).length > 1 || (ow.filter (·.startsWith "r")).length > 1 then s!"VIOLATION C05/session-remove-twice tcp connection: {ev} {ow}"
  else if ev.getLast? != some "R" then s!"VIOLATION C05/no-session-remove tcp connection ended (client closed / malformed input) but OnSessionClose was never called: {ev}"
  else if ow.any (·.startsWith "n") then s!"VIOLATION C05/message-after-remove tcp connection: {ow}"
  else if !isSubseq (mustDeliver pkToks) owM then
    s!"VIOLATION C05/message-lost tcp connection: the client sent {mustDeliver pkToks} complete and in order after the handshake (stream pieces cut at [{(kv ws "cut").getD ""}]), the owner saw {ow}"
  else if ow != ["a"] ++ (owM.map fun m => s!"m{m}") ++ ["r11"] then s!"VIOLATION C05/owner-sequence tcp connection: owner saw {ow}"
  else if !isSubseq evM sent || owM != evM then s!"VIOLATION C05/message-order tcp connection: arrived {sent}, posted {evM}, owner saw {owM}"
  else if (kv fs "pl").getD "" != "" then
    s!"VIOLATION C05/message-content tcp connection{if kv ws "lag" == some "1" then " whose owner was busy while the client's packets arrived" else ""}: the client sent {sent}; when the owner handled message(s) {(kv fs "pl").getD ""} the payload was not the one sent under that id (it must be the connection's own message, unchanged, whatever the reader received meanwhile)"
  else if kv fs "eof" != some "1" then "VIOLATION C05/socket-not-closed tcp connection: the server never closed the socket"
  else if kv fs "g" != some "0" then s!"VIOLATION C05/goroutine-leak tcp connection{if kv ws "passive" == some "1" then " ended by the server while the client keeps its side open and silent" else ""}: goroutines left: {(kv fs "g").getD "?"}"
  else if kv ws "passive" == some "1" && kv fs "rel" != some "1" then
    "VIOLATION C05/socket-not-closed tcp connection ended by the server (kick / malformed input) while the client keeps its side open: after the removal the server's socket still takes the client's bytes (never answered by a reset)"
  else "ok"

/-- accept burst: every connection served by exactly one session, added once, removed once, closed once -/
def specBurst (ws : List String) (obs : String) : String :=
  let fs := obs.splitOn ","
  let n := (kvNat ws "n").getD 0
  if kvNat fs "served1" != some n || kvNat fs "adds" != some n then
    s!"VIOLATION C05/session-add-missing-or-twice accept burst of {n} connections: {obs} (every connection must be served by exactly one session)"
  else if kvNat fs "removes" != some n then s!"VIOLATION C05/no-session-remove accept burst of {n} connections: {obs}"
  else if kvNat fs "closes" != some n then s!"VIOLATION C05/conn-close-count accept burst of {n} connections: {obs}"
  else "ok"

/-- simultaneous independent close causes on `n` fresh sessions -/
def specRace (ws : List String) (obs : String) : String :=
  let fs := obs.splitOn ","
  let n := (kvNat ws "n").getD 0
  let what := s!"{n} sessions, each closed by {(kvNat ws "k").getD 0} Close() calls + client EOF + write failure at the same instant, 2 pushers beside them ({if kv ws "hold" == some "1" then "arriving while Close is running" else "released together"})"
  if kvNat fs "thrown" != some 0 then s!"VIOLATION C05/close-panic {what}: Close() panicked: {obs}"
  else if kvNat fs "creates" != some n then s!"VIOLATION C05/session-add-missing-or-twice {what}: {obs}"
  else if kvNat fs "removed1" != some n then s!"VIOLATION C05/session-remove-twice {what}: not every session got exactly one OnSessionClose: {obs}"
  else if kvNat fs "closed1" != some n then s!"VIOLATION C05/conn-close-count {what}: not every conn was closed exactly once: {obs}"
  else if kvNat fs "left" != some 0 then s!"VIOLATION C05/goroutine-leak {what}: {obs}"
  else if (kvNat fs "early").getD 0 != 0 then s!"VIOLATION C05/no-session-remove {what}: a Close() call returned while the session was not completely closed (conn.Close and OnSessionClose each exactly once by then): {obs}"
  else if (kvNat fs "latepush").getD 0 != 0 then s!"VIOLATION C05/push-after-close {what}: a push made after every Close() had returned was accepted: {obs}"
  else "ok"

def specStep (sp : Sp) (line : String) : Sp × String :=
  -- the observation is everything after the first tab (a crash dump contains tabs)
  match (match line.splitOn "\t" with
         | op :: o :: rest => [op, "\t".intercalate (o :: rest)]
         | l => l) with
  | [op, obs] =>
    let ws := words op
    if (obs.splitOn "panic").length > 1 || obs.startsWith "<no-observation" then (sp, "VIOLATION C05/crash " ++ op ++ " -> " ++ obs) else
    if ws.head? == some "reset-tcp" || ws.head? == some "reset-wsc" then ({}, if obs == "bad-op" then "ok" else specTcp ws obs) else
    if ws.head? == some "reset-burst" then ({}, if obs == "bad-op" then "ok" else specBurst ws obs) else
    if ws.head? == some "reset-race" then ({}, if obs == "bad-op" then "ok" else specRace ws obs) else
    if ws.head? == some "reset-accept" then
      let fs := obs.splitOn ","
      ({}, if obs == "bad-op" || kvNat fs "handed" == kvNat ws "n" then "ok"
           else s!"VIOLATION C05/accepted-connection-dropped {(kvNat ws "n").getD 0} clients connected while nobody consumed the acceptor's channel; then: {obs} (an accepted connection must reach a session or be closed)") else
    if ws.head? == some "reset-ws" then
      let fs := obs.splitOn ","
      ({}, if kv fs "close_returned" != some "1" then s!"VIOLATION C05/no-session-remove websocket session with a stalled writer: Close did not return: {obs}"
           else if kv fs "creates" != some "1" then s!"VIOLATION C05/session-add-missing-or-twice websocket session: {obs}"
           else if kv fs "closes" != some "1" then s!"VIOLATION C05/no-session-remove websocket session with a stalled writer: {obs}"
           else if kv fs "peer_end" != some "1" then s!"VIOLATION C05/socket-not-closed websocket session with a stalled writer: {obs}"
           else "ok") else
    if ws.head? == some "arm" then ({ sp with armed := some (" ".intercalate (ws.drop 1)) }, "ok") else
    -- `go` is judged as the op it runs
    let isGo := ws.head? == some "go" || (ws.head?.getD "").startsWith "<harness-exit"
    let ws := if isGo then (match sp.armed with | some a => words a | none => ws) else ws
    let sp := if isGo then { sp with armed := none } else sp
    let sp : Sp := match ws.head? with
      | some "reset" => { kh := kv ws "kh" == some "1" }
      | some "open" => { sp with conns := sp.conns ++ [{ k := (kvNat ws "c").getD 0, lastGrant := sp.now, cbp := (kv ws "cbp").getD "", oa := (kv ws "oa").getD "" }] }
      | some "fill" =>
        if obs == "none" then sp else
        let k := (kvNat ws "c").getD 0
        { sp with conns := sp.conns.map fun c => if c.k == k then { c with filled := true } else c }
      | some "in" =>
        if obs == "none" then sp else
        let k := (kvNat ws "c").getD 0
        let mids := match (kv ws "it").bind parseItem with
          | some it => midsOfItem it
          | none => []
        { sp with conns := sp.conns.map fun c => if c.k == k then { c with sent := c.sent ++ mids } else c }
      | some "rd" | some "rds" =>
        if obs == "none" then sp else
        let k := (kvNat ws "c").getD 0
        { sp with conns := sp.conns.map fun c => if c.k == k then { c with lastGrant := sp.now } else c }
      | some "adv" => { sp with now := sp.now + (kvNat ws "dt").getD 0 }
      | _ => sp
    if obs == "none" || obs == "ok" || obs == "bad-op" then (sp, "ok") else
    match obs.splitOn " | " with
    | [recs, tail] =>
      let rs := (recs.splitOn ";").filterMap recFields
      let allOw := rs.map fun p => (p.1, tokens ((kv p.2 "ow").getD ""))
      let atEnd := ws.head? == some "end"
      let tws := words tail
      -- goroutines: 3 per connection that was not closed; a closed one keeps at most its reader, parked at a gate
      let expectG := rs.foldl (fun a p =>
        let closedC := (tokens ((kv p.2 "ev").getD "")).any (· == "R")
        let rd := (kv p.2 "rd").getD ""
        a + (if !closedC then 3 else if rd == "h" || rd == "m" then 1 else 0)) 0
      let g := (kvNat tws "g").getD 0
      let wrFail := ws.head? == some "wr" && kv ws "ok" == some "0"
      let kOp := (kvNat ws "c").getD 0
      let liveIds := ((kv tws "live").getD "").splitOn "," |>.filterMap String.toNat?
      let stale := allOw.find? fun p => p.2.any (·.startsWith "r") &&
        (match (p.2.find? (·.startsWith "a")).map numOf with | some id => liveIds.contains id | none => false) &&
        !(allOw.any fun q => q.1 != p.1 && !(q.2.any (·.startsWith "r")) && (q.2.find? (·.startsWith "a")).map numOf == (p.2.find? (·.startsWith "a")).map numOf)
      -- pushes through the owner: every id of the push that is registered gets it once per occurrence, nobody else gets anything
      let cur : List (Nat × Option Nat × Nat) := rs.map fun p =>
        (p.1, ((tokens ((kv p.2 "ow").getD "")).find? (·.startsWith "a")).map numOf, (kvNat p.2 "np").getD 0)
      let idOf (k : Nat) : Option Nat := (sp.prev.find? (·.1 == k)).bind (·.2.1)
      let pushedIds : Option (List (Option Nat)) :=
        if ws.head? == some "push" then some [idOf kOp]
        else if ws.head? == some "mpush" then
          some (((kv ws "ids").getD "").splitOn "," |>.map fun w =>
            if w.startsWith "c" then ((w.drop 1).toString.toNat?).bind idOf else none)
        else none
      let pushBad : Option String := pushedIds.bind fun ids =>
        cur.findSome? fun (k, _, np) =>
          let old := (sp.prev.find? (·.1 == k))
          let oldNp := (old.map (·.2.2)).getD 0
          let want := match old.bind (·.2.1) with
            | some id => if sp.prevLive.contains id then (ids.filter (· == some id)).length else 0
            | none => 0
          if np == oldNp + want then none
          else some s!"C05/push-delivery connection {k}: {op}: the owner handed it {np - oldNp} pushes, {want} expected (registered ids of the push get it once each, whatever else is in the id list)"
      -- kick requests: `okick` without a kick handler, and the kick handler's `dokick` (the id it used is in the observation):
      -- an id that was registered for a connection whose removal the owner had not seen must have that session closed now
      let kickedId : Option Nat :=
        if ws.head? == some "okick" && !sp.kh then idOf kOp
        else if ws.head? == some "dokick" then kvNat tws "kid"
        else none
      let kickBad : Option String := kickedId.bind fun id =>
        if !sp.prevLive.contains id then none else
        sp.prev.findSome? fun (k, pid, _) =>
          if pid != some id then none else
          match rs.find? (fun q => q.1 == k) with
          | none => none
          | some q =>
            let owq := tokens ((kv q.2 "ow").getD "")
            let evq := tokens ((kv q.2 "ev").getD "")
            if sp.prev.any (fun p => p.1 != k && p.2.1 == some id) then none   -- the id was given out twice (wrap): not judged
            else if evq.any (· == "R") then none
            else some s!"C05/kick-ignored connection {k}: {op}: id {id} was registered at the owner for this live session; the kick did not close it (no OnSessionClose; owner log {owq})"
      let sp := { sp with prev := cur, prevLive := liveIds }
      -- lower bound: a frame of packets that neither end the loop nor leave Working (decodable data, hb, ack, kick packet),
      -- handed to the reader of a Working session; when the reader is back waiting and nothing has closed the session
      -- meanwhile, every message of it must have been posted
      let benignTok (w : String) : Bool := w.startsWith "d" || w.startsWith "b" || w == "hb" || w == "ot" || w == "ack"
      let inFrame : Option (List Nat) :=
        if ws.head? == some "in" then
          match kv ws "it" with
          | some v => if v.startsWith "f:" && (v.drop 2).toString != "" && (((v.drop 2).toString.splitOn ",").all benignTok) then
              some ((((v.drop 2).toString.splitOn ",").filter (fun w => w.startsWith "d" || w.startsWith "b")).map numOf) else none
          | none => none
        else none
      let upd (c : SpConn) : SpConn :=
        match rs.find? (fun q => q.1 == c.k) with
        | none => c
        | some p =>
          let hasR := (tokens ((kv p.2 "ev").getD "")).any (· == "R")
          let rd := (kv p.2 "rd").getD ""
          let c := match inFrame with
            | some mids => if c.k == kOp && kvNat p.2 "st" == some 3 && !hasR && rd == "h" then { c with pend := mids } else c
            | none => c
          if c.pend.isEmpty then c
          else if hasR || rd == "x" then { c with pend := [] }
          else if rd == "w" then { c with must := c.must ++ c.pend, pend := [] }
          else c
      let sp := { sp with conns := sp.conns.map upd }
      match rs.findSome? (fun p => checkConn sp atEnd (atEnd || ws.head? == some "drain") p.1 p.2 allOw) with
      | some v => (sp, "VIOLATION " ++ v)
      | none =>
        if let some v := pushBad then (sp, "VIOLATION " ++ v)
        else if let some v := kickBad then (sp, "VIOLATION " ++ v)
        else if let some p := stale then
          (sp, s!"VIOLATION C05/removed-session-still-live connection {p.1}: the owner saw its session-removed but the session is still registered: live={(kv tws "live").getD ""}")
        else if wrFail && rs.any (fun p => p.1 == kOp && !(tokens ((kv p.2 "ev").getD "")).any (· == "R")) then
          (sp, s!"VIOLATION C05/no-session-remove connection {kOp}: a failed write did not end the session")
        else if g < expectG then
          (sp, s!"VIOLATION C05/no-session-remove a goroutine of a connection that was never closed has ended ({g} alive, {expectG} expected)")
        else if g > expectG then
          (sp, s!"VIOLATION C05/goroutine-leak {g} goroutines alive, {expectG} expected (3 per open connection, a closed one only its parked reader)")
        else
        if atEnd && (kvNat tws "g").getD 0 != 0 then
          (sp, s!"VIOLATION C05/goroutine-leak {(kvNat tws "g").getD 0} goroutines of the case are still alive after every connection was closed")
        else if atEnd && (kv tws "live").getD "" != "" then
          (sp, s!"VIOLATION C05/removed-session-still-live sessions still registered at the owner after every connection ended: live={(kv tws "live").getD ""}")
        else (sp, "ok")
    | _ => (sp, "ok")
  | _ => (sp, "bad-line")

end Cell2v.Driver.C05

open Cell2v.Driver in
def main (args : List String) : IO Unit :=
  match args with
  | ["spec"] => runLoop Cell2v.Driver.C05.specStep {}
  | _ => runLoop Cell2v.Driver.C05.step {}
