import Cell2v.Driver.Util
import Cell2v.Model.Loop
/-!
Model driver for C04 (dynamic half).

`modeld_c04 model` : op line in → the canonical observation of a service whose
code runs on ONE goroutine, one piece at a time: every entry-point kind that
the burst exercises is reported with its exact number of entries, goroutine set
`1` and in-flight maximum `1` (what `Props.C04.handlers_serial` /
`handlers_only_on_consumer` say about the loop model).

`modeld_c04 spec` : `op<TAB>observation` in → `ok` or `VIOLATION <signature> …`:
the monitor predicate `Loop.Mon.ok` (peak ≤ 1, no foreign thread) evaluated on
what the implementation's own instrumentation recorded per entry kind.
-/
namespace Cell2v.Driver.C04
open Cell2v.Driver Cell2v.Loop

structure St where
  started : Bool := false
  /-- the two services with the empty run-service name exist (they outlive a `stop` of A) -/
  anon : Bool := false
  /-- the case's event centres are in queue mode (`localUseChan`) -/
  useChan : Bool := true
  /-- B was restarted by its supervisor in this case (a second `crash` is rejected) -/
  crashed : Bool := false

structure Burst where
  p : Nat
  post : Nat
  tmr : Nat
  rep : Nat
  lev : Nat
  gev : Nat
  req : Nat
  raw : Nat
  ntf : Nat
  tmo : Nat
  sfl : Nat
  ses : Nat
  msg : Nat
  slow : Nat
  z : Nat
  sib : Nat
  own : Nat
  dw : String

def fieldOk (ws : List String) (key : String) : Option Nat :=
  match kvNat ws key with
  | some n => if n ≤ 400 then some n else none
  | none => none

def parseBurst (ws : List String) : Option Burst := do
  let p ← fieldOk ws "p"
  let post ← fieldOk ws "post"
  let tmr ← fieldOk ws "tmr"
  let rep ← fieldOk ws "rep"
  let lev ← fieldOk ws "lev"
  let gev ← fieldOk ws "gev"
  let req ← fieldOk ws "req"
  let raw ← fieldOk ws "raw"
  let ntf ← fieldOk ws "ntf"
  let tmo ← fieldOk ws "tmo"
  let sfl ← fieldOk ws "sfl"
  let ses ← fieldOk ws "ses"
  let msg ← fieldOk ws "msg"
  let slow ← fieldOk ws "slow"
  let z ← fieldOk ws "z"
  let sib ← fieldOk ws "sib"
  let own ← fieldOk ws "own"
  let dw ← kv ws "dw"
  if !(["sleep", "yield", "spin", "mix"].contains dw) then none
  else if p < 1 || p > 16 || tmo > 1 || ses > 40 || msg > 40 || slow > 10 || sib > 12 || own > 1 then none
  else some { p, post, tmr, rep, lev, gev, req, raw, ntf, tmo, sfl, ses, msg, slow, z, sib, own, dw }

def b2n (b : Bool) : Nat := if b then 1 else 0

/-- `key=<1..6 decimal digits>` -/
def numKV (ws : List String) (key : String) : Option Nat :=
  match kv ws key with
  | some v => if v.length ≥ 1 && v.length ≤ 6 && v.toList.all Char.isDigit then v.toNat? else none
  | none => none

/-- entries per kind of one service, in the harness' fixed order; `front` = the service that owns the client sessions -/
def counts (useChan : Bool) (b : Burst) (front : Bool) : List (String × Nat) :=
  -- local events are published by the owner when asked to (`own`) and always for a centre in direct mode
  let ownLev := b.lev > 0 && (b.own == 1 || !useChan)
  let ownGev := b.gev > 0 && b.own == 1 && front
  [("post", b.post + b2n (b.tmr + b.rep + b.z > 0) + b2n (ownLev || ownGev) +
      b2n (b.req + b.raw + b.tmo + b.sfl > 0) + b2n (front && b.sib > 0)),
   ("tmr", b.tmr + b.rep), ("tz", 2 * b.z),
   ("lev", if useChan then b.lev else 0), ("dlev", if useChan then 0 else b.lev),
   -- global events reach a centre through its channel in both modes
   ("gev", b.gev), ("req", b.req), ("mute", b.tmo),
   ("raw", b.raw), ("ntf", b.ntf + 3 * b.slow), ("slow", b.slow), ("sib", if front then b.sib else 0),
   ("rsp", b.req + b.raw), ("tmo", b.tmo), ("sfl", b.sfl)] ++
  (if front then [("sadd", b.ses), ("smsg", b.ses * b.msg), ("srem", b.ses), ("sio", b.ses)] else [])

/-- the observation of a serial service: goroutine set {1}, at most 1 in flight -/
def showSvc (cs : List (String × Nat)) : String :=
  -- `sio` (the framework's uses of the connection object on the service's behalf): how many is not observed
  ",".intercalate ((cs.filter (·.2 > 0)).map fun c => if c.1 == "sio" then "sio=~/1/1" else s!"{c.1}={c.2}/1/1")

/-- `stop`: the stopping piece runs; how many of the queued closures still run is up to the loop's select ("~");
the k sessions were added before the stop; nothing runs after it (no `srem`).  The `tn` one-shot timers and the
repeating timer the piece armed become due on a STOPPED manager: what `TimerStop.run` leaves in `ran` for manager 0
(nothing: `Props.C04.stopped_mgr_runs_nothing`) is the number of `tmr` entries. -/
def stopOp (s : St) (ws : List String) (tn : Nat) : St × String :=
  match kv ws "who", kvNat ws "q", kvNat ws "ses" with
  | some who, some q, some k =>
    if !s.started || q > 400 || k > 40 || (who != "foreign" && who != "loop") then (s, "bad-op")
    else
      let armed := tn + b2n (tn > 2)
      let ops : List Cell2v.TimerStop.Op :=
        (List.range armed).map (fun c => .base (.arm 0 c)) ++ [.stopMgr 0] ++
        (List.range armed).flatMap (fun a => [.base (.expire a), .base (.doNext 0)])
      let ran := ((Cell2v.TimerStop.run {} ops).base.ran.filter (·.1 == 0)).length
      ({ s with started := false },
        "ok A:post=~/1/1" ++ (if ran > 0 then s!",tmr={ran}/1/1" else "") ++ (if k > 0 then s!",sadd={k}/1/1,sio=~/1/1" else "") ++ " B:")
  | _, _, _ => (s, "bad-op")

/-- the completion callbacks of a list of requests according to the loop model (`ReqDone.sched` run by `Loop.runL`):
how many ran and on which threads ("1" = the consumer only; `Props.C04.request_completion_on_loop`: always) -/
def relayDone (fs : List Cell2v.ReqDone.Fate) : Option (Nat × String) :=
  (runL 1 false init (Cell2v.ReqDone.sched 0 fs)).map fun st =>
    let starts := st.trace.filterMap fun e => match e with | .start w it => if it > 0 then some w else none | _ => none
    (starts.length, if starts.all (· == Thread.consumer) then "1" else "2")

def step (s : St) (line : String) : St × String :=
  let ws := words line
  match ws with
  | ["reset"] => ({ started := true, anon := true, useChan := true, crashed := false }, "ok A:post=1/1/1 B:post=1/1/1 U:post=1/1/1 V:post=1/1/1")
  | ["anon", _, _, _, _, _] =>
    match numKV ws "p", numKV ws "post", numKV ws "ses", numKV ws "msg", numKV ws "busy" with
    | some p, some post, some k, some m, some busy =>
      if !s.anon || p < 1 || p > 16 || post > 400 || k > 40 || m > 40 || busy > 1 then (s, "bad-op")
      else
        let sess := [("sadd", k), ("smsg", k * m), ("srem", k), ("sio", k)]
        (s, "ok U:" ++ showSvc ([("post", post + busy)] ++ sess) ++ " V:" ++ showSvc ([("post", post)] ++ sess))
    | _, _, _, _, _ => (s, "bad-op")
  | ["flood", _, _] =>
    match kv ws "who", numKV ws "n" with
    | some who, some n =>
      if !s.started || !s.useChan || n < 1 || n > 1500 || (who != "foreign" && who != "owner") || (who == "owner" && n > 900)
      then (s, "bad-op")
      else (s, "ok A:" ++ showSvc [("post", 1), ("lev", n)] ++ " B:")
    | _, _ => (s, "bad-op")
  | ["selfreq", _, _] =>
    match kv ws "how", numKV ws "n" with
    | some how, some n =>
      if !s.started || n < 1 || n > 200 || (how != "helper" && how != "sync") then (s, "bad-op")
      else (s, "ok A:" ++ showSvc [("post", 1), ("req", n), ("rsp", n)] ++ " B:")
    | _, _ => (s, "bad-op")
  | ["wfall", _, _, _, _] =>
    -- n waterfall.Sche chains of `steps` steps; step `fail` (0 = none) reports failure: the steps up to it run, then the final
    match numKV ws "n", numKV ws "steps", numKV ws "fail", kv ws "by" with
    | some n, some steps, some fail, some by_ =>
      if !s.started || n < 1 || n > 40 || steps < 1 || steps > 4 || fail > steps || (by_ != "loop" && by_ != "helper") then (s, "bad-op")
      else (s, "ok A:" ++ showSvc [("post", 1), ("wstep", n * (if fail > 0 then fail else steps)), ("wfin", n)] ++ " B:")
    | _, _, _, _ => (s, "bad-op")
  | ["talk", _, _] =>
    -- one connection, n messages back to back, optionally kicked by the service afterwards, then closed
    match numKV ws "n", numKV ws "kick" with
    | some n, some kick =>
      if !s.started || n < 1 || n > 3000 || kick > 1 then (s, "bad-op")
      else (s, "ok A:" ++ showSvc [("post", kick), ("sadd", 1), ("smsg", n), ("srem", 1), ("kick", kick), ("sio", 1)] ++ " B:")
    | _, _ => (s, "bad-op")
  | ["tcancel", _] =>
    -- A's n expired-then-cancelled timers never run; B's n timers run on B
    match numKV ws "n" with
    | some n =>
      if !s.started || n < 1 || n > 50 then (s, "bad-op")
      else (s, "ok A:" ++ showSvc [("post", 1)] ++ " B:" ++ showSvc [("post", 1), ("tmr", n)])
    | none => (s, "bad-op")
  | ["crash", _, _, _] =>
    -- B: the blocking piece, the panicking message, q notifies behind it, then post closures, tmr timers (armed by
    -- one more closure) and q more notifies for the new incarnation
    match numKV ws "q", numKV ws "post", numKV ws "tmr" with
    | some q, some post, some tmr =>
      if !s.started || s.crashed || q > 40 || post > 100 || tmr > 20 then (s, "bad-op")
      else ({ s with crashed := true },
        "ok A: B:" ++ showSvc [("post", 1 + post + b2n (tmr > 0)), ("tmr", tmr), ("ntf", 2 * q), ("boom", 1)])
    | _, _, _ => (s, "bad-op")
  | "burst" :: rest =>
    if ws.length != 19 || !s.started then (s, "bad-op")
    else match parseBurst rest with
      | none => (s, "bad-op")
      | some b => (s, "ok A:" ++ showSvc (counts s.useChan b true) ++ " B:" ++ showSvc (counts s.useChan b false))
  | ["evmode", m] =>
    if !s.started then (s, "bad-op")
    else if m == "chan=0" then ({ s with useChan := false }, "ok A:post=1/1/1 B:post=1/1/1")
    else if m == "chan=1" then ({ s with useChan := true }, "ok A:post=1/1/1 B:post=1/1/1")
    else (s, "bad-op")
  | ["stop", _, _, _] => stopOp s ws 0
  | ["stop", _, _, _, _] =>
    -- `tmr=n`: n one-shot timers (and a repeating one) of A become due on the stopped manager
    match numKV ws "tmr" with
    | some tn => if tn > 60 then (s, "bad-op") else stopOp s ws tn
    | none => (s, "bad-op")
  | ["relay", _, _, _] =>
    -- n requests of A through an intermediary actor on to B (`peer`), on to a pid that does not exist (`dead`),
    -- or straight to that pid (`direct`): answered by B, or completed by the 30 s timeout — on A's goroutine
    match kv ws "to", numKV ws "n", numKV ws "busy" with
    | some to, some n, some busy =>
      if !s.started || n < 1 || n > 40 || busy > 1 || (to != "dead" && to != "peer" && to != "direct") then (s, "bad-op")
      else
        -- what becomes of the n requests: answered by B's goroutine (1), dead letter on the intermediary's goroutine (2)
        -- resp. no answer at all, then the expiry scan enqueued by a timer goroutine (3)
        let fate : Cell2v.ReqDone.Fate := if to == "peer" then .answered 1 else if to == "dead" then .deadLetter 2 3 else .silent 3
        match relayDone ((List.range n).map fun _ => fate) with
        | none => (s, "bad-op")
        | some (done, gids) =>
          let kind := if to == "peer" then "rsp" else "tmo"
          (s, s!"ok A:post=1/1/1,{kind}={done}/{gids}/1 B:" ++ (if to == "peer" then showSvc [("req", n)] else ""))
    | _, _, _ => (s, "bad-op")
  | _ => (s, "bad-op")

/-! ### spec -/

/-- one `kind=count/gids/maxin` element → the monitor state it stands for -/
def parseElem (e : String) : Option (String × Mon) :=
  match e.splitOn "=" with
  | [kind, v] =>
    match v.splitOn "/" with
    | [c, g, m] =>
      match (if c == "~" then some 0 else c.toNat?), m.toNat? with
      | some _, some peak => some (kind, { cur := 0, peak := peak, foreign := g != "1" })
      | _, _ => none
    | _ => none
  | _ => none

def specLine (line : String) : String :=
  match line.splitOn "\t" with
  | [op, obs] =>
    let ws := words obs
    match ws with
    | "ok" :: svcs =>
      let elems : List (String × Option (String × Mon)) := svcs.flatMap fun t =>
        match t.splitOn ":" with
        | [svc, body] => if body.isEmpty then [] else (body.splitOn ",").map fun e => (svc ++ "." ++ e, parseElem e)
        | _ => [(t, none)]
      match elems.find? (fun e => e.2.isNone) with
      | some e => "VIOLATION C04/unreadable-entry-record " ++ e.1 ++ " in: " ++ op
      | none =>
        match elems.find? (fun e => match e.2 with | some (_, m) => m.foreign | none => false) with
        | some e => "VIOLATION C04/second-goroutine service code ran off the service's goroutine: " ++ e.1 ++ " after: " ++ op
        | none =>
          match elems.find? (fun e => match e.2 with | some (_, m) => !m.ok | none => false) with
          | some e => "VIOLATION C04/overlapping-handlers two pieces of one service's code in progress at once: " ++ e.1 ++ " after: " ++ op
          | none => "ok"
    | _ => "ok"
  | _ => "bad-line"

end Cell2v.Driver.C04

open Cell2v.Driver in
def main (args : List String) : IO Unit :=
  match args with
  | ["spec"] => runLoop (fun (_ : Unit) l => ((), Cell2v.Driver.C04.specLine l)) ()
  | _ => runLoop Cell2v.Driver.C04.step {}
