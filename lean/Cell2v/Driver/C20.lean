import Cell2v.Driver.Util
import Cell2v.Model.Space
/-!
Model driver for C20 (zoned spatial index).

Two op streams (a case starts with `reset`):
* exact stream — `reset kind=x bx= bz= ex= ez= step=`, `add|mov id= x= y= z=`, `del id=`,
  `q x= y= z= r=`; all numbers are (possibly negative) integers counting quarter
  units, small enough that float32 computes zone indices and the `dist > r` test
  exactly, so the model must reproduce the implementation's observation verbatim.
  `unit id= kind=<none|exit|test|camera|monster|avatar|gone> dead=<0|1>` (float stream: `funit`) tells the scene world
  about an id; `q`/`qn` with `fp=<id>` run the real `searchers.FindPlayers` owned by that id (model:
  `findPlayersValidate`).
  `q` may carry `own=<id>`: the searcher's `Validate` rejects that id (the owner, as
  `searchers.FindPlayers` does); without it the searcher accepts everything.
  Observation of a query: `z=<ids> b=<ids> s=<ids>` (sorted, duplicates kept): zoned result /
  result of the `SimpleSpace` that is handed only the adds of ids that are not live (reference of
  the zoned contract) / result of a second `SimpleSpace` that is handed EVERY op verbatim (its own
  contract: an add of a live id moves it).  All three come from the model of the respective Go code.
  `qn n=<n> x= y= z= r= [own=]` — a long-lived space: the same query `n` times in a row (1 ≤ n ≤ 200000) on
  each of the three spaces; observation = that of the first run, then ` n=<n> same=<k>` (k = number of runs
  whose three results equal the first; the model: `Space.searchRepeat`, always `n` — a query leaves nothing
  behind, `repeated_query_stable`) and, from the implementation only, ` at=<i> dz= db= ds=`: the first run that
  differed and what it reported.  The spec monitor judges that run like any other query.  `fqn` likewise in the
  float stream (` at= dz= ds=`).
* float stream — `reset kind=f …`, `fadd|fmov|fdel|fq|fqn` with float32 bit patterns.
  Not modelled (the theorems are about exact arithmetic); the observation carries the
  zoned result `z=`, the harness's brute-force scan `b=`, `SimpleSpace`'s result `s=` (same
  float arithmetic as the scan: must equal `b=` exactly), the ids whose distance is within
  2 ulp of the radius or non-finite `e=`, and `nf=1` when the query itself is non-finite.

`modeld_c20 model`  : op line in → observation out (float-stream ops → `-`).
`modeld_c20 accept` : `op\tobs` in → `ok` when the op is a float-stream op or the model's
                      observation equals `obs`, else `REJECT model=<obs>`  (the differential
                      correspondence check, restricted to the stream the model covers).
`modeld_c20 spec`   : `op\tobs` in → `ok` or `VIOLATION <signature> <why>`: the property
                      predicate itself — zoned result = brute-force scan of an independently
                      kept id ↦ position map (exact stream) / of the harness's scan (float
                      stream), no duplicates, no id that is not live.
-/
namespace Cell2v.Driver.C20
open Cell2v.Driver Cell2v.Space

def kvInt (ws : List String) (key : String) : Option Int := (kv ws key).bind String.toInt?

def showIds (l : List Nat) : String := ",".intercalate ((sortNat l).map toString)

def parseIds (s : String) : Option (List Nat) :=
  if s.isEmpty then some [] else (s.splitOn ",").mapM String.toNat?

def parsePos (ws : List String) : Option Pos := do
  let x ← kvInt ws "x"
  let y ← kvInt ws "y"
  let z ← kvInt ws "z"
  pure ⟨x, y, z⟩

/-- geometry of a `reset kind=x` line (`default` = the space made by `factory.CreateZoneSpace()`); `none` = rejected by the harness without calling `Init` -/
def parseGeo (ws : List String) : Option Geo :=
  if ws.contains "default" then some Geo.factory else do
  let bx ← kvInt ws "bx"
  let bz ← kvInt ws "bz"
  let ex ← kvInt ws "ex"
  let ez ← kvInt ws "ez"
  let st ← kvInt ws "step"
  if 0 < st ∧ bx ≤ ex ∧ bz ≤ ez then pure (Geo.init bx bz ex ez st) else none

def isFloatOp (ws : List String) : Bool :=
  match ws.head? with
  | some "fadd" | some "fmov" | some "fdel" | some "fq" | some "fqn" | some "funit" => true
  | some "reset" => kv ws "kind" == some "f"
  | _ => false

/-! ### mode `model` -/

/-- `none` = no exact-stream space (before the first reset, float case, rejected geometry) -/
structure MW where
  zone : Space
  fresh : Simple := {}   -- SimpleSpace handed only adds of ids that are not live
  all : Simple := {}     -- SimpleSpace handed every op verbatim
  units : World := []    -- the scene world `searchers.FindPlayers` looks candidates up in

abbrev MSt := Option MW

/-- the searcher's `Validate`: `fp=<id>` = the model of `searchers.FindPlayers` owned by that id; `own=<id>` = the
harness's own searcher that rejects just the owner; neither = accept everything -/
def validator (ws : List String) (units : World) : Nat → Bool :=
  match kvNat ws "fp", kvNat ws "own" with
  | some o, _ => findPlayersValidate units o
  | none, some o => fun id => id != o
  | none, none => fun _ => true

/-- `unit id= kind= dead=` -/
def parseUnit (ws : List String) : Option (Nat × UnitInfo) := do
  let id ← kvNat ws "id"
  let dead ← match kv ws "dead" with | some "0" => some false | some "1" => some true | _ => none
  let u : UnitInfo ← match kv ws "kind" with
    | some "none" => some { kind := 0, dead } | some "exit" => some { kind := 1, dead } | some "test" => some { kind := 2, dead }
    | some "camera" => some { kind := 3, dead } | some "monster" => some { kind := 4, dead } | some "avatar" => some { kind := 5, dead }
    | some "gone" => some { kind := 0, dead, gone := true }
    | _ => none
  pure (id, u)

/-- bound on the `n` of `qn` / `fqn` (the harness refuses more) -/
def maxRepeat : Nat := 200000

def modelStep (st : MSt) (line : String) : MSt × String :=
  let ws := words line
  if isFloatOp ws then ((if ws.head? == some "reset" then none else st), "-")
  else match ws.head? with
  | some "reset" =>
    match parseGeo ws with
    | some g => (some { zone := Space.init g }, "ok")
    | none => (none, "bad-geo")
  | some "add" =>
    match st, kvNat ws "id", parsePos ws with
    | some w, some id, some p =>
      let fresh := if (w.zone.find id).isSome then w.fresh else w.fresh.add id p
      (some { w with zone := w.zone.add id p, fresh := fresh, all := w.all.add id p }, "ok")
    | _, _, _ => (st, "bad-op")
  | some "mov" =>
    match st, kvNat ws "id", parsePos ws with
    | some w, some id, some p =>
      match w.zone.mov id p with
      | some z' => (some { w with zone := z', fresh := w.fresh.mov id p, all := w.all.mov id p }, "ok")
      | none => (st, "panic")
    | _, _, _ => (st, "bad-op")
  | some "del" =>
    match st, kvNat ws "id" with
    | some w, some id => (some { w with zone := w.zone.del id, fresh := w.fresh.del id, all := w.all.del id }, "ok")
    | _, _ => (st, "bad-op")
  | some "q" =>
    match st, parsePos ws, kvInt ws "r" with
    | some w, some p, some r =>
      if (kv ws "fp").isSome ∧ ((kv ws "own").isSome ∨ (kvNat ws "fp").isNone) then (st, "bad-op") else
      let v := validator ws w.units
      (st, s!"z={showIds (w.zone.searchV p r v)} b={showIds (w.fresh.searchV p r v)} s={showIds (w.all.searchV p r v)}")
    | _, _, _ => (st, "bad-op")
  | some "unit" =>
    match st, parseUnit ws with
    | some w, some (id, u) => (some { w with units := w.units.set id u }, "ok")
    | _, _ => (st, "bad-op")
  | some "qn" =>
    match st, parsePos ws, kvInt ws "r", kvNat ws "n" with
    | some w, some p, some r, some n =>
      if n < 1 ∨ n > maxRepeat then (st, "bad-op") else
      if (kv ws "fp").isSome ∧ ((kv ws "own").isSome ∨ (kvNat ws "fp").isNone) then (st, "bad-op") else
      let v := validator ws w.units
      let (z, kz) := w.zone.searchRepeat p r v n
      let (b, kb) := w.fresh.searchRepeat p r v n
      let (sv, ks) := w.all.searchRepeat p r v n
      (st, s!"z={showIds z} b={showIds b} s={showIds sv} n={n} same={min kz (min kb ks)}")
    | _, _, _, _ => (st, "bad-op")
  | _ => (st, "bad-op")

/-! ### mode `accept` -/

def acceptStep (st : MSt) (line : String) : MSt × String :=
  match line.splitOn "\t" with
  | [op, obs] =>
    let (st', m) := modelStep st op
    if isFloatOp (words op) then (st', "ok float-stream")
    else if m == obs then (st', "ok") else (st', "REJECT model=" ++ m)
  | _ => (st, "REJECT bad-line")

/-! ### mode `spec`: the property predicate on implementation observations -/

structure SSt where
  ref : Ref := []          -- exact stream: id ↦ current position, plain map semantics (zoned contract: add of a live id ignored)
  refS : Ref := []         -- exact stream: the same under SimpleSpace's contract (add = upsert)
  live : List Nat := []    -- float stream: ids added and not deleted since
  geoOk : Bool := false
  units : List (Nat × String × Bool) := []  -- both streams: id ↦ (kind, dead) as the `unit` ops said, latest first

def hasDup : List Nat → Bool
  | [] => false
  | a :: l => l.contains a || hasDup l

/-- ids in exactly one of the two lists -/
def symDiff (a b : List Nat) : List Nat :=
  (a.filter fun x => !b.contains x) ++ (b.filter fun x => !a.contains x)

def isPanic (obs : String) : Bool := (obs.splitOn "panic").length > 1 || obs.startsWith "<no-observation"

/-- what a query through `FindPlayers` may report, read off the property's side: another unit than the owner that the
world knows, alive, a player avatar (an id no `unit` op described is a live avatar) — written against the raw op
history, not against the model's `World` -/
def specValidator (st : SSt) (ws : List String) : Nat → Bool :=
  match kvNat ws "fp", kvNat ws "own" with
  | some o, _ => fun id =>
    id != o && (match st.units.find? (fun u => u.1 == id) with
                | some (_, kind, dead) => kind == "avatar" && !dead
                | none => true)
  | none, some o => fun id => id != o
  | none, none => fun _ => true

/-- the property predicate on one exact-stream query result (`none` = holds) -/
def judgeX (st : SSt) (ws : List String) (op : String) (p : Pos) (r : Int) (z b sv : List Nat) : Option String :=
  let v := specValidator st ws
  let want := sortNat ((st.ref.brute p r).filter v)
  let wantS := sortNat ((st.refS.brute p r).filter v)
  if hasDup z then some s!"VIOLATION C20/duplicate-report zoned={showIds z} {op}"
  else if z.any (fun id => !st.ref.has id) then
    some s!"VIOLATION C20/removed-entity-reported zoned={showIds z} live={showIds (st.ref.map (·.1))} {op}"
  else if sortNat z != want then
    some s!"VIOLATION C20/zoned-differs-from-bruteforce zoned={showIds z} within-range={showIds want} {op}"
  else if sortNat b != want then
    some s!"VIOLATION C20/simplespace-differs-from-scan simple={showIds b} within-range={showIds want} {op}"
  else if sortNat sv != wantS then
    some s!"VIOLATION C20/simplespace-differs-from-scan simple(every-add)={showIds sv} within-range={showIds wantS} {op}"
  else if (z ++ b ++ sv).any (fun id => !v id) then
    some s!"VIOLATION C20/rejected-candidate-reported zoned={showIds z} simple={showIds b},{showIds sv} {op}"
  else none

/-- the property predicate on one float-stream query result (`none` = holds or not judged) -/
def judgeF (st : SSt) (ws : List String) (op : String) (z b sv e : List Nat) (nf : Nat) : Option String :=
  let v := specValidator st ws
  if (z ++ sv).any (fun id => !v id) then
    some s!"VIOLATION C20/rejected-candidate-reported zoned={showIds z} simple={showIds sv} {op}"
  else if sortNat sv != sortNat b then
    some s!"VIOLATION C20/simplespace-differs-from-scan simple={showIds sv} scan={showIds b} {op}"
  else if hasDup z then some s!"VIOLATION C20/duplicate-report zoned={showIds z} {op}"
  else if z.any (fun id => !st.live.contains id) then
    some s!"VIOLATION C20/removed-entity-reported zoned={showIds z} live={showIds st.live} {op}"
  else if nf == 1 then none
  else
    let bad := (symDiff z b).filter fun id => !e.contains id
    if bad.isEmpty then none
    else some s!"VIOLATION C20/zoned-differs-from-bruteforce zoned={showIds z} bruteforce={showIds b} unexcused={showIds bad} {op}"

def specStep (st : SSt) (line : String) : SSt × String :=
  match line.splitOn "\t" with
  | [op, obs] =>
    let ws := words op
    let ows := words obs
    if isPanic obs then (st, "VIOLATION C20/index-panic " ++ op)
    else match ws.head? with
    | some "reset" => ({ ref := [], refS := [], live := [], geoOk := obs == "ok" }, "ok")
    | some "unit" | some "funit" =>
      match kvNat ws "id", kv ws "kind", kv ws "dead" with
      | some id, some kind, some dead => if obs == "ok" then ({ st with units := (id, kind, dead == "1") :: st.units }, "ok") else (st, "ok")
      | _, _, _ => (st, "ok")
    | some "add" =>
      match kvNat ws "id", parsePos ws with
      | some id, some p => ({ st with ref := st.ref.step (.add id p), refS := st.refS.stepS (.add id p) }, "ok")
      | _, _ => (st, "ok")
    | some "mov" =>
      match kvNat ws "id", parsePos ws with
      | some id, some p => ({ st with ref := st.ref.step (.mov id p), refS := st.refS.stepS (.mov id p) }, "ok")
      | _, _ => (st, "ok")
    | some "del" =>
      match kvNat ws "id" with
      | some id => ({ st with ref := st.ref.step (.del id), refS := st.refS.stepS (.del id) }, "ok")
      | none => (st, "ok")
    | some "q" =>
      if !st.geoOk then (st, "ok") else
      match parsePos ws, kvInt ws "r", (kv ows "z").bind parseIds, (kv ows "b").bind parseIds, (kv ows "s").bind parseIds with
      | some p, some r, some z, some b, some sv => (st, (judgeX st ws op p r z b sv).getD "ok")
      | _, _, _, _, _ => (st, "VIOLATION C20/unreadable-observation " ++ obs)
    | some "qn" =>
      -- a long-lived space: the first of the n runs and the first run that differed from it are both judged
      if !st.geoOk then (st, "ok") else
      match parsePos ws, kvInt ws "r", (kv ows "z").bind parseIds, (kv ows "b").bind parseIds, (kv ows "s").bind parseIds with
      | some p, some r, some z, some b, some sv =>
        match judgeX st ws op p r z b sv with
        | some bad => (st, bad)
        | none =>
          match kv ows "at" with
          | none => if kv ows "same" == kv ows "n" then (st, "ok") else (st, "VIOLATION C20/unreadable-observation " ++ obs)
          | some i =>
            match (kv ows "dz").bind parseIds, (kv ows "db").bind parseIds, (kv ows "ds").bind parseIds with
            | some z', some b', some sv' =>
              (st, (judgeX st ws (s!"repetition-no={i} " ++ op) p r z' b' sv').getD
                ("VIOLATION C20/unreadable-observation a differing repetition that is correct too: " ++ obs))
            | _, _, _ => (st, "VIOLATION C20/unreadable-observation " ++ obs)
      | _, _, _, _, _ => (st, "VIOLATION C20/unreadable-observation " ++ obs)
    | some "fadd" =>
      match kvNat ws "id" with
      | some id => ({ st with live := if st.live.contains id then st.live else id :: st.live }, "ok")
      | none => (st, "ok")
    | some "fdel" =>
      match kvNat ws "id" with
      | some id => ({ st with live := st.live.filter (· != id) }, "ok")
      | none => (st, "ok")
    | some "fmov" => (st, "ok")
    | some "fq" =>
      if !st.geoOk then (st, "ok") else
      match (kv ows "z").bind parseIds, (kv ows "b").bind parseIds, (kv ows "s").bind parseIds, (kv ows "e").bind parseIds, kvNat ows "nf" with
      | some z, some b, some sv, some e, some nf => (st, (judgeF st ws op z b sv e nf).getD (if nf == 1 then "ok non-finite-query" else "ok"))
      | _, _, _, _, _ => (st, "VIOLATION C20/unreadable-observation " ++ obs)
    | some "fqn" =>
      if !st.geoOk then (st, "ok") else
      match (kv ows "z").bind parseIds, (kv ows "b").bind parseIds, (kv ows "s").bind parseIds, (kv ows "e").bind parseIds, kvNat ows "nf" with
      | some z, some b, some sv, some e, some nf =>
        match judgeF st ws op z b sv e nf with
        | some bad => (st, bad)
        | none =>
          match kv ows "at" with
          | none => if kv ows "same" == kv ows "n" then (st, if nf == 1 then "ok non-finite-query" else "ok")
                    else (st, "VIOLATION C20/unreadable-observation " ++ obs)
          | some i =>
            match (kv ows "dz").bind parseIds, (kv ows "ds").bind parseIds with
            | some z', some sv' =>
              -- the scan `b=` and the excused ids `e=` depend on the positions only: they hold for every repetition
              (st, (judgeF st ws (s!"repetition-no={i} " ++ op) z' b sv' e nf).getD
                (if nf == 1 then "ok non-finite-query" else
                 if (symDiff z z').all (fun id => e.contains id) then "ok"
                 else "VIOLATION C20/unreadable-observation a differing repetition that is correct too: " ++ obs))
            | _, _ => (st, "VIOLATION C20/unreadable-observation " ++ obs)
      | _, _, _, _, _ => (st, "VIOLATION C20/unreadable-observation " ++ obs)
    | _ => (st, "ok")
  | _ => (st, "bad-line")

end Cell2v.Driver.C20

open Cell2v.Driver in
def main (args : List String) : IO Unit :=
  match args with
  | ["spec"] => runLoop Cell2v.Driver.C20.specStep {}
  | ["accept"] => runLoop Cell2v.Driver.C20.acceptStep none
  | _ => runLoop Cell2v.Driver.C20.modelStep none
