import Cell2v.Driver.Util
import Cell2v.Spec.C18
import Cell2v.Model.CenterRemote
/-!
Model driver for C18.  `modeld_c18 model`: one op line in, one observation out (the format of
`harness/c18/c18_test.go`).  `modeld_c18 spec`: lines `op\tobs` in, `ok` or
`VIOLATION <signature> <why>` out — the property monitor of `Spec/C18.lean` fed with what the
implementation did (operation, return value, acknowledgements); the white-box part of the
observation (record states) is not looked at.
-/
namespace Cell2v.Driver.C18
open Cell2v.Driver Cell2v.Center

def nAccts : Nat := 3
def uids : List Nat := [1, 2, 3]

def stateName : PState → String
  | .logining => "Logining" | .logined => "Logined" | .switchLine => "SwitchLine"
  | .logouting => "Logouting" | .waitRemove => "WaitRemove"

def reasonName : Reason → String
  | .login => "Login" | .logout => "Logout" | .reonline => "Reonline" | .switchLine => "SwitchLine"

def logicName : Option Bool → String
  | none => "-" | some true => "1" | some false => "0"

def codeName : Code → String
  | .ok => "ok" | .re lg => "re" ++ logicName lg | .already => "already" | .busy => "busy"

/-- driver state: the model state, the parts of the record the harness could not read out of the code
under test (`reset unres=L,S`: echoed as `?`), and per account the login requests issued and not yet
answered with their issue times (for the "two possibly expired parked logins" rule) -/
structure DState where
  s : State := {}
  unres : List String := []
  timer : Bool := false      -- `reset timer=1`: the case runs with the 1 s timer of `PlayerMgr.Start`
  extra : List Nat := []     -- the accounts beyond `uids` addressed so far by `crowd` (counted in np / nt, not printed)
  unanswered : Nat → List (Nat × Nat) := fun _ => []

def DState.un (d : DState) (k : String) : Bool := d.unres.contains k

def DState.all (d : DState) : List Nat := uids ++ d.extra

def showAcct (d : DState) (a : Acct) : String :=
  if !d.un "P" && !d.un "T" && a.player.isNone && a.task.isNone && a.pend.isEmpty then " -"
  else
    let p :=
      if d.un "P" then " st=?"
      else match a.player with
      | some p =>
        let lk := if d.un "L" then "?" else if p.lock.held then s!"{reasonName p.lock.reason}@{p.lock.timeout}" else "-"
        let st := if d.un "S" then "?" else toString p.stTimeout
        s!" st={stateName p.state}@{st} lk={lk} c={p.front}:{p.net} lg={logicName p.logic}"
      | none => " st=-"
    let t :=
      if d.un "T" then " tk=?"
      else match a.task with
      | some t => if d.un "C" then " tk=?:?" else s!" tk={t.front}:{t.net}"
      | none => " tk=-"
    p ++ t ++ s!" po={a.pend.length}"

def snapshot (d : DState) : String :=
  let s := d.s
  let accts := String.join (uids.map fun u => " |" ++ showAcct d (s.accts u))
  let np := (d.all.filter fun u => (s.accts u).player.isSome).length
  let nt := (d.all.filter fun u => (s.accts u).task.isSome).length
  let nc := if d.un "N" then "?" else toString s.nextCheck
  let np := if d.un "P" then "?" else toString np
  let nt := if d.un "T" then "?" else toString nt
  accts ++ s!" | nc={nc} np={np} nt={nt}"

/-- insertion sort of the rendered kicks (the harness sorts them as strings) -/
def insertStr (x : String) : List String → List String
  | [] => [x]
  | y :: ys => if x ≤ y then x :: y :: ys else y :: insertStr x ys

def sortStrs (xs : List String) : List String := xs.foldr insertStr []

/-- `ret` is what the caller of the centre's remote API received (`Model/CenterRemote.lean`): the harness sends
every operation as a request to `centerremote.*` and shows the `NormalAck` code that came back -/
def showOut (op : Op) (u : Nat) (o : Out) : String :=
  let ret := (Remote.reply op o).render op
  let acks := o.evs.filterMap fun e => match e with
    | .ack id n c => some s!"{u}.{id}:{n}:{codeName c}" | _ => none
  let kicks := sortStrs (o.evs.filterMap fun e => match e with
    | .kick f n => if f == 1 || f == 2 then some s!"{f}:{n}" else none | _ => none)
  let offs := o.evs.filterMap fun e => match e with | .off => some s!"{u}" | _ => none
  s!"ret={ret} acks={",".intercalate acks} kicks={",".intercalate kicks} offs={",".intercalate offs}"

/-- the accounts whose parked login the next expiry scan would remove -/
def expiredNow (d : DState) : List Nat :=
  let s := d.s
  if s.now < s.nextCheck then []
  else d.all.filter fun u => match (s.accts u).task with
    | some t => t.expired s.now
    | none => false

inductive Parsed
  | op (o : Op)
  | reset (unres : List String) (timer : Bool)
  | crowd (b n : Nat)
  | bad

def validUid (u : Nat) : Bool := 1 ≤ u && u ≤ nAccts

/-- `crowd b=B n=N`: the accounts `crowdBase+B+1 .. crowdBase+B+N`, each going through the double-device
sequence: login on front-end 1, logined, a second login from front-end 2 asking for the kick -/
def crowdBase : Nat := 1000
def crowdMax : Nat := 4096

def crowdOps (b i : Nat) : List Op :=
  let u := crowdBase + b + i
  [.login u 1 (2 * i - 1) false, .logined u true none, .login u 2 (2 * i) true]

def parseOp (ws : List String) (pick : Option Nat) : Parsed :=
  match ws.head? with
  | some "reset" => .reset (match kv ws "unres" with
      | some u => (u.splitOn ",").filter (· ≠ "")
      | none => []) (kvNat ws "timer" == some 1)
  | some "tick" => .op .tick
  | some "crowd" =>
    match kvNat ws "n" with
    | some n =>
      let b := (kvNat ws "b").getD 0
      if 1 ≤ n && n ≤ crowdMax && b ≤ crowdMax then .crowd b n else .bad
    | none => .bad
  | some "adv" => match kvNat ws "ms" with
    | some ms => .op (.adv ms)
    | none => .bad
  | some "advt" => match kvNat ws "ms" with
    | some ms => .op (.advT ms)
    | none => .bad
  | some h =>
    match kvNat ws "u" with
    | none => .bad
    | some u =>
      if !validUid u then .bad else
      match h with
      | "login" =>
        match kvNat ws "f", kvNat ws "n", kvNat ws "k" with
        | some f, some n, some k => .op (.login u (min f 3) n (k == 1))
        | _, _, _ => .bad
      | "closed" => .op (.closed u pick)
      | "logined" => .op (.logined u (kvNat ws "lg" == some 1) pick)
      | "reonline" => .op (.reonline u)
      | "logoutreq" => .op (.logoutReq u)
      | "logoutdone" => .op (.logoutDone u)
      | "abnormal" => .op (.abnormal u)
      | "swbegin" => .op (.swBegin u)
      | "swend" => .op (.swEnd u)
      | "offreply" => .op (.offReply u pick)
      | _ => .bad
  | none => .bad

def usesScan : Op → Bool
  | .closed .. | .logined .. | .offReply .. => true
  | _ => false

/-- would the advance let an unanswered offline request reach the service's own 30 s request
timeout?  (that path — C01's subject — is kept out of the driven histories) -/
def tooOld (s : State) (ms : Nat) : Bool :=
  uids.any fun u => (s.accts u).pend.any fun sent => decide (s.now + ms ≥ sent + 29000)

/-- accounts with a login request issued more than 30 s ago and still unanswered (its parked task may
have expired).  Two of them when a scan may run: the Go map order decides which parked login is dropped;
such operations are not driven (the harness applies the same rule, from the observable history only). -/
def staleUnanswered (d : DState) : Nat :=
  (d.all.filter fun u => (d.unanswered u).any fun e => decide (d.s.now > e.2 + 30000)).length

def ackedIds (o : Out) : List Nat :=
  o.evs.filterMap fun e => match e with | .ack id _ _ => some id | _ => none

/-- bookkeeping of unanswered login requests after a step on account `u` -/
def trackList (d : DState) (o : Op) (before : State) (out : Out) (u : Nat) : List (Nat × Nat) :=
  let cur := d.unanswered u
  let cur := match o with
    | .login .. => cur ++ [((before.accts u).nextId + 1, before.now)]
    | _ => cur
  let acked := ackedIds out
  cur.filter fun e => !acked.contains e.1

/-- (the new list is computed before it is stored: a stored partial application would recompute the whole
history at every lookup) -/
def track (d : DState) (o : Op) (before : State) (out : Out) : DState :=
  match o.uid with
  | none => d
  | some u =>
    let l := trackList d o before out u
    { d with unanswered := upd d.unanswered u l }

/-- summary of a `crowd` operation: fresh authorisations, other login answers, notifications acknowledged,
kick requests (to a front-end of the directory), offline requests -/
structure Tally where
  ok : Nat := 0
  oth : Nat := 0
  noti : Nat := 0
  kicks : Nat := 0
  offs : Nat := 0

def Tally.add (t : Tally) (o : Op) (out : Out) : Tally :=
  let acks := out.evs.filter fun e => match e with | .ack .. => true | _ => false
  let oks := out.evs.filter fun e => match e with | .ack _ _ .ok => true | _ => false
  let kicks := out.evs.filter fun e => match e with | .kick f _ => f == 1 || f == 2 | _ => false
  let offs := out.evs.filter fun e => match e with | .off => true | _ => false
  let noti := match o with
    | .logined .. => if (Remote.reply o out).render o == "-" then 1 else 0
    | _ => 0
  { ok := t.ok + oks.length, oth := t.oth + (acks.length - oks.length), noti := t.noti + noti,
    kicks := t.kicks + kicks.length, offs := t.offs + offs.length }

def crowdStep (dt : DState × Tally) (o : Op) : DState × Tally :=
  let d := dt.1
  let r := Cell2v.Center.step d.s o
  ({ track d o d.s r.2 with s := r.1 }, dt.2.add o r.2)

/-- the values of `f` on `us` laid out in an array indexed by account id (`dflt` elsewhere) -/
def tabulate {α : Type} (dflt : α) (f : Nat → α) (us : List Nat) : Array α :=
  us.foldl (fun a u => a.set! u (f u)) (Array.replicate (us.foldl max 0 + 1) dflt)

def lookupTab {α : Type} (arr : Array α) (dflt : α) (x : Nat) : α := arr.getD x dflt

/-- the state functions are chains of point updates, one link per operation; after a crowd they are re-tabulated
(the accounts never addressed hold the initial value), so that the operations that follow stay cheap -/
def compact (d : DState) : DState :=
  let accts := tabulate {} d.s.accts d.all
  let un := tabulate [] d.unanswered d.all
  { d with s := { d.s with accts := lookupTab accts {} }, unanswered := lookupTab un [] }

def crowdRun (d : DState) (b n : Nat) : DState × Tally :=
  let r := (List.range n).foldl (fun dt i =>
    let u := crowdBase + b + (i + 1)
    let d := dt.1
    let d := if d.extra.contains u then d else { d with extra := u :: d.extra }
    let r := (crowdOps b (i + 1)).foldl crowdStep (d, dt.2)
    if (i + 1) % 64 == 0 then (compact r.1, r.2) else r) (d, {})
  (compact r.1, r.2)

def step (d : DState) (line : String) : DState × String :=
  let ws := words line
  let s := d.s
  let ex := expiredNow d
  match parseOp ws ex.head? with
  | .bad => (d, "bad-op")
  | .crowd b n =>
    let r := crowdRun d b n
    let t := r.2
    (r.1, s!"ret=- crowd={n} ok={t.ok} oth={t.oth} noti={t.noti} kicks={t.kicks} offs={t.offs}" ++ snapshot r.1)
  | .reset un tm =>
    let d' : DState := { unres := un, timer := tm }
    (d', "ok" ++ snapshot d')
  | .op o =>
    if usesScan o && staleUnanswered d ≥ 2 then (d, "nondet")
    else match o with
    | .adv ms | .advT ms =>
      -- time passes either with the timer (`advt`, cases started by `reset timer=1`) or without (`adv`)
      if d.timer != (match o with | .advT _ => true | _ => false) then (d, "bad-op")
      else if ms == 0 || tooOld s ms then (d, "refused")
      else
        let r := Cell2v.Center.step s o
        let d' := { d with s := r.1 }
        (d', showOut o 0 r.2 ++ snapshot d')
    | .offReply u _ =>
      if (s.accts u).pend.isEmpty then (d, "none")
      else
        let r := Cell2v.Center.step s o
        let d' := { track d o s r.2 with s := r.1 }
        (d', showOut o u r.2 ++ snapshot d')
    | _ =>
      let r := Cell2v.Center.step s o
      let d' := { track d o s r.2 with s := r.1 }
      (d', showOut o (o.uid.getD 0) r.2 ++ snapshot d')

/-! ### spec mode -/

def parseCode (c : String) : Option Code :=
  if c == "ok" then some .ok
  else if c == "already" then some .already
  else if c == "busy" then some .busy
  else if c == "re1" then some (.re (some true))
  else if c == "re0" then some (.re (some false))
  else if c == "re-" then some (.re none)
  else none

/-- `u.k:n:code` -/
def parseAck (w : String) : Option (Nat × Ev) :=
  match w.splitOn ":" with
  | [uk, n, c] =>
    match uk.splitOn ".", n.toNat?, parseCode c with
    | [u, k], some n, some c =>
      match u.toNat?, k.toNat? with
      | some u, some k => some (u, .ack k n c)
      | _, _ => none
    | _, _, _ => none
  | _ => none

def parseRet (ws : List String) : Option Bool :=
  match kv ws "ret" with
  | some "t" => some true
  | some "f" => some false
  | _ => none

def specLine (m : Spec.Mon) (line : String) : Spec.Mon × String :=
  match line.splitOn "\t" with
  | [opl, obs] =>
    let ws := words opl
    if (obs.splitOn "panic").length > 1 then (m, "VIOLATION C18/panic " ++ opl)
    else if obs.startsWith "<" then (m, "VIOLATION C18/harness-died " ++ opl)
    else match parseOp ws none with
    | .bad => (m, "ok")
    | .reset _ _ => ({}, "ok")
    | .crowd b n =>
      -- the summary of N double-device sequences on other accounts: every notification acknowledged; when the
      -- centre had nothing on these accounts, each first login is a fresh authorisation (exactly one per account)
      if !obs.startsWith "ret=" then (m, "ok") else
      let ows := words ((obs.splitOn " |").headD "")
      let us := (List.range n).map fun i => crowdBase + b + (i + 1)
      let fresh := us.all fun u => (m.led u).entry == .none
      let ok := (kvNat ows "ok").getD 0
      if kvNat ows "noti" != some n then
        (m, s!"VIOLATION C18/request-answer at t={m.now} {opl} got {(obs.splitOn " |").headD ""}")
      else if fresh && ok < n then
        (m, s!"VIOLATION C18/refused-without-holder at t={m.now} {opl} got {(obs.splitOn " |").headD ""}")
      else if fresh && ok > n then
        (m, s!"VIOLATION C18/double-load at t={m.now} {opl} got {(obs.splitOn " |").headD ""}")
      else if !fresh then (m, "ok")
      else
        let m' := (List.range n).foldl (fun m i =>
          let u := crowdBase + b + (i + 1)
          let m1 := (Spec.monStep m ⟨.login u 1 (2 * (i + 1) - 1) false, { evs := [.ack 1 (2 * (i + 1) - 1) .ok] }⟩).1
          (Spec.monStep m1 ⟨.logined u true none, {}⟩).1) m
        (m', "ok")
    | .op o =>
      if !obs.startsWith "ret=" then (m, "ok")   -- refused / nondet / none: nothing happened
      else
        let ows := words ((obs.splitOn " |").headD "")
        let ackWords := match kv ows "acks" with
          | some a => (a.splitOn ",").filter (· ≠ "")
          | none => []
        let parsed := ackWords.map parseAck
        if parsed.any Option.isNone then (m, "VIOLATION C18/unknown-ack " ++ opl ++ " got " ++ obs)
        else
          let acks := parsed.filterMap id
          let foreign := acks.any fun a => some a.1 ≠ o.uid
          if foreign then (m, "VIOLATION C18/ack-for-other-account " ++ opl ++ " got " ++ obs)
          else
            let out : Out := { ret := parseRet ows, evs := acks.map (·.2) }
            let r := Spec.monStep m ⟨o, out⟩
            -- a request of the remote API must come back granted or refused, a notification acknowledged:
            -- anything else (no answer, an error, an unknown code, two answers) is not a refusal the caller can read
            let answered := match kv ows "ret" with
              | some "t" | some "f" => Remote.Op.isRequest o
              | some "-" => !Remote.Op.isRequest o
              | _ => false
            if !answered then (r.1, s!"VIOLATION C18/request-answer at t={m.now} {opl} got {(obs.splitOn " |").headD ""}")
            else match r.2 with
            | [] => (r.1, "ok")
            | v :: _ => (r.1, s!"VIOLATION {v.signature} at t={m.now} {opl} got {(obs.splitOn " |").headD ""}")
  | _ => (m, "bad-line")

end Cell2v.Driver.C18

open Cell2v.Driver in
def main (args : List String) : IO Unit :=
  match args with
  | ["spec"] => runLoop Cell2v.Driver.C18.specLine {}
  | _ => runLoop Cell2v.Driver.C18.step {}
